"""File trees for the find correspondence checks: random generation, building on disk, and the
unfolding of a tree as the walker sees it under a follow mode (independent of the Rust code:
plain os.lstat / os.stat / os.listdir)."""
import errno
import os
import re
import shutil
import stat

NAMES = [b"a", b"b", b"c", b"d", b"A", b"B", b"x.y", b"e f", "é".encode(), b"-n", b"z"]


def gen_tree(rng, max_nodes=30, max_depth=5, links=True, p_dir=0.4):
    """spec: ('d', {name: spec}) | ('f', size) | ('l', target bytes)"""
    count = [1]

    def mk(depth):
        ch = {}
        n = rng.choice([0, 1, 2, 2, 3, 3, 4, 5])
        for nm in rng.sample(NAMES, min(n, len(NAMES))):
            if count[0] >= max_nodes:
                break
            count[0] += 1
            r = rng.random()
            if r < p_dir and depth < max_depth:
                ch[nm] = mk(depth + 1)
            elif links and r < p_dir + 0.22:
                ch[nm] = ("l", None)      # target chosen after the shape is known
            else:
                ch[nm] = ("f", rng.choice([0, 0, 1, 5]))
        return ("d", ch)
    t = mk(0)
    if links:
        assign_links(rng, t)
    return t


def all_paths(spec, prefix=()):
    out = [(prefix, spec)]
    if spec[0] == "d":
        for nm, ch in spec[1].items():
            out += all_paths(ch, prefix + (nm,))
    return out


def assign_links(rng, tree):
    paths = all_paths(tree)
    dirs = [p for p, s in paths if s[0] == "d"]
    files = [p for p, s in paths if s[0] == "f"]

    def rel(frm_parent, to):
        # relative path from the directory holding the link to the target
        i = 0
        while i < len(frm_parent) and i < len(to) and frm_parent[i] == to[i]:
            i += 1
        parts = [b".."] * (len(frm_parent) - i) + list(to[i:])
        return b"/".join(parts) if parts else b"."

    def walk(spec, prefix):
        for nm, ch in list(spec[1].items()):
            here = prefix + (nm,)
            if ch[0] == "l":
                kind = rng.choice(["file", "dir", "dir", "anc", "dangling", "self", "outside", "outside_file", "dot", "chain"])
                if kind == "file" and files:
                    tgt = rel(prefix, rng.choice(files))
                elif kind == "dir" and dirs:
                    tgt = rel(prefix, rng.choice(dirs))
                elif kind == "anc":
                    tgt = b"/".join([b".."] * rng.randint(1, max(1, len(prefix)))) if prefix else b"."
                elif kind == "dangling":
                    tgt = rng.choice([b"nope", b"../nope", b"a/b/c/nope"])
                elif kind == "self":
                    tgt = nm
                elif kind == "outside":
                    tgt = b"/".join([b".."] * (len(prefix) + 1)) + b"/outside"
                elif kind == "outside_file":
                    tgt = b"/".join([b".."] * (len(prefix) + 1)) + b"/outside/of"
                elif kind == "dot":
                    tgt = b"."
                else:
                    others = [p for p, s in paths if s[0] == "l" and p != here]
                    tgt = rel(prefix, rng.choice(others)) if others else b"nope"
                spec[1][nm] = ("l", tgt)
            elif ch[0] == "d":
                walk(ch, here)
    walk(tree, ())


def build(root, spec):
    """materialise [spec] at path [root] (bytes); an 'outside' directory is created beside it"""
    base = os.path.dirname(root)
    out = os.path.join(base, b"outside")
    if not os.path.exists(out):
        os.makedirs(os.path.join(out, b"od"))
        open(os.path.join(out, b"of"), "wb").close()
        open(os.path.join(out, b"od", b"g"), "wb").close()

    def mk(path, s):
        if s[0] == "d":
            os.mkdir(path)
            for nm, ch in s[1].items():
                mk(os.path.join(path, nm), ch)
        elif s[0] == "f":
            with open(path, "wb") as f:
                f.write(b"x" * s[1])
        else:
            os.symlink(s[1], path)
    mk(root, spec)


def rmtree(path):
    def onerr(func, p, exc):
        try:
            os.chmod(os.path.dirname(p), 0o700)
            os.chmod(p, 0o700)
            func(p)
        except OSError:
            pass
    shutil.rmtree(path, onerror=onerr)


class TooBig(Exception):
    pass


class Unfolded:
    """nodes: id -> dict(path, kind, depth, name, lst (lstat), st (stat or None))"""

    def __init__(self):
        self.nodes = {}
        self.next_id = 1

    def new(self, **kw):
        i = self.next_id
        self.next_id += 1
        if i > 600:
            raise TooBig()
        self.nodes[i] = kw
        return i


def unfold(root, mode, uf=None, xdev=False):
    """The tree below the starting point [root] (bytes path as given to find) as the walker sees
    it in follow mode 'P' | 'H' | 'L'.  Returns (tree string for the model, Unfolded)."""
    uf = uf or Unfolded()

    def node(path, depth, ancestors, ident):
        """-> tree string; ident = id of this entry (0 = root)"""
        info = uf.nodes[ident] if ident else uf.nodes.setdefault(0, {})
        try:
            lst = os.lstat(path)
        except OSError as e:
            info.update(path=path, depth=depth, kind="missing", lst=None, st=None)
            return "B"
        info.update(path=path, depth=depth, lst=lst, st=None)
        follow = mode == "L" or (mode == "H" and depth == 0)
        st = lst
        if stat.S_ISLNK(lst.st_mode):
            if not follow:
                info["kind"] = "link"
                return "L"
            try:
                st = os.stat(path)
            except OSError as e:
                if e.errno in (errno.ENOENT, errno.ENOTDIR):
                    info["kind"] = "dangling"
                    return "G"
                info["kind"] = "badlink"
                return "B"
            info["st"] = st
            if not stat.S_ISDIR(st.st_mode):
                info["kind"] = "link-to-file"
                return "L"
            if mode == "L" and (st.st_dev, st.st_ino) in ancestors:
                info["kind"] = "loop"
                return "B"
            info["kind"] = "link-to-dir"
        elif stat.S_ISDIR(lst.st_mode):
            info["st"] = lst
            if mode == "L" and (lst.st_dev, lst.st_ino) in ancestors:
                # a directory reached again through a link further up: it closes the cycle just as a link to an ancestor does
                info["kind"] = "loop"
                return "B"
            info["kind"] = "dir"
        else:
            info["kind"] = "file"
            info["st"] = lst
            return "L"
        # -xdev: a directory on another file system than the starting point is an entry like any other, but is not entered
        if xdev and depth > 0 and root_dev[0] is not None and st.st_dev != root_dev[0]:
            info["kind"] = "other-device"
            return "D[]"
        if depth == 0:
            root_dev[0] = st.st_dev
        # a directory that is descended
        try:
            names = sorted(os.listdir(path))
        except OSError:
            # a directory that cannot be read is an entry like any other; what fails is reading it: one diagnostic, made when the walk
            # goes in (not at the depth bound, not when it is pruned) - a child that is only an error, as WalkGraph.unfold makes it
            info["kind"] = "unreadable"
            cid = uf.new(name=b"")
            uf.nodes[cid].update(path=path, depth=depth + 1, kind="unreadable-listing", lst=None, st=None)
            return "D[%d:B]" % cid
        anc2 = ancestors | {(st.st_dev, st.st_ino)}
        parts = []
        for nm in names:
            cid = uf.new(name=nm)
            parts.append("%d:%s" % (cid, node(os.path.join(path, nm), depth + 1, anc2, cid)))
        return "D[" + ",".join(parts) + "]"

    uf.nodes[0] = {"name": os.path.basename(root.rstrip(b"/")) or root}
    root_dev = [None]
    t = node(root, 0, frozenset(), 0)
    return t, uf


def graph_of(root, mode):
    """The graph of directory identities below [root] as follow mode [mode] sees it, for WalkGraph.unfold
    (the Coq side decides what is a cycle and what -xdev cuts; this only reads status records and listings).
    -> (root entry, graph string, number of identities)"""
    ids, devs, graph, queue = {}, {}, {}, []

    def classify(path, top):
        try:
            lst = os.lstat(path)
        except OSError:
            return "B"
        st = lst
        if stat.S_ISLNK(lst.st_mode):
            if not (mode == "L" or (mode == "H" and top)):
                return "F"
            try:
                st = os.stat(path)
            except OSError as e:
                return "G" if e.errno in (errno.ENOENT, errno.ENOTDIR) else "B"
        if not stat.S_ISDIR(st.st_mode):
            return "F"
        key = (st.st_dev, st.st_ino)
        if key not in ids:
            ids[key] = len(ids) + 1
            queue.append((ids[key], path))
            if len(ids) > 600:
                raise TooBig()
        return "D%d.%d" % (ids[key], devs.setdefault(st.st_dev, len(devs)))

    r = classify(root, True)
    while queue:
        i, path = queue.pop(0)
        try:
            names = sorted(os.listdir(path))
        except OSError:
            graph[i] = "!"
            continue
        graph[i] = ",".join(classify(os.path.join(path, nm), False) for nm in names)
    g = ";".join("%d=%s" % (i, graph[i]) for i in sorted(graph)) or "~"
    return r, g, len(ids)


def shape(tree):
    """the tree string without the identifiers"""
    return re.sub(r"\d+:", "", tree)


def event_paths(model_line, uf):
    """model events -> [(kind 'E'|'X', path bytes, depth, isdir)]"""
    out = []
    if model_line == "~":
        return out
    for ev in model_line.split(" "):
        if ev[0] == "X":
            ident = ev[1:]
            last = 0 if ident == "r" else int(ident.split(".")[-1])
            out.append(("X", uf.nodes[last]["path"], None, None))
        else:
            ident, d, b = ev[1:].split(":")
            last = 0 if ident == "r" else int(ident.split(".")[-1])
            out.append(("E", uf.nodes[last]["path"], int(d), b == "1"))
    return out
