"""Common machinery for the per-property checks (see DESIGN.md section 3).

A check = (O1) re-check the Coq theorems of coq/Props/<ID>.v against the tables regenerated
from /repo, and (O2) run the extracted model and the implementation built now from /repo's
working tree on the same generated inputs and compare.
"""
import fcntl
import hashlib
import json
import os
import random
import re
import shutil
import subprocess
import sys
import time

VERIF = os.path.dirname(os.path.dirname(os.path.abspath(__file__)))
REPO = os.environ.get("VERIF_REPO", "/repo")
BUILD = os.path.join(VERIF, "build")
COQ = os.path.join(VERIF, "coq")
FUV = os.path.join(BUILD, "target", "debug", "fuv")
FUVM = os.path.join(BUILD, "fuvm")
REPO_TARGET = os.path.join(BUILD, "repo-target")
FIND = os.path.join(REPO_TARGET, "debug", "find")
XARGS = os.path.join(REPO_TARGET, "debug", "xargs")
GUARD = "uutils_findutils_verif"
NCPU = os.cpu_count() or 4

FORBIDDEN = re.compile(
    r"\b(Admitted|admit|Axiom|Axioms|Parameter|Parameters|Conjecture|Hypothesis|Variable"
    r"|Admit Obligations|Unset Guard Checking|bypass_check|type-in-type|impredicative-set"
    r"|Unset Positivity Checking|Unset Universe Checking)\b")

TRUSTED_BASE = [
    "Coq 8.16.1 kernel (coqc; coqchk in the thorough tier); vm_compute used for witnesses and finite sweeps; no native_compute",
    "no axioms: every Print Assumptions must answer 'Closed under the global context'",
    "extraction: ExtrOcamlBasic only (bool, option, unit, list, prod, sumbool, sumor, andb, orb); nat/N/Z/positive as extracted inductives; OCaml 4.13.1; ocaml/driver.ml",
    "correspondence machinery: lib/framework.py, props/*.py generators and oracles, harness/ (Rust, built against /repo's working tree with --cfg uutils_findutils_verif), tools/extract_tables.py",
]


class Lock:
    def __init__(self, name):
        os.makedirs(BUILD, exist_ok=True)
        self.path = os.path.join(BUILD, "." + name + ".lock")

    def __enter__(self):
        self.f = open(self.path, "w")
        fcntl.flock(self.f, fcntl.LOCK_EX)

    def __exit__(self, *a):
        fcntl.flock(self.f, fcntl.LOCK_UN)
        self.f.close()


def sh(cmd, timeout=None, cwd=None, env=None, input=None):
    e = dict(os.environ)
    e.setdefault("CARGO_NET_OFFLINE", "true")
    if env:
        e.update(env)
    p = subprocess.run(cmd, shell=isinstance(cmd, str), cwd=cwd, env=e, input=input,
                       stdout=subprocess.PIPE, stderr=subprocess.STDOUT, timeout=timeout)
    return p.returncode, p.stdout.decode("utf-8", "replace")


# --------------------------------------------------------------------------- builds

def build_harness(log):
    """cargo build of harness/ (in-process runner, hooks on) and of /repo's own binaries."""
    with Lock("cargo"):
        lock_src = os.path.join(REPO, "Cargo.lock")
        lock_dst = os.path.join(VERIF, "harness", "Cargo.lock")
        if os.path.exists(lock_src):
            if not os.path.exists(lock_dst) or open(lock_src).read() != open(lock_dst).read():
                # cargo rewrites the copy (adds the harness package); only refresh when /repo's changed
                stamp = os.path.join(BUILD, ".lock.sha")
                h = hashlib.sha1(open(lock_src, "rb").read()).hexdigest()
                if not os.path.exists(stamp) or open(stamp).read() != h or not os.path.exists(lock_dst):
                    shutil.copy(lock_src, lock_dst)
                    open(stamp, "w").write(h)
        t = time.time()
        rc, out = sh(["cargo", "build", "--offline", "--target-dir", os.path.join(BUILD, "target")],
                     cwd=os.path.join(VERIF, "harness"), env={"RUSTFLAGS": "--cfg " + GUARD}, timeout=1500)
        log["harness_build_s"] = round(time.time() - t, 1)
        if rc != 0:
            return False, out
        t = time.time()
        rc, out2 = sh(["cargo", "build", "--offline", "--bins", "--manifest-path", os.path.join(REPO, "Cargo.toml"),
                       "--target-dir", REPO_TARGET], timeout=1500)
        log["repo_build_s"] = round(time.time() - t, 1)
        if rc != 0:
            return False, out2
    return True, ""


def build_coq(targets, log, timeout=1500):
    with Lock("coq"):
        t = time.time()
        sh([os.path.join(VERIF, "tools", "mkcoq.sh")])
        rc, out = sh(["make", "-C", COQ, "-j", str(NCPU)] + targets, timeout=timeout)
        log["coq_build_s"] = round(time.time() - t, 1)
    return rc == 0, out


def build_model(log):
    """Extraction + OCaml driver; rebuilt when any model source or the driver changed."""
    with Lock("coq"):
        srcs = []
        for d in ("Base", "Model", "Generated", "Extract"):
            p = os.path.join(COQ, d)
            for root, _, files in os.walk(p):
                srcs += [os.path.join(root, f) for f in files if f.endswith(".v")]
        srcs.append(os.path.join(VERIF, "ocaml", "driver.ml"))
        h = hashlib.sha1()
        for s in sorted(srcs):
            h.update(s.encode())
            h.update(open(s, "rb").read())
        stamp = os.path.join(BUILD, ".model.sha")
        if os.path.exists(FUVM) and os.path.exists(stamp) and open(stamp).read() == h.hexdigest():
            return True, ""
        t = time.time()
        sh([os.path.join(VERIF, "tools", "mkcoq.sh")])
        # Extract/Extract.v is compiled by ocaml/build.sh; everything it imports must be there (a thorough run starts from make clean)
        vos = [os.path.relpath(s, COQ)[:-2] + ".vo" for s in srcs if s.endswith(".v") and os.sep + "Extract" + os.sep not in s]
        rc, out = sh(["make", "-C", COQ, "-j", str(NCPU)] + sorted(vos), timeout=1500)
        if rc != 0:
            return False, out
        rc, out = sh([os.path.join(VERIF, "ocaml", "build.sh")], timeout=900)
        log["model_build_s"] = round(time.time() - t, 1)
        if rc != 0:
            return False, out
        open(stamp, "w").write(h.hexdigest())
    return True, ""


# --------------------------------------------------------------------------- running cases

def _big_stack():
    """the extracted model recurses on lists (fold_right, app): give it a deep stack (the implementation's processes keep the
    default, because the stack limit is an input of the ARG_MAX computations under test)"""
    import resource
    soft, hard = resource.getrlimit(resource.RLIMIT_STACK)
    want = 4 << 30
    if hard != resource.RLIM_INFINITY:
        want = min(want, hard)
    if soft == resource.RLIM_INFINITY or soft >= want:
        return
    resource.setrlimit(resource.RLIMIT_STACK, (want, hard))


def run_lines(binary, lines, shards=None, timeout=1200, env=None, cwd=None, clean_env=False):
    """Feed [lines] to a line-protocol binary; returns one output line per input line."""
    if not lines:
        return []
    n = len(lines)
    if shards is None:
        shards = max(1, min(NCPU, n // 200))
    size = (n + shards - 1) // shards
    procs = []
    e = {} if clean_env else dict(os.environ)
    if env:
        e.update(env)
    for i in range(0, n, size):
        data = ("\n".join(lines[i:i + size]) + "\n").encode()
        p = subprocess.Popen([binary], stdin=subprocess.PIPE, stdout=subprocess.PIPE,
                             stderr=subprocess.DEVNULL, env=e, cwd=cwd,
                             preexec_fn=_big_stack if binary == FUVM else None)
        procs.append((p, data, min(size, n - i)))
    # feed sequentially with threads to avoid pipe deadlocks
    import threading
    outs = [None] * len(procs)

    def work(k):
        p, data, _ = procs[k]
        try:
            o, _ = p.communicate(data, timeout=timeout)
        except subprocess.TimeoutExpired:
            p.kill()
            o, _ = p.communicate()
        outs[k] = o
    ths = [threading.Thread(target=work, args=(k,)) for k in range(len(procs))]
    for t in ths:
        t.start()
    for t in ths:
        t.join()
    res = []
    for k, (p, data, cnt) in enumerate(procs):
        got = outs[k].decode("utf-8", "replace").split("\n")
        if got and got[-1] == "":
            got.pop()
        # a crash of the runner itself (abort, stack overflow) loses the tail: mark it
        while len(got) < cnt:
            got.append("runner-died")
        res += got[:cnt]
    if binary == FUVM:
        # the model is total: an exception or an unknown request in its runner is a fault of the machinery, never an answer
        for ln, r in zip(lines, res):
            if r.startswith("exn ") or r in ("badcase", "runner-died"):
                raise RuntimeError("model runner failed: %r on request %r" % (r, ln[:200]))
    return res


def hexs(b):
    if isinstance(b, str):
        b = b.encode()
    return b.hex() if b else "-"


def unhex(s):
    return b"" if s == "-" else bytes.fromhex(s)


# --------------------------------------------------------------------------- context

class Ctx:
    def __init__(self, pid, tier, seed):
        self.pid, self.tier, self.seed = pid, tier, seed
        self.rng = random.Random(seed * 1000003 + int(pid[1:]))
        self.t0 = time.time()
        self.log = {}
        self.violations = []      # (summary, replay_obj)
        self.known_hits = []      # descriptions of listed findings reproduced
        self.cov = {"evaluations": 0, "distinct_nontrivial": 0, "samples": [], "distribution": {}}
        self._distinct = set()
        self.obligations = 0
        self.discharged = 0
        self.axioms = []
        self.theorems = []
        self.proof_errors = []
        self.notes = []
        self.known = load_known(pid)
        self.thorough = tier == "thorough"

    # -- bookkeeping for evidence
    def count(self, case_key, nontrivial=True, bucket=None):
        self.cov["evaluations"] += 1
        if nontrivial:
            k = hashlib.sha1(repr(case_key).encode()).digest()[:8]
            if k not in self._distinct:
                self._distinct.add(k)
        if bucket:
            for b in (bucket if isinstance(bucket, (list, tuple)) else [bucket]):
                self.cov["distribution"][b] = self.cov["distribution"].get(b, 0) + 1

    def sample(self, obj):
        if len(self.cov["samples"]) < 8:
            self.cov["samples"].append(obj)

    def violation(self, summary, replay):
        self.violations.append((summary, replay))

    def unshown(self, summary, replay):
        """something the check relies on no longer holds and no failing input was found (or searched for)"""
        if not hasattr(self, "unshown_list"):
            self.unshown_list = []
        self.unshown_list.append((summary, replay))

    def known_finding(self, fid, what):
        if (fid, what) not in self.known_hits:
            self.known_hits.append((fid, what))

    def is_known(self, fid):
        return any(k.get("id") == fid and k.get("status") == "known" for k in self.known)


def load_known(pid):
    """KNOWN_FINDINGS.txt: 'known: property=<id> id=<slug> <what>' / 'fixed: property=<id> <commit> <what>'"""
    p = os.path.join(VERIF, "KNOWN_FINDINGS.txt")
    out = []
    if os.path.exists(p):
        for line in open(p):
            m = re.match(r"(known|fixed): property=(\S+) (?:id=(\S+) )?(.*)", line.strip())
            if m and m.group(2) == pid:
                out.append({"status": m.group(1), "property": m.group(2), "id": m.group(3), "what": m.group(4)})
    return out


# --------------------------------------------------------------------------- (O1) proofs

def coq_obligations(ctx, extra_targets=()):
    """Build the closure of Props/<pid>.v, recompile it to read Print Assumptions."""
    pid = ctx.pid
    props = os.path.join(COQ, "Props", pid + ".v")
    src = open(props).read()
    names = re.findall(r"^(?:Theorem|Example|Lemma|Corollary)\s+(\w+)", src, re.M)
    ctx.theorems = names
    ctx.obligations = len(names)
    # forbidden constructs anywhere in the development
    bad = []
    for root, _, files in os.walk(COQ):
        for f in files:
            if f.endswith(".v"):
                txt = open(os.path.join(root, f)).read()
                txt = re.sub(r"\(\*.*?\*\)", "", txt, flags=re.S)
                for m in FORBIDDEN.finditer(txt):
                    # "Variable"/"Hypothesis" are legal inside a Section; flag only outside
                    if m.group(1) in ("Variable", "Hypothesis"):
                        pre = txt[:m.start()]
                        if len(re.findall(r"^\s*Section\s", pre, re.M)) > len(re.findall(r"^\s*End\s", pre, re.M)):
                            continue
                    bad.append("%s: %s" % (os.path.relpath(os.path.join(root, f), COQ), m.group(1)))
    if bad:
        ctx.proof_errors.append("forbidden construct: " + "; ".join(sorted(set(bad))[:10]))
    vo = "Props/%s.vo" % pid
    if ctx.thorough:
        with Lock("coq"):
            sh(["make", "-C", COQ, "clean"], timeout=300)
    try:
        os.remove(os.path.join(COQ, vo))
    except OSError:
        pass
    ok, out = build_coq([vo] + list(extra_targets), ctx.log)
    ctx.log["coq_output_tail"] = out[-1500:]
    if not ok:
        m = re.search(r'File "([^"]+)", line (\d+).*?\n(Error:.*?)(?:\n\n|\Z)', out, re.S)
        ctx.proof_errors.append("coq build failed: " + (("%s:%s %s" % (m.group(1), m.group(2), m.group(3)[:400])) if m else out[-600:]))
        ctx.discharged = 0
        return False
    closed = out.count("Closed under the global context")
    axioms = re.findall(r"^Axioms:\n((?:.+\n)+)", out, re.M)
    n_pa = len(re.findall(r"^Print Assumptions", src, re.M))
    ctx.axioms = [a.strip() for a in axioms]
    if axioms or closed < n_pa:
        ctx.proof_errors.append("Print Assumptions: %d of %d closed; axioms: %s" % (closed, n_pa, ctx.axioms[:3]))
    if ctx.thorough:
        t = time.time()
        rc, o = sh(["coqchk", "-silent", "-o", "-R", COQ, "FU", "FU.Props." + pid], timeout=1800)
        ctx.log["coqchk_s"] = round(time.time() - t, 1)
        ctx.log["coqchk_tail"] = o[-800:]
        if rc != 0 or not re.search(r"Axioms:\s*<none>", o):
            ctx.proof_errors.append("coqchk: rc=%d %s" % (rc, o[-300:]))
    ctx.discharged = ctx.obligations if not ctx.proof_errors else 0
    return not ctx.proof_errors


# --------------------------------------------------------------------------- finishing

def write_replay(ctx, obj):
    d = os.path.join(VERIF, "evidence", "replay")
    os.makedirs(d, exist_ok=True)
    blob = json.dumps(obj, sort_keys=True, indent=1)
    name = "%s-%s.json" % (ctx.pid, hashlib.sha1(blob.encode()).hexdigest()[:10])
    p = os.path.join(d, name)
    open(p, "w").write(blob + "\n")
    return p


def finish(ctx, rule, assumptions, checker_cmd=None):
    cov = ctx.cov
    cov["distinct_nontrivial"] = len(ctx._distinct)
    cov["rule"] = rule
    cov["obligations"] = ctx.obligations
    cov["discharged"] = ctx.discharged
    cov["checker_cmd"] = checker_cmd or ("make -C coq Props/%s.vo (coq_makefile full .vo build; Print Assumptions parsed)%s"
                                         % (ctx.pid, "; coqchk -o FU.Props.%s" % ctx.pid if ctx.thorough else ""))
    cov["trusted_base"] = TRUSTED_BASE
    cov["theorems"] = ctx.theorems
    cov["axioms"] = ctx.axioms if ctx.axioms else "Closed under the global context"
    cov["proof_errors"] = ctx.proof_errors
    cov["known_findings_reproduced"] = [w for _, w in ctx.known_hits]
    cov["timings"] = ctx.log
    cov["notes"] = ctx.notes
    nviol = 0
    lines = []
    for fid, what in ctx.known_hits:
        lines.append("KNOWN-FINDING: property=%s %s" % (ctx.pid, what))
    seen_paths = set()
    for summary, replay in ctx.violations[:20]:
        path = write_replay(ctx, replay)
        if path in seen_paths:
            continue
        seen_paths.add(path)
        nviol += 1
        lines.append("VIOLATION property=%s replay=%s" % (ctx.pid, path))
        sys.stderr.write("  -> %s\n" % summary)
    for summary, replay in getattr(ctx, "unshown_list", [])[:10]:
        path = write_replay(ctx, replay)
        if path in seen_paths:
            continue
        seen_paths.add(path)
        nviol += 1
        lines.append("VIOLATION property=%s replay=%s no-failing-input-found" % (ctx.pid, path))
        sys.stderr.write("  -> %s\n" % summary)
    if ctx.proof_errors:
        # an obligation no longer checks; if the search found a failing input it is reported above,
        # otherwise the property is no longer shown to hold
        if not ctx.violations:
            nviol += 1
            path = write_replay(ctx, {"property": ctx.pid, "kind": "proof-obligation",
                                      "unchecked": ctx.proof_errors, "theorems": ctx.theorems})
            lines.append("VIOLATION property=%s replay=%s no-failing-input-found" % (ctx.pid, path))
    ev = {
        "property_id": ctx.pid, "tier": ctx.tier, "seed": ctx.seed, "level": "proof",
        "coverage": cov, "assumptions": assumptions,
        "wall_s": round(time.time() - ctx.t0, 1), "violations": nviol,
    }
    os.makedirs(os.path.join(VERIF, "evidence"), exist_ok=True)
    with open(os.path.join(VERIF, "evidence", ctx.pid + ".json"), "w") as f:
        json.dump(ev, f, indent=1, sort_keys=True, default=str)
        f.write("\n")
    for l in lines:
        print(l)
    print("%s %s: obligations %d/%d, %d evaluations (%d distinct non-trivial), %d violation(s), %.1fs"
          % (ctx.pid, ctx.tier, ctx.discharged, ctx.obligations, cov["evaluations"], cov["distinct_nontrivial"],
             nviol, time.time() - ctx.t0))
    return 1 if nviol else 0


def shrink_list(items, still_fails, max_steps=400):
    """ddmin-style reduction of a list while [still_fails] holds."""
    steps = 0
    n = 2
    cur = list(items)
    while len(cur) >= 1 and steps < max_steps:
        size = max(1, len(cur) // n)
        reduced = False
        for i in range(0, len(cur), size):
            cand = cur[:i] + cur[i + size:]
            steps += 1
            if cand != cur and still_fails(cand):
                cur = cand
                n = max(n - 1, 2)
                reduced = True
                break
        if not reduced:
            if size == 1:
                break
            n = min(len(cur), n * 2)
    return cur
