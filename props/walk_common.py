"""Shared machinery of the traversal checks (C02, C03): trees on disk, the unfolding fed to the
Walk model, in-process find runs, comparison of the visit sequences."""
import os
import tempfile

from lib import framework as fw
from lib import fstree
from props import xargs_common as xc

MODEFLAG = {"P": ["-P"], "H": ["-H"], "L": ["-L"], "follow": [], "default": []}


def find_args(case):
    a = list(MODEFLAG[case["mode"]]) + [r.decode() for r in case["roots"]]
    if case["mode"] == "follow":
        a.append("-follow")
    if case.get("mind") is not None:
        a += ["-mindepth", str(case["mind"])]
    if case.get("maxd") is not None:
        a += ["-maxdepth", str(case["maxd"])]
    if case.get("xdev"):
        a.append(case["xdev"])          # "-xdev" or "-mount"
    # -depth is a global option wherever it stands: before the expression, or after it (case["post_late"])
    if case.get("post") and not case.get("post_late"):
        a.append("-depth")
    a.append("-sorted")
    a.append("-print0")
    if case.get("prune"):
        a += [",", "("]
        for i, nm in enumerate(case["prune"]):
            if i:
                a.append("-o")
            a += ["-name", nm.decode()]
        a += [")", "-prune"]
    if case.get("post") and case.get("post_late"):
        a.append(case["post_late"])
    return a


def impl_line(case, cwd):
    return "find - %s %s" % (fw.hexs(cwd), xc.hexlist([x.encode() for x in find_args(case)]))


def model_lines(case, cwd):
    """one model line per root + the unfolded trees"""
    mode = {"follow": "L", "default": "P"}.get(case["mode"], case["mode"])
    lines, ufs = [], []
    for r in case["roots"]:
        t, uf = fstree.unfold(os.path.join(cwd, r), mode, xdev=bool(case.get("xdev")))
        # the same unfolding by the Coq function, from the bare graph of directory identities
        rent, g, nids = fstree.graph_of(os.path.join(cwd, r), mode)
        uf.graph_line = "unfoldg %d %d %d %s %s" % (int(mode == "L"), int(bool(case.get("xdev"))), nids + 1, rent, g)
        uf.shape = fstree.shape(t)
        # report paths as find prints them: relative to cwd, as spelled
        for n in uf.nodes.values():
            if "path" in n:
                n["path"] = n["path"][len(cwd) + 1:]
        prune = []
        if case.get("prune"):
            for i, n in uf.nodes.items():
                if n.get("name") in case["prune"]:
                    prune.append("r" if i == 0 else str(i))
        mind = case.get("mind") or 0
        maxd = case.get("maxd") if case.get("maxd") is not None else 1000000
        # nat numerals: cap the "no limit" value at something the Peano driver can build
        maxd = min(maxd, 1100)
        lines.append("walk %d %d %d %s %s" % (mind, maxd, int(bool(case.get("post"))), ",".join(prune) if prune else "~", t))
        ufs.append(uf)
    return lines, ufs


def expected_from_model(mlines_out, ufs):
    out, err = b"", 0
    events = []
    for line, uf in zip(mlines_out, ufs):
        for kind, path, d, isdir in fstree.event_paths(line, uf):
            events.append((kind, path))
            if kind == "E":
                out += path + b"\0"
            else:
                err += 1
    return out, err, events


def decode_find(line):
    p = line.split(" ")
    if p[0] in ("panic", "runner-died", "badcase", "badcwd", "badutf8"):
        return p[0], b"", b""
    return int(p[0]), fw.unhex(p[1]), fw.unhex(p[2]) if len(p) > 2 else b""


def diagnostics(line):
    """the number of 'Error...' lines the run wrote to standard error (None for a run that did not end normally)"""
    p = line.split(" ")
    return int(p[3]) if len(p) > 3 and p[0].lstrip("-").isdigit() else None


class Forest:
    """a scratch directory holding several generated trees"""

    def __init__(self, prefix):
        os.makedirs(os.path.join(fw.BUILD, "tmp"), exist_ok=True)
        self.dir = tempfile.mkdtemp(prefix=prefix, dir=os.path.join(fw.BUILD, "tmp")).encode()
        self.trees = {}

    def add(self, name, spec):
        fstree.build(os.path.join(self.dir, name), spec)
        self.trees[name] = spec

    def other_device(self):
        """a small directory tree on another file system (/dev/shm), to be linked into the trees for -xdev; None where there is none"""
        if getattr(self, "_other", False) is not False:
            return self._other
        self._other = None
        try:
            if os.path.isdir("/dev/shm") and os.stat("/dev/shm").st_dev != os.stat(self.dir).st_dev:
                d = tempfile.mkdtemp(prefix="fuv-xdev-", dir="/dev/shm").encode()
                fstree.build(os.path.join(d, b"o"), ("d", {b"of": ("f", 1), b"od": ("d", {b"g": ("f", 0)})}))
                self._other = os.path.join(d, b"o")
        except OSError:
            self._other = None
        return self._other

    def close(self):
        fstree.rmtree(self.dir)
        if getattr(self, "_other", None):
            fstree.rmtree(os.path.dirname(self._other))


def run_cases(ctx, forest, cases, bucket_fn):
    """compare implementation and model on [cases]; returns list of (case, got, expected)"""
    cwd = forest.dir
    il = [impl_line(c, cwd) for c in cases]
    ml, idx, ufs_all = [], [], []
    for c in cases:
        try:
            lines, ufs = model_lines(c, cwd)
        except fstree.TooBig:
            lines, ufs = None, None
            ctx.count((c["treekey"], "too-big", tuple(find_args(c))), False, ["skipped-unfolding-over-600-nodes"])
        idx.append((len(ml), len(lines) if lines else 0))
        ufs_all.append(ufs)
        if lines:
            ml += lines
    gl = [uf.graph_line for ufs in ufs_all if ufs for uf in ufs]
    impl = xc.run_impl(il)
    mout = fw.run_lines(fw.FUVM, ml + gl)
    gout = iter(mout[len(ml):])
    bad = []
    for c, i, (st, n), ufs in zip(cases, impl, idx, ufs_all):
        if ufs is None:
            continue
        # WalkGraph.unfold (proved total and cycle-free) and the reference unfolding must make the same tree
        shapes = [(next(gout), uf.shape) for uf in ufs]
        if any(a != b for a, b in shapes):
            ctx.count((c["treekey"], "unfolding", tuple(find_args(c))), True, ["unfolding-disagrees"])
            bad.append((c, ("WalkGraph.unfold", "\0".join(a for a, _ in shapes).encode() + b"\0", b"the unfolding of the Coq model and the reference unfolding disagree"),
                        ("fstree.unfold", "\0".join(b for _, b in shapes).encode() + b"\0", 0)))
            continue
        exp_out, exp_err, events = expected_from_model(mout[st:st + n], ufs)
        code, out, err = decode_find(i)
        exp_code = 1 if exp_err else 0
        nontrivial, buckets = bucket_fn(c, events, ufs)
        ctx.count((c["treekey"], tuple(find_args(c))), nontrivial, buckets)
        # one diagnostic per entry that cannot be read
        ndiag = diagnostics(i)
        ok = (code == exp_code) and out == exp_out and ndiag == exp_err
        if not ok:
            bad.append((c, (code, out, err), (exp_code, exp_out, exp_err)))
    return bad


def describe(forest, case):
    return {"find_args": find_args(case), "trees": {r.decode(): spec_json(forest.trees[r]) for r in case["roots"] if r in forest.trees}}


def spec_json(s):
    if s[0] == "d":
        return {k.decode("utf-8", "replace"): spec_json(v) for k, v in s[1].items()}
    if s[0] == "l":
        return "-> " + s[1].decode("utf-8", "replace")
    return "file(%d)" % s[1]


def spec_from_json(j):
    if isinstance(j, dict):
        return ("d", {k.encode(): spec_from_json(v) for k, v in j.items()})
    if j.startswith("-> "):
        return ("l", j[3:].encode())
    return ("f", int(j[5:-1]))
