"""C14 - find numeric operands: N / +N / -N trichotomy and -size unit rounding.

(O1) coq/Props/C14.v (with the unit table regenerated from size.rs).  (O2) find_main in-process on a
directory of sparse files with sizes k*unit-1, k*unit, k*unit+1 for every unit (up to 5 GiB), hard
links, chown'ed files, against the extracted Numeric model, one (operand, file) pair at a time."""
import os
import tempfile

from lib import framework as fw
from props import walk_common as wc
from props import xargs_common as xc

RULE = ("(test, operand, file) triples: -size with every sign x N around the file sizes x every unit suffix and malformed operands, on sparse files "
        "at k*unit-1, k*unit, k*unit+1 for k in 0..5 and near 5 GiB; -links/-inum/-uid/-gid with N = value-1, value, value+1 and 64-bit edge values; "
        "non-trivial = distinct accepted triple")
ASSUMPTIONS = [
    "st_size, st_nlink, st_ino, st_uid, st_gid as reported by os.lstat are what Metadata reports (same syscall)",
    "operands with non-ASCII digits are modelled as rejected (the Unicode \\d match is followed by a failing u64 parse)",
]
UNITS = {"c": 1, "w": 2, "b": 512, "": 512, "k": 1024, "M": 2 ** 20, "G": 2 ** 30}


def build(d):
    sizes = set()
    for u in (1, 2, 512, 1024, 2 ** 20, 2 ** 30):
        for k in (0, 1, 2, 3, 5):
            for dlt in (-1, 0, 1):
                v = k * u + dlt
                if v >= 0:
                    sizes.add(v)
    sizes |= {5 * 2 ** 30 - 1, 5 * 2 ** 30, 5 * 2 ** 30 + 1, 7, 100, 4095, 4097}
    files = {}
    for s in sorted(sizes):
        p = os.path.join(d, "s%d" % s)
        with open(p, "wb") as f:
            f.truncate(s)
        files["s%d" % s] = p
    # link counts 1..5
    for n in range(1, 6):
        p = os.path.join(d, "l%d_0" % n)
        open(p, "wb").close()
        for j in range(1, n):
            os.link(p, os.path.join(d, "l%d_%d" % (n, j)))
    for k, (u, g) in enumerate([(12345, 54321), (0, 7), (4294967294, 1)]):
        p = os.path.join(d, "o%d" % k)
        open(p, "wb").close()
        os.chown(p, u, g)
    return sorted(os.listdir(d))


def operands(rng, thorough):
    ops = []
    ns = [0, 1, 2, 3, 4, 5, 6, 511, 512, 513, 1023, 1024, 1025, 2047, 2048, 2049, 2 ** 20, 2 ** 20 + 1, 2 ** 30, 5 * 2 ** 30,
          2 ** 63 - 1, 2 ** 63, 2 ** 64 - 1, 2 ** 64, 10 ** 25]
    for suf in ["", "c", "w", "b", "k", "M", "G"]:
        for sign in ["", "+", "-"]:
            for n in ns:
                ops.append("%s%d%s" % (sign, n, suf))
    ops += ["", "+", "-", "k", "1x", "1kk", "1 k", " 1", "1K", "1m", "1g", "1B", "１", "٣", "1٣k", "0x10", "1\n", "1k\n", "++1", "+-1",
            "1.5k", "1e3", "01", "007k", "-0", "+0", "1T", "1P", "c", "1cc", "abc10k", "10kabc"]
    if not thorough:
        rng.shuffle(ops)
        keep = [o for o in ops if not o[-1:].isalpha() or True]
        ops = keep[:260] + ["-1k", "1M", "+0", "-0", "1G", "-1G", "+1G", "abc10k", "18446744073709551616", "18446744073709551615c"]
    return ops


def run(ctx):
    rng = ctx.rng
    os.makedirs(os.path.join(fw.BUILD, "tmp"), exist_ok=True)
    d = tempfile.mkdtemp(prefix="c14-", dir=os.path.join(fw.BUILD, "tmp"))
    try:
        names = build(d)
        st = {n: os.lstat(os.path.join(d, n)) for n in names}
        tests = []   # (flag, operand, model-kind, value-fn)
        for op in operands(rng, ctx.thorough):
            tests.append(("-size", op, "size", lambda s: s.st_size))
        for flag, fn in (("-links", lambda s: s.st_nlink), ("-inum", lambda s: s.st_ino), ("-uid", lambda s: s.st_uid), ("-gid", lambda s: s.st_gid)):
            vals = sorted({fn(s) for s in st.values()})
            picks = set()
            for v in vals[:6] + vals[-3:]:
                picks |= {v - 1, v, v + 1}
            picks |= {0, 2 ** 32 - 1, 2 ** 63, 2 ** 64 - 1, 2 ** 64}
            for v in sorted(p for p in picks if p >= 0):
                for sign in ["", "+", "-"]:
                    tests.append((flag, "%s%d" % (sign, v), "num", fn))
            for badop in ["1k", "", "x", "+", "1 "]:
                tests.append((flag, badop, "num", fn))
        il = ["find - %s %s" % (fw.hexs(d.encode()), xc.hexlist([x.encode() for x in [".", "-mindepth", "1", flag, op, "-printf", "%f\\0"]]))
              for flag, op, _, _ in tests]
        impl = xc.run_impl(il)
        ml = []
        for flag, op, kind, fn in tests:
            for n in names:
                ml.append("num %s %s %d" % (kind, fw.hexs(op.encode()), fn(st[n])))
        model = fw.run_lines(fw.FUVM, ml)
        bad = []
        k = 0
        for (flag, op, kind, fn), i in zip(tests, impl):
            code, out, err = wc.decode_find(i)
            got = set(out.split(b"\0")[:-1])
            res = model[k:k + len(names)]
            k += len(names)
            rejected = res[0] == "reject"
            exp = set() if rejected else {n.encode() for n, r in zip(names, res) if r == "1"}
            for n, r in zip(names, res):
                ctx.count((flag, op, n), not rejected, [flag, "accepted=%d" % (not rejected)])
            ok = (got == exp) and ((code != 0) == rejected) and (code in (0, 1))
            if not ok:
                bad.append((flag, op, code, got, rejected, exp))
        for t in tests[:3]:
            ctx.sample({"test": t[0], "operand": t[1], "files": names[:6]})
        for flag, op, code, got, rejected, exp in bad[:3]:
            diff = sorted(got ^ exp)[:6]
            ctx.violation("find . %s %r: exit %s, matched %d files; model %s, %d files; differing: %s"
                          % (flag, op, code, len(got), "rejects" if rejected else "accepts", len(exp), diff),
                          {"property": "C14", "kind": "correspondence", "test": flag, "operand": op, "exit": code,
                           "implementation_matched": sorted(x.decode() for x in got), "model_rejects": rejected,
                           "model_and_spec_matched": sorted(x.decode() for x in exp),
                           "files": "sparse files named s<size>, l<nlink>_<i>, o<k> (see props/c14.py build())",
                           "explain": "C14 theorems fix the model's verdict (operand reading, trichotomy, ceil rounding, unit table); the implementation differs",
                           "total_disagreements": len(bad)})
    finally:
        import shutil
        shutil.rmtree(d, ignore_errors=True)
    unreadable_status(ctx)


def unreadable_status(ctx):
    """"for every file exactly one of N, +N, -N is true" needs the file's status: where it cannot be read (an entry of a directory that may be
    listed but not searched, as an unprivileged user) none is true - and that must not pass silently: a diagnostic and exit status 1"""
    import subprocess
    from props import known_common as kc
    os.makedirs(os.path.join(fw.BUILD, "tmp"), exist_ok=True)
    d = tempfile.mkdtemp(prefix="c14u-", dir=os.path.join(fw.BUILD, "tmp"))
    try:
        os.makedirs(os.path.join(d, "p", "d"))
        open(os.path.join(d, "p", "d", "f1"), "wb").close()
        os.chmod(d, 0o755)
        pre = kc.unprivileged(d.encode())
        if pre is None:
            ctx.notes.append("unreadable_status: no unprivileged user available here, scenario skipped")
            return
        os.chmod(os.path.join(d, "p", "d"), 0o744)
        for test in (["-links", "1"], ["-inum", "+0"], ["-uid", "0"], ["-gid", "-5"], ["-size", "0"], ["-size", "1k"], ["-size", "0c"], ["-mtime", "+0"], ["-mmin", "-5"]):
            p = subprocess.run(pre + [fw.FIND, "p", "(", test[0], test[1].lstrip("+-"), "-o", test[0], "+" + test[1].lstrip("+-"), "-o", test[0], "-" + test[1].lstrip("+-"), ")"],
                               stdout=subprocess.PIPE, stderr=subprocess.PIPE, cwd=d, env=xc.ENV, timeout=60)
            ctx.count(("unreadable-status", test[0], test[1]), True, "unreadable-status")
            listed = b"p/d/f1" in p.stdout
            # a value that cannot be measured is not 0 (nor anything else): none of the three forms is true for the entry, and that is diagnosed
            if listed or p.returncode != 1 or b"p/d/f1" not in p.stderr:
                ctx.violation("find p ( %s N -o %s +N -o %s -N ) as an unprivileged user, p/d listable but not searchable: p/d/f1 %s, "
                              "exit %d, diagnostics %r" % (test[0], test[0], test[0], "is reported although its status cannot be read" if listed else "matches none of the three",
                                                           p.returncode, p.stderr[:100]),
                              {"property": "C14", "kind": "unreadable-status", "test": test[0], "exit": p.returncode, "stdout": p.stdout.decode("utf-8", "replace"),
                               "stderr": p.stderr.decode("utf-8", "replace")[:300],
                               "explain": "trichotomy holds for every file whose value can be measured; a file whose status cannot be read is diagnosed, exit 1"})
    finally:
        import shutil
        os.chmod(os.path.join(d, "p", "d"), 0o755)
        shutil.rmtree(d, ignore_errors=True)


def replay(ctx, rep):
    run(ctx)
