"""C16 - find -printf renders escapes, directives, width and justification faithfully.

(O1) coq/Props/C16.v.  (O2) find_main in-process: random format strings of the documented language (verbatim
text incl. multi-byte characters, escapes, \\NNN, %%, directives with optional '-' and width) on entries
of every type, at depth 0 and below, under -P/-H/-L, with the starting point spelled in several ways,
against (a) the extracted Printf model fed with the reference values and (b) the reference rendering
itself; the path-valued directives against PrintfValue/PathModel."""
import os
import re
import stat

from lib import framework as fw
from props import walk_common as wc
from props import xargs_common as xc
from props import known_common as kc
from props import c13

RULE = ("(format string, entry, follow mode, spelling of the starting point) cases; formats of 1-8 items drawn from verbatim characters, the nine escapes, "
        "octal escapes \\000-\\777 (one byte each), %%, and the directives p f h H P d s n i U G m y Y l with optional '-' flag and width 0-12; "
        "non-trivial = distinct case whose format has at least one directive")
ASSUMPTIONS = [
    "numeric directives print the decimal (octal for %m) rendering of the record C13 selects; os.lstat/os.stat supply the records",
    "time, user-name, group-name, %b %k %S %F %D %M directives are not exercised (outside the property)",
    "\\NNN above \\177 and '\\0' directly followed by a digit are outside the documented language used here",
]
ESC = {"a": 7, "b": 8, "f": 12, "n": 10, "r": 13, "t": 9, "v": 11, "0": 0}
DIRS = "pfhHPdsniUGmyYl"
LETTER = c13.LETTER


def gen_format(rng):
    items = []
    for _ in range(rng.randint(1, 8)):
        r = rng.random()
        if r < 0.35:
            items.append(("c", rng.choice(["a", "Z", " ", "|", ":", "%", "\\", "é", "日", "-", "5", "\n", "{", "["])))
        elif r < 0.45:
            items.append(("e", rng.choice(list(ESC))))
        elif r < 0.5:
            v = rng.choice([rng.randrange(0, 128), rng.randrange(128, 256), rng.randrange(256, 512)])
            items.append(("o", "%03o" % v))
        elif r < 0.53:
            items.append(("F",))
        else:
            w = rng.choice(["", "", "", "0", "1", "3", "7", "12"])
            # a precision now and then (outside the property's quantifier, inside the format language: at most that many
            # characters - for the numbers %d and %m at least that many digits)
            pr = rng.choice(["", ".0", ".1", ".3", ".6", ".", ".12"]) if rng.random() < 0.15 else ""
            items.append(("d", rng.choice(DIRS), w, rng.random() < 0.4, pr))
    return items


def show(items):
    out = ""
    for it in items:
        if it[0] == "c":
            out += {"%": "%%", "\\": "\\\\"}.get(it[1], it[1])
        elif it[0] == "e":
            out += "\\" + it[1]
        elif it[0] == "o":
            out += "\\" + it[1]
        elif it[0] == "F":
            out += "\\c"
        else:
            out += "%" + ("-" if it[3] else "") + it[2] + (it[4] if len(it) > 4 else "") + it[1]
    return out


def render_ref(items, values):
    """the bytes written: characters in UTF-8, an octal escape as the one byte with that value (the low eight bits of three digits)"""
    out = b""
    for it in items:
        if it[0] == "c":
            out += it[1].encode()
        elif it[0] == "e":
            out += bytes([ESC[it[1]]])
        elif it[0] == "o":
            out += bytes([int(it[1], 8) & 0xff])
        elif it[0] == "F":
            break                 # \c: nothing more is printed for this file
        else:
            v = values[it[1]]
            if len(it) > 4 and it[4]:
                p = int(it[4][1:] or "0")
                if it[1] in ("d", "m"):
                    v = "" if (p == 0 and v == "0") else v.rjust(p, "0")
                else:
                    v = v[:p]
            if it[2] != "":
                w = int(it[2])
                v = v.ljust(w) if it[3] else v.rjust(w)
            out += v.encode()
    return out


RAW_BASE = 0x110000          # Printf.raw_base: how the model writes a byte that is no character


def model_bytes(codes):
    return b"".join(bytes([c - RAW_BASE]) if c >= RAW_BASE else chr(c).encode() for c in codes)


def values_for(root, names, mode, r_abs):
    """reference values of the directives for the entry root/names..."""
    path = root + ("" if (not names or root.endswith("/")) else "/") + "/".join(names)
    depth = len(names)
    full = os.path.join(r_abs, path) if not path.startswith("/") else path
    lst, sres = c13.view(full)
    rec = c13.spec_record(mode, depth, lst, sres)
    follow = mode == "L" or (mode == "H" and depth == 0)
    v = {"p": path, "d": str(depth), "H": root, "P": "/".join(names)}
    # %f / %h: the path as spelled, cut at its last component (trailing slashes ignored; "." and ".." are components)
    t = path.rstrip("/")
    if not t:
        v["f"], v["h"] = "/", ""
    elif "/" in t:
        k = t.rindex("/")
        v["f"], v["h"] = t[k + 1:], t[:k]
    else:
        v["f"], v["h"] = t, "."
    if rec is None:
        return None
    v["s"], v["n"], v["i"], v["U"], v["G"] = str(rec.st_size), str(rec.st_nlink), str(rec.st_ino), str(rec.st_uid), str(rec.st_gid)
    v["m"] = "%o" % (rec.st_mode & 0o7777)        # the number in octal: mode 0 is "0" (the reference once padded to three digits, as the code did)
    v["y"] = LETTER[stat.S_IFMT(rec.st_mode)]
    if stat.S_ISLNK(lst.st_mode):
        # %Y agrees with -xtype: where the follow mode already resolves the link (it is not a link for -type any more), -xtype
        # examines the link itself
        if follow and sres[0] == "ok":
            v["Y"] = "l"
        else:
            v["Y"] = LETTER[stat.S_IFMT(sres[1].st_mode)] if sres[0] == "ok" else ("N" if sres[0] == "nf" else "L")
        # %l like -lname: the link text only where the record the follow mode selects is the link's own
        v["l"] = os.readlink(full) if stat.S_ISLNK(rec.st_mode) else ""
    else:
        v["Y"] = v["y"]
        v["l"] = ""
    return v


def cps(s):
    return ".".join(str(ord(c)) for c in s) if s else "-"


def run(ctx):
    rng = ctx.rng
    forest = wc.Forest("c16-")
    try:
        names = c13.build(forest.dir.decode(), rng)
        r_abs = forest.dir.decode()
        spellings = ["r", "./r", "r/", "r//", "r/.", r_abs + "/r", ".//r", "r/./", "r/dir/..", r_abs + "//r/."]
        entries = [[]] + [[n] for n in names] + [["dir", "inside"]]
        cases = []
        n = 8000 if ctx.thorough else 700
        for _ in range(n):
            mode = rng.choice("PHL")
            root = rng.choice(spellings)
            ent = rng.choice(entries)
            # a loop link cannot be a followed entry
            items = gen_format(rng)
            # the escape "\0" directly before a digit would read as (the start of) an octal escape
            while any(a == ("e", "0") and show([b])[:1] in tuple("01234567") for a, b in zip(items, items[1:])):
                items = gen_format(rng)
            cases.append((mode, root, ent, items))
        il, ml, refs, keep, allvals, ofiles = [], [], [], [], [], []
        for mode, root, ent, items in cases:
            vals = values_for(root, ent, mode, r_abs)
            if vals is None:
                continue
            allvals.append(vals)
            fmt = show(items)
            path = vals["p"]
            # -fprintf FILE writes the same bytes to FILE (one case in twelve)
            ofile = "fp%d.out" % len(il) if rng.random() < 0.08 else None
            args = ["-" + mode, root] + (["-mindepth", str(len(ent)), "-maxdepth", str(len(ent))]) + (["-path", path] if ent else []) + \
                   (["-fprintf", ofile, fmt] if ofile else ["-printf", fmt])
            il.append("find - %s %s" % (fw.hexs(forest.dir), xc.hexlist([a.encode() for a in args])))
            ofiles.append(ofile)
            used = sorted({it[1] for it in items if it[0] == "d"})
            ml.append("printf - %s %s" % (cps(fmt), ";".join("%d:%s" % (ord(d), cps(vals[d])) for d in used) if used else "~"))
            refs.append(render_ref(items, vals))
            keep.append((mode, root, ent, items, fmt))
        impl = xc.run_impl(il)
        model = fw.run_lines(fw.FUVM, ml)
        bad = []
        # the numeric values of the reference are the digits C16_numbers speaks of (PrintfValue.render_num, extracted)
        nums = sorted({(8 if d == "m" else 10, int(v[d])) if d != "m" else (8, int(v[d], 8)) for v in allvals for d in "snidUGm" if d in v})
        rendered = fw.run_lines(fw.FUVM, ["pv num %d %d" % bn for bn in nums])
        for (b, nval), text in zip(nums, rendered):
            ctx.count(("render-num", b, nval), nval > 7, "numeric-rendering")
            if text != (("%o" if b == 8 else "%d") % nval):
                ctx.violation("render_num %d %d: model %r, reference %r" % (b, nval, text, ("%o" if b == 8 else "%d") % nval),
                              {"property": "C16", "kind": "numeric-rendering", "base": b, "value": nval, "model": text})
        for (mode, root, ent, items, fmt), i, m, ref, ofile in zip(keep, impl, model, refs, ofiles):
            code, out, err = wc.decode_find(i)
            if ofile:
                if out != b"":
                    bad.append(("find -fprintf wrote to standard output", mode, root, ent, fmt, out, b"", err))
                    continue
                try:
                    out = open(os.path.join(forest.dir, ofile.encode()), "rb").read()
                except OSError:
                    out = b"<file not created>"
            mo = None if not m.startswith("ok") else (model_bytes(int(x) for x in m[3:].split(".")) if len(m) > 3 and m[3:] != "-" else b"")
            ctx.count((mode, root, tuple(ent), fmt), any(it[0] == "d" for it in items), ["mode=" + mode, "depth=%d" % len(ent), "action=%s" % ("fprintf" if ofile else "printf"),
                                                                                           "directives=%d" % sum(it[0] == "d" for it in items)])
            if mo != ref:
                bad.append(("model-vs-reference", mode, root, ent, fmt, mo, ref, err))
            elif out != ref or (code != 0 and not (mode == "L" and ent)):   # under -L the walk of r meets the looping link (C02's subject)
                bad.append(("find", mode, root, ent, fmt, out, ref, err))
        ctx.sample({"format": keep[0][4], "starting_point": keep[0][1], "entry": keep[0][2]})
        for kind, mode, root, ent, fmt, got, ref, err in bad[:3]:
            ctx.violation("%s: find -%s %s (entry %s) -printf %r: got %r, reference %r" % (kind, mode, root, "/".join(ent) or "(the starting point)", fmt, got, ref),
                          {"property": "C16", "kind": "correspondence", "what": kind, "mode": mode, "starting_point": root, "entry": ent, "format": fmt,
                           "output": got.decode("utf-8", "replace") if isinstance(got, bytes) else got, "reference": ref.decode("utf-8", "replace") if isinstance(ref, bytes) else ref,
                           "output_hex": fw.hexs(got) if isinstance(got, bytes) else None, "reference_hex": fw.hexs(ref) if isinstance(ref, bytes) else None,
                           "stderr": err.decode("utf-8", "replace")[:200],
                           "explain": "C16_render / C16_width fix the output for a documented format given the directive values", "total_disagreements": len(bad)})
        path_values(ctx, forest, names, r_abs, spellings)
        known(ctx, forest)
        unreadable_directive(ctx, forest)
    finally:
        forest.close()


def path_values(ctx, forest, names, r_abs, spellings):
    """%f %h %H %P from the PrintfValue model against the implementation, for every spelling (the model must agree everywhere,
    known finding included: it is a transcription)"""
    il, ml, keys = [], [], []
    for root in spellings + ["."]:
        # every kind of entry the walk produces in its own way: directories, files, links the follow mode resolves, a dangling link (under -L
        # walkdir reports it as an error that find turns back into an entry) and a link to a directory (entered under -L)
        for ent in ([], ["dir"], ["dir", "inside"], ["lnowhere"], ["ldir"], ["lm00"], ["ldir", "inside"]):
            for mode in ("-P", "-H", "-L"):
                if root == "." and ent:
                    continue
                if ent == ["ldir", "inside"] and mode != "-L":
                    continue
                path = root + ("" if (not ent or root.endswith("/")) else "/") + "/".join(ent)
                args = [mode, root, "-mindepth", str(len(ent)), "-maxdepth", str(len(ent))] + (["-path", path] if ent else []) + ["-printf", "%f\\0%h\\0%H\\0%P\\0"]
                il.append("find - %s %s" % (fw.hexs(forest.dir), xc.hexlist([a.encode() for a in args])))
                ml.append("pv %s %d" % (fw.hexs(path.encode()), len(root.encode())))
                keys.append((mode + " " + root, ent, path))
    impl = xc.run_impl(il)
    model = fw.run_lines(fw.FUVM, ml)
    for (root, ent, path), i, m in zip(keys, impl, model):
        code, out, err = wc.decode_find(i)
        got = out.split(b"\0")[:-1]
        exp = [b"" if x in ("none",) else fw.unhex(x) for x in m.split(" ")]
        ctx.count(("pv", root, tuple(ent)), True, "path-directives")
        if got != exp:
            ctx.violation("path directives for %r: implementation %r, PrintfValue model %r" % (path, got, exp),
                          {"property": "C16", "kind": "path-model", "path": path, "depth": len(ent), "implementation": [x.decode() for x in got],
                           "model": [x.decode() for x in exp]})


def unreadable_directive(ctx, forest):
    """a directive whose value cannot be read (the target of a link in a directory that may be listed but not searched: unprivileged user)
    prints as nothing; every other character of the format is still copied, the next record starts on its own line, exit status 1"""
    import subprocess
    base = os.path.join(forest.dir, b"ud")
    os.makedirs(os.path.join(base, b"dir"))
    open(os.path.join(base, b"dir", b"a"), "wb").close()
    os.symlink(b"a", os.path.join(base, b"dir", b"l"))
    pre = kc.unprivileged(base)
    if pre is None:
        ctx.notes.append("unreadable_directive: no unprivileged user available here, scenario skipped")
        return
    kc.chown_tree(os.path.join(base, b"dir"))
    os.chmod(os.path.join(base, b"dir"), 0o444)
    try:
        p = subprocess.run(list(pre) + [fw.FIND, "dir", "-sorted", "-printf", "[%p|%l|%f]\n"], stdout=subprocess.PIPE, stderr=subprocess.PIPE, cwd=base, env=xc.ENV, timeout=60)
    finally:
        os.chmod(os.path.join(base, b"dir"), 0o755)
    want = b"[dir||dir]\n[dir/a||a]\n[dir/l||l]\n"
    ctx.count(("unreadable-directive",), True, "unreadable-directive")
    if p.stdout != want or p.returncode != 1:
        ctx.violation("find dir -printf '[%%p|%%l|%%f]\\n' as an unprivileged user, dir readable but not searchable: printed %r, exit %d; expected %r, exit 1"
                      % (p.stdout, p.returncode, want),
                      {"property": "C16", "kind": "unreadable-directive", "output": p.stdout.decode("utf-8", "replace"), "exit": p.returncode,
                       "expected": want.decode(), "stderr": p.stderr.decode("utf-8", "replace")[:300]})


def known(ctx, forest):
    """the former known finding printf-H-trailing (repaired by 666b555), kept as a regression check"""
    for root, want in ((b"r/", b"r/"), (b"r//", b"r//"), (b"r/.", b"r/.")):
        line = "find - %s %s" % (fw.hexs(forest.dir), xc.hexlist([root, b"-path", root + (b"" if root.endswith(b"/") else b"/") + b"dir", b"-printf", b"%H"]))
        code, out, err = wc.decode_find(xc.run_impl([line])[0])
        ctx.count(("H-as-given", root), True, "H-as-given")
        if out != want:
            ctx.violation("find %s ... -printf %%H printed %r, the starting point as given is %r" % (root.decode(), out, want),
                          {"property": "C16", "kind": "H-as-given", "starting_point": root.decode(), "output": out.decode()})


def replay(ctx, rep):
    run(ctx)
