"""C17 - find -regex/-iregex match iff the whole path is in the pattern's language.

(O1) coq/Props/C17.v.  (O2) find_main in-process: random pattern ASTs (literals, '.', bracket expressions,
grouping, alternation, '*', '+', '?', intervals) printed in each supported syntax, on a tree whose paths
range over the same alphabet, against the verified derivative matcher run on the AST; -iregex with mixed
case; -regextype before, between and inside parentheses."""
import os

from lib import framework as fw
from props import walk_common as wc
from props import xargs_common as xc

RULE = ("(pattern AST, syntax, case flag, path) cases: ASTs to depth 4 over {a b c / .} with alternation in both orders, each printed for emacs, "
        "posix-basic (ed, sed), posix-extended and grep; non-trivial = distinct (pattern, syntax) pair containing alternation, a repetition or a bracket")
ASSUMPTIONS = [
    "Oniguruma on the anchored pattern (P)\\' (end of text) is a complete backtracking search (the model of the repaired code); its syntax tables per -regextype are exercised through the printers, not modelled",
    "the engine's limit on backtracking steps is raised to the largest value its API accepts (2^32 - 1); a search abandoned beyond that is answered 'no match' "
    "(exponential patterns on long paths) - a limitation of the backtracking engine that the model (complete search) does not have",
]
TYPES = ["emacs", "posix-basic", "posix-extended", "grep", "ed", "sed"]
TYPE_ID = {"emacs": 0, "grep": 1, "posix-basic": 2, "ed": 2, "sed": 2, "posix-extended": 3}


def gen_ast(rng, depth):
    r = rng.random()
    if depth == 0 or r < 0.3:
        k = rng.random()
        if k < 0.6:
            return ("c", rng.choice("abc/"))
        if k < 0.75:
            return ("d",)
        chars = sorted(set(rng.choice("abc") for _ in range(rng.randint(1, 2))))
        return ("k" if rng.random() < 0.7 else "K", chars)
    if r < 0.55:
        return ("C", gen_ast(rng, depth - 1), gen_ast(rng, depth - 1))
    if r < 0.75:
        return ("A", gen_ast(rng, depth - 1), gen_ast(rng, depth - 1))
    if r < 0.85:
        return ("S", gen_ast(rng, depth - 1))
    if r < 0.91:
        return ("P", gen_ast(rng, depth - 1))
    if r < 0.96:
        return ("O", gen_ast(rng, depth - 1))
    lo = rng.randint(0, 2)
    return ("I", lo, lo + rng.randint(0, 2), gen_ast(rng, depth - 1))


def lit_ast(txt):
    a = ("c", txt[0])
    for ch in txt[1:]:
        a = ("C", a, ("c", ch))
    return a


def enc(a):
    t = a[0]
    if t == "B":
        # a group holding a literal, something in between, then a reference to the group: the literal again
        return enc(("C", ("C", lit_ast(a[1]), a[2]), lit_ast(a[1])))
    if t == "c":
        return ["c%d" % ord(a[1])]
    if t == "d":
        return ["d"]
    if t in "kK":
        return [t + ".".join(str(ord(c)) for c in a[1])]
    if t in "CA":
        return [t] + enc(a[1]) + enc(a[2])
    if t in "SPO":
        return [t] + enc(a[1])
    return ["I%d.%d" % (a[1], a[2])] + enc(a[3])


def has(a, kinds):
    return a[0] in kinds or any(isinstance(x, tuple) and has(x, kinds) for x in a[1:])


def bracket_text(chars, neg, r):
    """a bracket expression for the set of characters, spelled with variety: members as they are, as collating symbols or as
    equivalence classes, and further members that no path of the tree holds ("[", ".", "=", "+": they change nothing for these
    paths, but the scanners have to get across them - a literal "[" before a symbol naming "." spells out as "[.")"""
    ms = [r.choice([c, c, "[.%s.]" % c, "[=%s=]" % c]) for c in chars]
    extra = r.choice([[], [], [], ["["], ["[", "[...]"], ["[.=.]"], ["+"], ["[", "[.+.]"], ["[", "[===]"]])
    body = extra + ms if r.random() < 0.6 else ms + extra
    return "[" + ("^" if neg else "") + "".join(body) + "]"


def show(a, ty, nl_alt=False, gnu_ops=False, spell=None):
    """concrete syntax; returns None when the syntax cannot express the AST.  nl_alt: write the alternations of a grep pattern as newlines;
    gnu_ops: write '+' and '?' of posix-basic (ed, sed) with GNU's \\+ and \\? instead of the intervals they stand for.
    Groups are numbered as they open (every pair of parentheses captures), for the back-references of the B nodes."""
    ext = ty == "posix-extended"
    lp, rp, bar = ("(", ")", "|") if ext else ("\\(", "\\)", "\\|")
    if nl_alt and ty == "grep":
        bar = "\n"
    basic = ty in ("posix-basic", "ed", "sed")
    opened = [0]

    def atom(x):
        if x[0] in ("c", "d", "k", "K", "X"):
            return go(x)
        opened[0] += 1
        s = go(x)
        if s is None:
            return None
        return lp + s + rp

    def go(x):
        t = x[0]
        if t == "X":
            return x[1]          # raw text (the malformed stream of C11)
        if t == "B":
            opened[0] += 1
            k = opened[0]
            mode = x[3] if len(x) > 3 else 0
            mid = None if mode else (atom(x[2]) if x[2][0] == "A" else go(x[2]))
            if (mid is None and not mode) or k > 9:
                return None
            if mode:
                # the group inside another one that holds nothing else: both hold the literal, either may be referred to
                opened[0] += 1
                k2 = k + 1 if mode == 1 else k
                if k2 > 9:
                    return None
                mid2 = atom(x[2]) if x[2][0] == "A" else go(x[2])
                return None if mid2 is None else lp + lp + x[1] + rp + rp + mid2 + "\\%d" % k2
            return lp + x[1] + rp + mid + "\\%d" % k
        if t == "c":
            return "\\." if x[1] == "." else x[1]
        if t == "d":
            return "."
        if t in "kK":
            if spell is not None:
                return bracket_text(x[1], t == "K", spell)
            return "[" + ("^" if t == "K" else "") + "".join(x[1]) + "]"
        if t == "C":
            l, r = (atom(x[1]) if x[1][0] == "A" else go(x[1])), (atom(x[2]) if x[2][0] == "A" else go(x[2]))
            return None if l is None or r is None else l + r
        if t == "A":
            # (posix-basic, ed and sed have \| too: GNU's definition of these syntaxes, enabled since c3caeae)
            l, r = go(x[1]), go(x[2])
            return None if l is None or r is None else l + bar + r
        if t == "S":
            s = atom(x[1])
            return None if s is None else s + "*"
        if t == "P":
            s = atom(x[1])
            if s is None:
                return None
            if basic and not gnu_ops:
                return s + "\\{1,\\}"
            return s + ("\\+" if ty == "grep" or basic else "+")
        if t == "O":
            s = atom(x[1])
            if s is None:
                return None
            if basic and not gnu_ops:
                return s + "\\{0,1\\}"
            return s + ("\\?" if ty == "grep" or basic else "?")
        s = atom(x[3])
        if s is None:
            return None
        if ty == "emacs":
            return None          # GNU's emacs syntax has no interval operator
        if gnu_ops and x[1] == 0:
            # GNU's spelling of a missing lower bound
            return s + (("{,%d}" if ext else "\\{,%d\\}") % x[2])
        return s + (("{%d,%d}" if ext else "\\{%d,%d\\}") % (x[1], x[2]))
    return go(a)


def run(ctx):
    rng = ctx.rng
    forest = wc.Forest("c17-")
    try:
        # a tree whose paths range over {a,b,c,A,B}: r/a, r/ab, r/a/b, ...
        root = os.path.join(forest.dir, b"r")
        os.mkdir(root)
        paths = [b"r"]
        names = [b"a", b"b", b"ab", b"ba", b"aa", b"abc", b"c", b"aab", b"abab", b"A", b"aB", b"bbb", b"cab", b"bc", b"bb", b"aac"]
        for n in names:
            os.mkdir(os.path.join(root, n))
            paths.append(b"r/" + n)
            for m in names[:6]:
                open(os.path.join(root, n, m), "wb").close()
                paths.append(b"r/" + n + b"/" + m)
        subj = ",".join(".".join(str(c) for c in p) for p in paths)
        cases = []
        n = 6000 if ctx.thorough else 500
        while len(cases) < n:
            body = gen_ast(rng, rng.choice([1, 2, 3, 4]))
            if rng.random() < 0.12:
                # no alternation at all, but a greedy optional piece followed by an optional group that overlaps it: the first match found
                # stops short (b?(bc)? on "bc", a*(ab)* on "aab") unless the engine is made to backtrack to the end of the path
                x, y = rng.choice("ab"), rng.choice("abc")
                first = rng.choice([("O", ("c", x)), ("S", ("c", x)), ("I", 0, 2, ("c", x))])
                second = rng.choice([("O", ("C", ("c", x), ("c", y))), ("S", ("C", ("c", x), ("c", y))), ("I", 0, 2, ("C", ("c", x), ("c", y)))])
                body = ("C", first, second)
            if rng.random() < 0.15:
                # a back-reference to a group holding a literal is that literal again: the group first, anything in between, then
                # the reference - at the top level or inside further groups (where the reference stands in a group still open)
                lit = rng.choice(["a", "b", "ab", "ba", "c"])
                body = ("B", lit, gen_ast(rng, rng.choice([0, 1, 2])), rng.choice([0, 0, 1, 2]))
                wrap = rng.random()
                if wrap < 0.3:
                    body = ("S", body)
                elif wrap < 0.5:
                    body = ("A", body, gen_ast(rng, 1))
                elif wrap < 0.6:
                    body = ("C", ("O", gen_ast(rng, 1)), ("I", 1, 2, body))
            # patterns must match whole paths: give most of them a leading r/ or .*/
            lead = rng.choice(["r/", ".*/", ".*", ""])
            ast = body
            if lead == "r/":
                ast = ("C", ("C", ("c", "r"), ("c", "/")), body)
            elif lead == ".*/":
                ast = ("C", ("C", ("S", ("d",)), ("c", "/")), body)
            elif lead == ".*":
                ast = ("C", ("S", ("d",)), body)
            if rng.random() < 0.3:
                # a top-level, ungrouped alternation of two whole-path patterns (an earlier alternative may match a proper prefix of the path)
                other = gen_ast(rng, rng.choice([1, 2, 3]))
                lead_ast = {"r/": ("C", ("c", "r"), ("c", "/")), ".*/": ("C", ("S", ("d",)), ("c", "/")), ".*": ("S", ("d",))}.get(lead)
                alt2 = ("C", lead_ast, other) if lead_ast else other
                ast = ("A", ast, alt2) if rng.random() < 0.5 else ("A", alt2, ast)
            ty = rng.choice(TYPES)
            txt = show(ast, ty, nl_alt=rng.random() < 0.3, gnu_ops=rng.random() < 0.5, spell=rng if rng.random() < 0.4 else None)
            if txt is None:
                continue
            ci = rng.random() < 0.25
            cases.append((ast, ty, txt, ci))
        il, ml = [], []
        for ast, ty, txt, ci in cases:
            args = ["r", "-regextype", ty, "-iregex" if ci else "-regex", txt, "-print0"]
            il.append("find - %s %s" % (fw.hexs(forest.dir), xc.hexlist([a.encode() for a in args])))
            ml.append("regex %d %s %s" % (int(ci), ",".join(enc(ast)), subj))
        impl = xc.run_impl(il)
        model = fw.run_lines(fw.FUVM, ml)
        bad = []
        for (ast, ty, txt, ci), i, m in zip(cases, impl, model):
            code, out, err = wc.decode_find(i)
            got = set(out.split(b"\0")[:-1])
            exp = {p for p, b in zip(paths, m) if b == "1"}
            ctx.count((txt, ty, ci), has(ast, "ASPOIkKB"), ["type=" + ty, "icase=%d" % ci, "backref=%d" % has(ast, "B"), "matches=%s" % (len(exp) if len(exp) < 3 else "3+")])
            if code != 0 or got != exp:
                bad.append((ty, txt, ci, code, got, exp, err))
        ctx.sample({"regextype": cases[0][1], "pattern": cases[0][2], "paths": [p.decode() for p in paths[:8]]})
        for ty, txt, ci, code, got, exp, err in bad[:3]:
            ctx.violation("find r -regextype %s %s %r: exit %s; differs on %s (implementation matches %d paths, the language contains %d)"
                          % (ty, "-iregex" if ci else "-regex", txt, code, sorted(x.decode() for x in got ^ exp)[:6], len(got), len(exp)),
                          {"property": "C17", "kind": "correspondence", "regextype": ty, "pattern": txt, "ignore_case": ci, "exit": code,
                           "implementation": sorted(x.decode() for x in got), "language": sorted(x.decode() for x in exp),
                           "stderr": err.decode("utf-8", "replace")[:200],
                           "explain": "C17_oracle_decides_language: the expected set is exactly the paths in the language of the pattern",
                           "total_disagreements": len(bad)})
        scoping(ctx, forest, paths)
        known(ctx, forest)
        collating_specials(ctx, forest)
        collating_members(ctx, forest)
        wrapper(ctx)
    finally:
        forest.close()


def scoping(ctx, forest, paths):
    """-regextype is positional: nearest preceding one, also across parentheses"""
    ext, emx = "r/(a|ab)", "r/\\(a\\|ab\\)"
    exp = {b"r/a", b"r/ab"}
    forms = [
        (["(", "-regextype", "posix-extended", "-regex", ext, ")"], exp),
        (["(", "-regextype", "posix-extended", ")", "-regex", ext], exp),
        (["-regextype", "posix-extended", "(", "-regex", ext, ")"], exp),
        (["(", "-regex", emx, "-o", "-regextype", "posix-extended", "-false", ")"], exp),
        (["-regextype", "posix-extended", "-regextype", "emacs", "-regex", emx], exp),
        (["(", "-regextype", "emacs", "-false", ")", "-o", "(", "-regextype", "posix-extended", "-regex", ext, ")"], exp),
        (["-regextype", "posix-extended", "-regex", emx], set()),       # emacs spelling read as extended: literal parentheses
        (["-regex", ext], set()),                                        # default emacs: ( and | are literals
    ]
    for args, want in forms:
        line = "find - %s %s" % (fw.hexs(forest.dir), xc.hexlist([a.encode() for a in ["r"] + args + ["-print0"]]))
        code, out, err = wc.decode_find(xc.run_impl([line])[0])
        got = set(out.split(b"\0")[:-1])
        ctx.count(("scoping", tuple(args)), True, "regextype-scoping")
        if got != want or code != 0:
            ctx.violation("find r %s: matched %s, expected %s" % (" ".join(args), sorted(got), sorted(want)),
                          {"property": "C17", "kind": "regextype-scoping", "find_args": args, "implementation": sorted(x.decode() for x in got),
                           "expected": sorted(x.decode() for x in want)})


def known(ctx, forest):
    """paths containing a newline: an end anchor that also accepts the position before a final newline ('$') lets the first
    alternative succeed on a proper prefix; the repaired code anchors with the end-of-text operator instead.  Only literal
    newlines are used ('.' and negated brackets on a newline differ between the syntaxes and the property leaves them open)."""
    d = os.path.join(forest.dir, b"nl")
    os.mkdir(d)
    for n in (b"a\n", b"a", b"a\nb", b"\n"):
        open(os.path.join(d, n), "wb").close()
    cases = [("posix-extended", b".*/a", [b"nl/a"]), ("posix-extended", b"nl/a\n", [b"nl/a\n"]),
             ("posix-extended", b"nl/(a|a\n)", [b"nl/a", b"nl/a\n"]), ("posix-extended", b"nl/(a\n|a)", [b"nl/a", b"nl/a\n"]),
             ("posix-extended", b"nl/(a|a\n)b?", [b"nl/a", b"nl/a\n", b"nl/a\nb"]),
             ("emacs", b"nl/\\(a\\|a\n\\)", [b"nl/a", b"nl/a\n"]), ("grep", b"nl/\\(a\\|a[\n]\\)", [b"nl/a", b"nl/a\n"]), ("grep", b"nl/\\(a\\|a\n\\)", [b"nl/a"]),
             ("emacs", b"nl/\\(\n\\|a\\|a\nb\\|a\n\\)", [b"nl/\n", b"nl/a", b"nl/a\n", b"nl/a\nb"]),
             ("posix-basic", b"nl/a\n\\{0,1\\}", [b"nl/a", b"nl/a\n"]), ("posix-extended", b"nl/a\n?", [b"nl/a", b"nl/a\n"])]
    # a ")" without a "(" before it is an ordinary character in posix-extended (also inside the group the pattern is wrapped in);
    # nested repetition used to end in a panic when the engine's default limit on backtracking steps was reached
    for n in (b"a)", b"b)", b"a)b", b"a))", b"aaaaaaaaaaaaaaaaaaaaaaaa"):
        open(os.path.join(d, n), "wb").close()
    cases += [("posix-extended", b"nl/a)", [b"nl/a)"]), ("posix-extended", b"nl/a)|nl/b[)]", [b"nl/a)", b"nl/b)"]),
              ("posix-extended", b"nl/a)b", [b"nl/a)b"]), ("posix-extended", b"nl/a)*", [b"nl/a", b"nl/a)", b"nl/a))"]),
              ("posix-extended", b"nl/(a|b))", [b"nl/a)", b"nl/b)"]),
              ("posix-extended", b"nl/((a+)+b|a+)", [b"nl/a", b"nl/aaaaaaaaaaaaaaaaaaaaaaaa"]),
              ("emacs", b"nl/\\(\\(a+\\)+b\\|a+\\)", [b"nl/a", b"nl/aaaaaaaaaaaaaaaaaaaaaaaa"]),
              ("posix-basic", b"nl/a\\|nl/a)", [b"nl/a", b"nl/a)"]), ("sed", b"nl/\\(a)\\|a\\)b*", [b"nl/a", b"nl/a)", b"nl/a)b"])]
    # (re-audit) grouping inside the wrapped pattern: a back-reference names the group it says; [:punct:] and [:digit:] in a bracket
    # expression are the POSIX classes; a newline is a character like any other for grep's '.' and negated brackets; a backslash before a
    # letter is that letter; emacs has no interval operator
    d2 = os.path.join(forest.dir, b"gr")
    os.mkdir(d2)
    for n in (b"aa", b"abb", b"aba", b"aa0", b"a)", b"x$", b"x+", b"x~", b"x.", b"x3", b"x\xd9\xa3", b"xt", b"x\t", b"x{2}", b"xx", b"a\nb-", b"x:]", b"x3]",
              b"{2}", b"{2}x", b"{2,1}", b"xa]a", b":a]a"):
        open(os.path.join(d2, n), "wb").close()
    cases2 = [("emacs", b"gr/\\(a\\)\\1", [b"gr/aa"]), ("posix-extended", b"gr/(a)(b)\\2", [b"gr/abb"]), ("posix-basic", b"gr/\\(a\\)\\(b\\)\\2", [b"gr/abb"]),
              ("grep", b"gr/\\(a\\)\\1", [b"gr/aa"]), ("posix-extended", b"gr/(a)\\10", [b"gr/aa0"]), ("posix-extended", b"gr/a)|gr/(a)b\\1", [b"gr/a)", b"gr/aba"]),
              ("posix-extended", b"gr/x[[:punct:]]", [b"gr/x$", b"gr/x+", b"gr/x~", b"gr/x."]), ("posix-basic", b"gr/x[^[:punct:][:alpha:]0-9]", [b"gr/x\t", b"gr/x\xd9\xa3"]),
              ("grep", b"gr/x[[:digit:]]", [b"gr/x3"]), ("posix-extended", b"gr/x[^[:digit:][:punct:]a-z\t]", [b"gr/x\xd9\xa3"]),
              ("grep", b"gr/a[^a]b-", [b"gr/a\nb-"]), ("grep", b"gr/a.b-", [b"gr/a\nb-"]), ("posix-basic", b"gr/a.b-", [b"gr/a\nb-"]), ("emacs", b"gr/a.b-", []),
              ("emacs", b"gr/x\\t", [b"gr/xt"]), ("posix-extended", b"gr/x\\t", [b"gr/xt"]), ("grep", b"gr/x\\t", [b"gr/xt"]),
              # GNU's emacs syntax has no character classes: "[[:digit:]" is a bracket expression ("[", ":", "d", ...), then a "]"
              ("emacs", b"gr/x[[:digit:]]", [b"gr/x:]"]), ("emacs", b"gr/x[[:punct:]", [b"gr/xt"]), ("emacs", b"gr/x[^[:digit:]]*", [b"gr/x\t", b"gr/x$", b"gr/x+", b"gr/x.", b"gr/x3", b"gr/x3]", b"gr/xx", b"gr/x~", b"gr/x\xd9\xa3"]),
              ("posix-basic", b"gr/x[[:digit:]]]", [b"gr/x3]"]),
              # a newline in a grep pattern separates alternatives (outside brackets); elsewhere it is a newline
              ("grep", b"gr/aa\ngr/abb", [b"gr/aa", b"gr/abb"]), ("grep", b"gr/a[\n]b-", [b"gr/a\nb-"]), ("posix-basic", b"gr/aa\ngr/abb", []),
              ("grep", b"gr/\\(aa\nabb\\)", [b"gr/aa", b"gr/abb"]),
              ("emacs", b"gr/x\\{2\\}", [b"gr/x{2}"]), ("posix-basic", b"gr/x\\{2\\}", [b"gr/xx"]), ("posix-extended", b"gr/x{2}", [b"gr/xx"]),
              # (seventh wave) GNU's grep syntax: "\{" with nothing to repeat is a brace; its posix-basic (ed, sed) has "\+" and "\?";
              # "[.x.]" and "[=x=]" in a bracket expression are the character they name; emacs has no classes, also for where a group stands
              ("grep", b"gr/\\(\\{2\\}\\)x\\{0,1\\}", [b"gr/{2}", b"gr/{2}x"]), ("grep", b"gr/aa\\|\\{2\\}", [b"gr/aa"]), ("grep", b"gr/\\(^\\{2\\}\\)", []),
              ("grep", b"gr/x\\{2\\}", [b"gr/xx"]), ("grep", b"gr/\\(\\{2,1\\}\\)", [b"gr/{2,1}"]),
              ("posix-extended", b"gr/a{,2}b{,1}a?0{,}", [b"gr/aa", b"gr/aba", b"gr/aa0"]), ("grep", b"gr/a\\{,2\\}b\\{,\\}", [b"gr/aa", b"gr/abb"]), ("sed", b"gr/x\\{,2\\}", [b"gr/xx"]),
              ("posix-extended", b"gr/x[{,]2}", [b"gr/x{2}"]), ("emacs", b"gr/a\\{,2\\}", []),
              ("posix-basic", b"gr/a\\+", [b"gr/aa"]), ("sed", b"gr/ab\\?b\\+", [b"gr/abb"]), ("ed", b"gr/a\\+b*a\\?0\\?", [b"gr/aa", b"gr/aba", b"gr/aa0", b"gr/abb"]),
              ("posix-basic", b"gr/\\(\\+\\|x\\)\\+", [b"gr/xx", b"gr/x+"]), ("posix-basic", b"gr/x[+]\\|gr/x\\\\+", [b"gr/x+"]),
              ("posix-extended", b"gr/[[=a=]]+", [b"gr/aa"]), ("emacs", b"gr/x[[.$.]~]", [b"gr/x$", b"gr/x~"]), ("grep", b"gr/x[^[=3=][.t.]x]", [b"gr/x$", b"gr/x+", b"gr/x~", b"gr/x.", b"gr/x\xd9\xa3", b"gr/x\t"]),
              ("posix-basic", b"gr/x[[.+.]-3]", [b"gr/x+", b"gr/x.", b"gr/x3"]),
              ("emacs", b"gr/[[:x:]\\(a\\)]\\1", [b"gr/xa]a", b"gr/:a]a"]), ("emacs", b"gr/\\(\\(a\\)\\2\\)", [b"gr/aa"]), ("posix-extended", b"gr/((a)\\2|x)+", [b"gr/aa", b"gr/xx"])]
    for root, ty, pat, want in [(b"nl",) + c for c in cases] + [(b"gr",) + c for c in cases2]:
        for flag in (b"-regex", b"-iregex"):
            line = "find - %s %s" % (fw.hexs(forest.dir), xc.hexlist([root, b"-regextype", ty.encode(), flag, pat, b"-print0"]))
            code, out, err = wc.decode_find(xc.run_impl([line])[0])
            got = sorted(out.split(b"\0")[:-1])
            ctx.count(("newline", ty, pat, flag), True, "newline-in-path")
            if got != sorted(want) or code != 0:
                ctx.violation("find %s -regextype %s %s %r matched %r, the language contains %r" % (root.decode(), ty, flag.decode(), pat, got, sorted(want)),
                              {"property": "C17", "kind": "newline-in-path", "regextype": ty, "pattern": pat.decode(), "matched": [fw.hexs(x) for x in got],
                               "language": [fw.hexs(x) for x in sorted(want)],
                               "explain": "regardless of the order in which alternatives are written: the whole path, final newline included, must be consumed"})


def collating_specials(ctx, forest):
    """recorded finding: a collating symbol or equivalence class that names a character with a meaning of its own in a bracket
    expression (] ^ - [ \\ :) is handed to the engine as written, and the engine, which has no such construct, ends the bracket
    expression at the "]" of its ".]" - the pattern is accepted and matches something else"""
    from props import known_common as kc
    d = os.path.join(forest.dir, b"cs")
    os.mkdir(d)
    for n in (b"-", b"x", b"]", b"y", b".x]", b"[x]"):
        open(os.path.join(d, n), "wb").close()
    line = "find - %s %s" % (fw.hexs(forest.dir), xc.hexlist([b"cs", b"-regextype", b"posix-extended", b"-regex", b"cs/[[.-.]x]", b"-print0"]))
    code, out, err = wc.decode_find(xc.run_impl([line])[0])
    got = sorted(out.split(b"\0")[:-1])
    ctx.count(("collating-specials",), True, "collating-specials")
    kc._judge(ctx, "C17", "collating-specials", "find cs -regextype posix-extended -regex 'cs/[[.-.]x]' matches %s, not cs/- and cs/x (a collating symbol naming '-': the engine ends the bracket expression at its '.]')"
              % [g.decode() for g in got], code == 0 and got == [b"cs/-", b"cs/x"], code == 0 and got == [b"cs/.x]", b"cs/[x]"],
              "exit %s, matched %r" % (code, got))


def collating_members(ctx, forest):
    """bracket expressions whose reading by the engine, were the collating symbols not spelled first, would be malformed or another:
    a range ending in a symbol, a symbol followed by members that are operators outside brackets (eighth wave; every expected
    set is the POSIX reading of the bracket expression)"""
    d = os.path.join(forest.dir, b"cm")
    os.mkdir(d)
    for n in (b"a", b"b", b"x", b"z", b"{", b"[", b"(", b"A", b"Z"):
        open(os.path.join(d, n), "wb").close()
    rows = [("posix-extended", b"-regex", b"cm/[a-[.z.]]", [b"a", b"b", b"x", b"z"]), ("posix-basic", b"-regex", b"cm/[a-[.z.]]", [b"a", b"b", b"x", b"z"]),
            ("grep", b"-iregex", b"cm/[A-[.Z.]]*[x-[.z.]]", [b"x", b"z", b"Z"]), ("sed", b"-regex", b"cm/[^a-[.z.]]", [b"(", b"[", b"{", b"A", b"Z"]),
            ("ed", b"-regex", b"cm/[{-[.}.]]", [b"{"]), ("posix-extended", b"-regex", b"cm/[[.a.]({]", [b"(", b"a", b"{"]),
            ("posix-extended", b"-regex", b"cm/[[=a=]{]", [b"a", b"{"]), ("posix-extended", b"-regex", b"cm/[[.a.]|*]", [b"a"]),
            ("posix-basic", b"-regex", b"cm/[[.a.]\\(]", [b"(", b"a"]), ("posix-basic", b"-regex", b"cm/[[.a.]\\1]", [b"a"]),
            ("emacs", b"-regex", b"cm/[[.a.]\\(]", [b"(", b"a"]), ("emacs", b"-regex", b"cm/[[=a=][]", [b"[", b"a"]),
            ("emacs", b"-regex", b"cm/[a-[.z.]]", [b"a", b"b", b"x", b"z"]), ("posix-extended", b"-regex", b"cm/[[.a.]-[.z.]]", [b"a", b"b", b"x", b"z"])]
    # (ninth wave) a literal "[" member before a symbol naming "." or "=": spelled, the bracket expression holds "[." - the operators
    # behind it are still operators
    for n in (b"[[", b"[.", b".[", b"[+", b".+", b"{1}", b".a", b"[a", b"=a"):
        open(os.path.join(d, n), "wb").close()
    rows += [("posix-basic", b"-regex", b"cm/[[[...]]\\+", [b"[", b"[[", b"[.", b".["]), ("sed", b"-regex", b"cm/[[[.=.]]\\?a", [b"a", b"[a", b"=a"]),
             ("grep", b"-regex", b"cm/\\([[[...]]\\|\\{1\\}\\)", [b"[", b"{1}"]), ("ed", b"-regex", b"cm/[[[...]]\\(a\\)\\+", [b".a", b"[a"]),
             ("posix-extended", b"-regex", b"cm/[+--[=b=]]", [b"b"]), ("emacs", b"-regex", b"cm/[!--[=b=]x]", [b"(", b"b", b"x"])]
    for ty, flag, pat, want in rows:
        line = "find - %s %s" % (fw.hexs(forest.dir), xc.hexlist([b"cm", b"-mindepth", b"1", b"-regextype", ty.encode(), flag, pat, b"-print0"]))
        code, out, err = wc.decode_find(xc.run_impl([line])[0])
        got = sorted(out.split(b"\0")[:-1])
        exp = sorted(b"cm/" + w for w in want)
        ctx.count(("collating-members", ty, pat, flag), True, "collating-members")
        if code != 0 or got != exp:
            ctx.violation("find cm -regextype %s %s %r: exit %s, matched %r; the language contains %r (%s)" % (ty, flag.decode(), pat, code, got, exp, err[:80]),
                          {"property": "C17", "kind": "collating-members", "regextype": ty, "pattern": pat.decode(), "exit": str(code),
                           "matched": [g.decode() for g in got], "language": [e.decode() for e in exp], "stderr": err.decode("utf-8", "replace")[:200]})


def wrapper(ctx):
    """the text handed to the engine: inside_group (hook) against the RegexWrap model, whose output is proved never to close the
    wrapping group (C17_wrapper_never_closed_early) - every pattern up to a length bound over the characters the scanner looks at,
    and longer random ones"""
    import itertools
    rng = ctx.rng
    alpha = ["\\", "[", "]", "(", ")", "^", ":", "1", "9", "0", "a", "\n"]
    pats = []
    for n in range(0, (5 if ctx.thorough else 4) + 1):
        for tup in itertools.product(alpha, repeat=n):
            pats.append("".join(tup))
    # the operators of the basic syntaxes (what is an operator depends on where it stands) and collating symbols: every pattern up to
    # length 3 over a second alphabet, and as pieces of the longer random ones
    alpha2 = ["\\", "{", "}", "+", "?", "(", "|", "^", "*", "[", "]", ".", "=", "a", "\n", ":", ","]
    for n in range(1, (4 if ctx.thorough else 3) + 1):
        for tup in itertools.product(alpha2, repeat=n):
            pats.append("".join(tup))
    pieces = alpha + ["[:punct:]", "[:digit:]", "[:alpha:]", "[[:punct:]]", "[^[:digit:]x]", "\\1", "\\9", "\\(", "\\)", "[)]", "[]", "[^]", "\u00e9", ".", "*", "{2}", "[:punct", "[:",
                      "\\{", "\\}", "\\{1,2\\}", "\\+", "\\?", "\\|", "\\\\", "[.a.]", "[=a=]", "[[.a.]-c]", "[[=a=]b]", "[.-.]", "[.:.]", "[=]=]", "[.ab.]", "[.", "[=", ".]", "+", "?", "{", "}"]
    for _ in range(20000 if ctx.thorough else 2000):
        pats.append("".join(rng.choice(pieces) for _ in range(rng.randint(1, 9))))
    # bracket expressions by their structure: every sequence of up to three members (characters with a meaning of their own there,
    # classes, collating symbols, equivalence classes), negated or not, followed by what the scanner must still read as outside
    members = ["a", "]", "-", ":", "^", "[", ".", "=", "[.a.]", "[=b=]", "[:alpha:]", "[:punct:]", "[.-.]", "[.:.]", "[:"]
    for n in range(1, 4):
        for tup in itertools.product(members, repeat=n):
            body = "".join(tup)
            for neg in ("", "^"):
                for tail in ("", "\\1", ")", "[.b.]", "(x)\\1"):
                    if n == 3 and tail not in ("", "\\1") and not ctx.thorough:
                        continue
                    pats.append("x[" + neg + body + "]" + tail)
    cases = [(p, e) for p in pats for e in ("emacs", "posix-basic", "posix-extended", "grep")]
    # the pieces the operator spelling of the basic syntaxes tells apart (anchors of both kinds among them), every sequence of up to four
    btoks = ["a", "*", "\\+", "\\?", "\\(", "\\)", "\\|", "^", "$", "\\{1\\}", "\\{", "\\}", "[a\\{]", "\n", "\\`", "\\'", "\\{,2\\}"]
    for n in range(1, (5 if ctx.thorough else 4) + 1):
        for tup in itertools.product(btoks, repeat=n):
            for e in ("grep", "posix-basic"):
                cases.append(("".join(tup), e))
    # posix-extended: the pieces around an interval without a lower bound (quoted and unquoted braces and backslashes, brackets)
    etoks = ["a", "\\\\", "\\{", "\\[", "{,2}", "{,", "{", "}", ",", "[{,]", "[", "]", "(", ")", "2"]
    for n in range(1, (5 if ctx.thorough else 4) + 1):
        for tup in itertools.product(etoks, repeat=n):
            cases.append(("".join(tup), "posix-extended"))
    il = ["rxwrap %s %s" % (e, fw.hexs(p.encode())) for p, e in cases]
    ml = ["rxwrap %s %s" % (e, ".".join(str(ord(c)) for c in p) if p else "-") for p, e in cases]
    impl = fw.run_lines(fw.FUV, il)
    model = fw.run_lines(fw.FUVM, ml)
    bad = []
    for (p, e), i, m in zip(cases, impl, model):
        mt = "" if m == "-" else "".join(chr(int(x)) for x in m.split("."))
        it = fw.unhex(i).decode("utf-8", "replace") if i not in ("panic", "badcase", "badutf8") else i
        ctx.count(("wrap", p, e), any(c in p for c in "\\[)"), ["wrapper", "regextype=%s" % e, "len=%s" % (len(p) if len(p) < 6 else "6+"), "rewritten=%d" % (it != p)])
        if it != mt:
            bad.append((p, e, it, mt))
    for p, e, it, mt in bad[:3]:
        ctx.violation("inside_group(%r, %s): implementation %r, RegexWrap model %r" % (p, e, it, mt),
                      {"property": "C17", "kind": "wrapper", "pattern": p, "regextype": e, "implementation": it, "model": mt,
                       "explain": "the model's text is proved never to close the group the pattern is wrapped in; back-references are shifted by one; "
                                  "[:punct:] and [:digit:] are spelled out, except in emacs, which has no classes; a newline in a grep pattern is an alternation", "total_disagreements": len(bad)})


def replay(ctx, rep):
    run(ctx)
