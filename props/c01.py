"""C01 - find expression semantics: precedence, short-circuit, default -print, -quit.

(O1) coq/Props/C01.v.  (O2) find_main in-process on small generated trees: sentences drawn from
the grammar (and near-sentences with a token inserted or deleted) over primaries whose truth the
harness can compute, against the extracted builder + evaluator + walk model (Find.find_main_model)."""
import os

from lib import framework as fw
from lib import fstree
from props import walk_common as wc
from props import xargs_common as xc
from props import known_common as kc

RULE = ("(token string, tree(s)) cases: grammar sentences to depth 5 over tests (-true -false -name -type -maxdepth), actions (-printf -print -print0 "
        "-fprint -exec true/false), -quit, -prune, with '!'/-not, -a/-and/juxtaposition, -o/-or, ',' and parentheses; 15% near-sentences; "
        "non-trivial = distinct accepted sentence with at least one binary operator and two primaries")
ASSUMPTIONS = [
    "the truth of each individual test on an entry is computed by the harness (names, types); the tests themselves are C12-C15's subject",
    "output of child processes is not interleaved (only -exec true/false, which print nothing)",
    "a primary with its operands is one token of the model; the argv-level layer (missing operands etc.) is C11's subject",
]


class Prim:
    def __init__(self, kind, argv, truth, out=None):
        self.kind, self.argv, self.truth, self.out = kind, argv, truth, out


def prim_pool(rng, names, thorough):
    pool = []
    pool.append(lambda pid: Prim("t", ["-true"], lambda e: True))
    pool.append(lambda pid: Prim("t", ["-false"], lambda e: False))
    for nm in names:
        pool.append(lambda pid, nm=nm: Prim("t", ["-name", nm.decode()], lambda e, nm=nm: e["name"] == nm))
    # operands that look like grammar symbols: they are operands, not brackets or operators
    for tok in ("(", ")", "!", "-o", ","):
        pool.append(lambda pid, tok=tok: Prim("t", ["-name", tok], lambda e, tok=tok: e["name"] == tok.encode()))
    pool.append(lambda pid: Prim("t", ["-type", "d"], lambda e: e["kind"] == "dir"))
    pool.append(lambda pid: Prim("t", ["-type", "f"], lambda e: e["kind"] == "file"))
    pool.append(lambda pid: Prim("t", ["-maxdepth", "50"], lambda e: True))
    # the options of the grammar are primaries that are always true: each is one operand of the operators around it ("! -nowarn" is false)
    for opt in (["-nowarn"], ["-warn"], ["-ignore_readdir_race"], ["-noignore_readdir_race"], ["-noleaf"], ["-mindepth", "0"], ["-follow"], ["-daystart"]):
        if opt != ["-follow"]:      # (-follow changes which record the tests see; kept out of sentences whose truth values were computed without it)
            pool.append(lambda pid, opt=opt: Prim("t", list(opt), lambda e: True))
    for _ in range(4):
        pool.append(lambda pid: Prim("a", ["-printf", "A%d:%%p\\n" % pid], lambda e: True, lambda p, pid=pid: b"A%d:" % pid + p + b"\n"))
    pool.append(lambda pid: Prim("a", ["-print"], lambda e: True, lambda p: p + b"\n"))
    pool.append(lambda pid: Prim("a", ["-print0"], lambda e: True, lambda p: p + b"\0"))
    pool.append(lambda pid: Prim("a", ["-fprint", "/dev/null"], lambda e: True, lambda p: b""))
    if thorough or rng.random() < 0.1:
        pool.append(lambda pid: Prim("a", ["-exec", "true", ";"], lambda e: True, lambda p: b""))
        pool.append(lambda pid: Prim("a", ["-exec", "false", ";"], lambda e: False, lambda p: b""))
    pool.append(lambda pid: Prim("q", ["-quit"], lambda e: True))
    pool.append(lambda pid: Prim("r", ["-prune"], lambda e: True))
    pool.append(lambda pid: Prim("r", ["-prune"], lambda e: True))
    return pool


class Gen:
    """parallel generation of model tokens and argv"""

    def __init__(self, rng, names, thorough):
        self.rng = rng
        self.pool = prim_pool(rng, names, thorough)
        self.prims = {}     # pid -> Prim
        self.next = 1
        self.action_bias = rng.choice([0.0, 0.2, 0.5])

    def prim(self):
        rng = self.rng
        pid = self.next
        self.next += 1
        mk = rng.choice(self.pool)
        p = mk(pid)
        if p.kind == "a" and rng.random() > self.action_bias + 0.3:
            p = rng.choice(self.pool[:6])(pid)
        self.prims[pid] = p
        return ["%s%d" % (p.kind, pid)], list(p.argv)

    def unit(self, d):
        rng = self.rng
        r = rng.random()
        if r < 0.2:
            t, a = self.unit(d)
            return ["n"] + t, [rng.choice(["!", "-not"])] + a
        if r < 0.42 and d > 0:
            t, a = self.seq(d - 1)
            return ["L"] + t + ["R"], ["("] + a + [")"]
        return self.prim()

    def conj(self, d):
        rng = self.rng
        t, a = self.unit(d)
        while rng.random() < 0.45:
            t2, a2 = self.unit(d)
            op = rng.choice(["", "", "-a", "-and"])
            t = t + (["A"] if op else []) + t2
            a = a + ([op] if op else []) + a2
        return t, a

    def disj(self, d):
        rng = self.rng
        t, a = self.conj(d)
        while rng.random() < 0.35:
            t2, a2 = self.conj(d)
            t = t + ["O"] + t2
            a = a + [rng.choice(["-o", "-or"])] + a2
        return t, a

    def seq(self, d):
        rng = self.rng
        t, a = self.disj(d)
        while rng.random() < 0.22:
            t2, a2 = self.disj(d)
            t = t + ["C"] + t2
            a = a + [","] + a2
        return t, a


OPTOK = {"n": ["!"], "A": ["-a"], "O": ["-o"], "C": [","], "L": ["("], "R": [")"]}


def perturb(rng, toks, argv_groups):
    """insert or delete one token; argv_groups is the argv split per model token"""
    toks, argv_groups = list(toks), list(argv_groups)
    if toks and rng.random() < 0.5:
        i = rng.randrange(len(toks))
        del toks[i]
        del argv_groups[i]
    else:
        i = rng.randint(0, len(toks))
        t = rng.choice(["n", "A", "O", "C", "L", "R"])
        toks.insert(i, t)
        argv_groups.insert(i, OPTOK[t])
    return toks, argv_groups


def gen_case(ctx, forest, treenames, tree_entries_names):
    rng = ctx.rng
    roots = [rng.choice(treenames)]
    if rng.random() < 0.3:
        roots.append(rng.choice(treenames))
    names = sorted({n for r in roots for n in tree_entries_names[r]})
    g = Gen(rng, rng.sample(names, min(3, len(names))) if names else [b"zz"], ctx.thorough)
    sorted_pid = g.next
    g.next += 1
    g.prims[sorted_pid] = Prim("t", ["-sorted"], lambda e: True)
    toks, argv = g.seq(rng.choice([1, 2, 3, 4, 5]))
    # regroup argv per model token for perturbation
    groups = []
    i = 0
    for t in toks:
        if t[0] in "taqr":
            n = len(g.prims[int(t[1:])].argv)
        else:
            n = 1
        groups.append(argv[i:i + n])
        i += n
    # juxtaposition has no token in the model either: rebuild tokens without empty-group "A"
    valid = True
    if rng.random() < 0.15:
        toks, groups = perturb(rng, toks, groups)
        valid = None   # unknown: the model decides
    argv = [a for gpart in groups for a in gpart]
    post = False
    return dict(roots=roots, toks=["t%d" % sorted_pid] + toks, argv=["-sorted"] + argv, prims=g.prims, valid=valid,
                treekey=tuple(roots), post=post, groups=[["-sorted"]] + groups)


def tokens_for_juxt(toks):
    return toks


def lines(case, cwd):
    args = [r.decode() for r in case["roots"]] + case["argv"]
    il = "find - %s %s" % (fw.hexs(cwd), xc.hexlist([a.encode() for a in args]))
    roots_enc, ufs = [], []
    npid = max(case["prims"]) + 1
    for r in case["roots"]:
        t, uf = fstree.unfold(os.path.join(cwd, r), "P")
        truth = []
        for i, n in uf.nodes.items():
            n["path"] = n["path"][len(cwd) + 1:]
            bits = ["0"] * npid
            for pid, p in case["prims"].items():
                bits[pid] = "1" if p.truth(n) else "0"
            bits[0] = "1"
            truth.append("%s=%s" % ("r" if i == 0 else i, "".join(bits)))
        roots_enc.append(t + "|" + ",".join(truth))
        ufs.append(uf)
    ml = "expr 0 50 0 %s %s" % (",".join(case["toks"]) if case["toks"] else "~", ";".join(roots_enc))
    return il, ml, ufs


def expected(case, mout, ufs):
    if mout == "err":
        return 1, b""
    groups = mout[3:].split(" | ") if len(mout) > 3 else []
    out = b""
    for gi, g in enumerate(groups):
        uf = ufs[gi]
        for v in g.split(" "):
            if not v:
                continue
            ident, tr = v.split(":")
            path = uf.nodes[0 if ident == "r" else int(ident)]["path"]
            for pid in (tr.split(".") if tr else []):
                pid = int(pid)
                if pid == 0:
                    out += path + b"\n"
                else:
                    p = case["prims"][pid]
                    if p.out:
                        out += p.out(path)
    return 0, out


def evaluate(ctx, forest, cases):
    il, ml, uu = [], [], []
    for c in cases:
        a, b, ufs = lines(c, forest.dir)
        il.append(a)
        ml.append(b)
        uu.append(ufs)
    impl = xc.run_impl(il)
    model = fw.run_lines(fw.FUVM, ml)
    bad = []
    for c, i, m, ufs in zip(cases, impl, model, uu):
        code, out, err = wc.decode_find(i)
        ecode, eout = expected(c, m, ufs)
        nbin = sum(1 for t in c["toks"] if t in ("A", "O", "C"))
        nprim = sum(1 for t in c["toks"] if t[0] in "taqr")
        juxt = nprim - 1 - nbin
        ctx.count((tuple(c["argv"]), c["treekey"]), m != "err" and (nbin + max(juxt, 0)) >= 1 and nprim >= 3,
                  ["accepted=%d" % (m != "err"), "tokens=%s" % ("1-4" if len(c["toks"]) <= 4 else "5-10" if len(c["toks"]) <= 10 else "11+"),
                   "has_quit=%d" % any(t[0] == "q" for t in c["toks"]), "has_prune=%d" % any(t[0] == "r" for t in c["toks"]),
                   "has_action=%d" % any(t[0] == "a" for t in c["toks"]), "roots=%d" % len(c["roots"])])
        if (code, out) != (ecode, eout):
            bad.append((c, (code, out, err), (ecode, eout)))
    return bad


def shrink(forest, c):
    """drop tokens (with their argv words) while the implementation still disagrees with the model"""
    def fails(idx):
        d = dict(c, toks=[c["toks"][i] for i in idx], groups=[c["groups"][i] for i in idx])
        d["argv"] = [a for g in d["groups"] for a in g]
        b = evaluate(fw.Ctx("C01", "quick", 0), forest, [d])
        return bool(b)
    idx = fw.shrink_list(list(range(len(c["toks"]))), lambda l: 0 in l and fails(l), max_steps=150)
    d = dict(c, toks=[c["toks"][i] for i in idx], groups=[c["groups"][i] for i in idx])
    d["argv"] = [a for g in d["groups"] for a in g]
    if len(d["roots"]) > 1:
        e = dict(d, roots=d["roots"][:1], treekey=tuple(d["roots"][:1]))
        if evaluate(fw.Ctx("C01", "quick", 0), forest, [e]):
            d = e
    b = evaluate(fw.Ctx("C01", "quick", 0), forest, [d])
    return b[0] if b else None


def report(ctx, forest, bad):
    shrunk = []
    for c, got, exp in bad[:2]:
        r = shrink(forest, c) if "groups" in c else None
        shrunk.append(r if r else (c, got, exp))
    for c, got, exp in shrunk:
        ctx.violation("find %s %s: exit %s output %r; reference evaluation of the grammar: exit %s output %r"
                      % (c["roots"], " ".join(c["argv"]), got[0], got[1][:300], exp[0], exp[1][:300]),
                      {"property": "C01", "kind": "correspondence", "find_args": [r.decode() for r in c["roots"]] + c["argv"],
                       "model_tokens": c["toks"], "trees": {r.decode(): wc.spec_json(forest.trees[r]) for r in c["roots"]},
                       "implementation": {"exit": got[0], "stdout_hex": fw.hexs(got[1]), "stderr": got[2].decode("utf-8", "replace")[:200]},
                       "model_and_spec": {"exit": exp[0], "stdout_hex": fw.hexs(exp[1])},
                       "explain": "C01_build_complete/_sound/_default_print/_quit_cuts prove the model output is the reference evaluation; the implementation differs",
                       "total_disagreements": len(bad)})


def child_output_order(ctx, forest):
    """the outputs of the actions of one file appear in evaluation order also when a later action is a command writing to the same
    standard output (real binary, stdout a pipe): -printf text without a newline must not be overtaken by -exec's child"""
    import subprocess
    base = os.path.join(forest.dir, b"ord")
    os.makedirs(base, exist_ok=True)
    open(os.path.join(base, b"a"), "wb").close()
    scen = [(["ord/a", "-printf", "A:%p ", "-exec", "echo", "B", ";"], b"A:ord/a B\n"),
            (["ord/a", "-printf", "%p\\0", "-exec", "echo", "B", ";"], b"ord/a\0B\n"),
            (["ord/a", "-printf", "A ", "-print", "-printf", "C ", "-execdir", "echo", "D", ";", "-printf", "E\\n"], b"A ord/a\nC D\nE\n"),
            (["ord/a", "-print0", "-exec", "echo", "B", ";", "-printf", "C"], b"ord/a\0B\nC")]
    for args, want in scen:
        p = subprocess.run([fw.FIND] + args, stdout=subprocess.PIPE, stderr=subprocess.DEVNULL, cwd=forest.dir, env=xc.ENV, timeout=60)
        ctx.count(("child-output-order", tuple(args)), True, "child-output-order")
        if p.stdout != want or p.returncode != 0:
            ctx.violation("find %s: output %r (exit %d); the actions evaluated left to right write %r" % (" ".join(args), p.stdout, p.returncode, want),
                          {"property": "C01", "kind": "child-output-order", "find_args": args, "stdout": fw.hexs(p.stdout), "expected": fw.hexs(want), "exit": p.returncode})


def run(ctx):
    rng = ctx.rng
    forest = wc.Forest("c01-")
    try:
        child_output_order(ctx, forest)
        kc.paren_depth(ctx, "C01", forest.dir)
        treenames, entry_names = [], {}
        for k in range(12 if ctx.thorough else 5):
            nm = b"e%d" % k
            spec = fstree.gen_tree(rng, max_nodes=9, max_depth=3, links=False, p_dir=0.45)
            forest.add(nm, spec)
            treenames.append(nm)
            entry_names[nm] = [p[-1] for p, s in fstree.all_paths(spec) if p]
        cases = [gen_case(ctx, forest, treenames, entry_names) for _ in range(20000 if ctx.thorough else 1500)]
        bad = evaluate(ctx, forest, cases)
        for c in cases[:5]:
            ctx.sample({"find_args": [r.decode() for r in c["roots"]] + c["argv"], "model_tokens": c["toks"]})
        report(ctx, forest, bad)
    finally:
        forest.close()


def replay(ctx, rep):
    run(ctx)
