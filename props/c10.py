"""C10 - find -delete removes exactly the matched entries and nothing else.

(O1) coq/Props/C10.v.  (O2) find_main in-process on throw-away trees (files, directories, symbolic links
to files and directories inside and outside the tree) with a name-chosen expression before -delete:
complete before/after snapshots of the sandbox and of a decoy directory outside it, against the
Delete model; the printed sequence against -depth EXPR -print on a twin tree."""
import hashlib
import os
import stat

from lib import framework as fw
from lib import fstree
from props import walk_common as wc
from props import xargs_common as xc
from props import known_common as kc

RULE = ("(tree with links, expression before -delete) cases; the expression is a disjunction of -name tests or -type f / -true, so matched directories "
        "are sometimes non-empty (removal fails); non-trivial = distinct case in which at least one entry is matched and at least one is not")
ASSUMPTIONS = [
    "unlink/rmdir behave as POSIX says (rmdir fails on a non-empty directory); readdir during removal is made irrelevant by -sorted (listing collected first)",
    "follow modes -P and -H (starting point a real directory); under -L the walk enters link targets and removing there is 'matched entries', which the decoy check cannot tell apart",
]


def snapshot(root):
    """name -> (type, size, mode, link target / content hash) for everything below root"""
    out = {}
    for dirpath, dirs, files in os.walk(root, followlinks=False):
        for n in dirs + files:
            p = os.path.join(dirpath, n)
            st = os.lstat(p)
            if stat.S_ISLNK(st.st_mode):
                v = ("l", os.readlink(p))
            elif stat.S_ISDIR(st.st_mode):
                v = ("d", stat.S_IMODE(st.st_mode))
            else:
                v = ("f", st.st_size, stat.S_IMODE(st.st_mode), hashlib.sha1(open(p, "rb").read()).hexdigest())
            out[os.path.relpath(p, root)] = v
    return out


def age(root, paths, rstate):
    """set every modification time below root (and root's) to three hours ago, then touch the same random third of the entries"""
    import random
    r = random.Random()
    r.setstate(rstate)
    old = __import__("time").time() - 3 * 3600
    allp = [root] + [os.path.join(root, b"/".join(p)) for p in paths]
    fresh = [x for x in allp[1:] if r.random() < 0.35]
    for x in allp:
        os.utime(x, (old, old), follow_symlinks=False)
    for x in fresh:
        if not os.path.islink(x) and not os.path.isdir(x):
            os.utime(x, None)


def model_tree(spec, ids, prefix=()):
    """Delete.node encoding; ids: path tuple -> id"""
    if spec[0] == "d":
        parts = []
        for nm in sorted(spec[1]):
            i = len(ids) + 1
            ids[prefix + (nm,)] = i
            parts.append("%d:%s" % (i, model_tree(spec[1][nm], ids, prefix + (nm,))))
        return "D[" + ",".join(parts) + "]"
    return "F"


def run(ctx):
    rng = ctx.rng
    forest = wc.Forest("c10-")
    try:
        n = 600 if ctx.thorough else 80
        cases = []
        for k in range(n):
            nm = b"d%d" % k
            spec = fstree.gen_tree(rng, max_nodes=16, max_depth=4, p_dir=0.45)
            forest.add(nm, spec)
            forest.add(b"w%d" % k, spec)        # the twin
            paths = [p for p, s in fstree.all_paths(spec) if p]
            names = sorted({p[-1] for p in paths})
            kind = rng.choice(["names", "names", "names", "typef", "all", "all1", "links2", "mmin", "mmin", "mminold", "mminold"])
            if kind == "names":
                chosen = rng.sample(names, min(len(names), rng.choice([1, 2, 3]))) if names else [b"zz"]
                expr = ["("] + sum([["-name", c.decode()] + (["-o"] if i < len(chosen) - 1 else []) for i, c in enumerate(chosen)], []) + [")"]
                match = lambda p, s, chosen=chosen: bool(p) and p[-1] in chosen
            elif kind == "typef":
                expr = ["-type", "f"]
                match = lambda p, s: s[0] == "f"
            elif kind == "all":
                expr = ["-true"]
                match = lambda p, s: True
            elif kind == "all1":
                expr = ["-mindepth", "1"]
                match = lambda p, s: bool(p)
            elif kind == "links2":
                # a test on the directory's own status, which removing its children changes: the verdict is the one on the untouched tree
                expr = ["-links", "2"]
                match = None
            else:
                # everything is three hours old except a few files; "modified in the last 5 minutes" must not come to include the
                # directories whose contents the run itself removes - nor "more than an hour ago" lose them
                expr = ["-mmin", "-5"] if kind == "mmin" else ["-mmin", "+60"]
                match = None
                for tree in (nm, b"w%d" % k):
                    age(os.path.join(forest.dir, tree), paths, rng.getstate())
            if rng.random() < (0.6 if match is None else 0.3):
                # a depth bound: the directories on the bound are matched with everything below them left alone (they stay), and the
                # ones just above it lose entries during the run like any other (their verdict is still the one on the untouched tree)
                bound = rng.choice([1, 1, 2, 2, 3])
                expr = ["-maxdepth", str(bound)] + expr
                kind += "+maxdepth"
                if match is not None:
                    match = (lambda p, s, m0=match, bound=bound: len(p) <= bound and m0(p, s))
            cases.append((nm, b"w%d" % k, spec, expr, match, kind, rng.choice([[], [], [b"-P"], [b"-H"], [b"-H"]])))
        before_out = snapshot(os.path.join(forest.dir, b"outside"))
        il, il2 = [], []
        for nm, twin, spec, expr, match, kind, fl in cases:
            # -H with a starting point that is a real directory: links below it are not followed, exactly as under -P
            il.append("find - %s %s" % (fw.hexs(forest.dir), xc.hexlist(fl + [nm, b"-sorted"] + [e.encode() for e in expr] + [b"-print0", b"-delete", b"-printf", b"D:%p\\0"])))
            il2.append("find - %s %s" % (fw.hexs(forest.dir), xc.hexlist([twin, b"-depth", b"-sorted"] + [e.encode() for e in expr] + [b"-print0"])))
        cases = [c[:6] for c in cases]
        before = {nm: snapshot(os.path.join(forest.dir, nm)) for nm, *_ in cases}
        impl2 = xc.run_impl(il2)          # the twins first: "-depth EXPR -print on an identical tree" defines the matched set
        impl = xc.run_impl(il)
        ml, idmaps = [], []
        for ci, (nm, twin, spec, expr, match, kind) in enumerate(cases):
            if match is None:
                tw = wc.decode_find(impl2[ci])[1].split(b"\0")[:-1]
                rel = {tuple(x[len(twin) + 1:].split(b"/")) if x != twin else () for x in tw}
                match = lambda p, s, rel=rel: tuple(p) in rel
                cases[ci] = (nm, twin, spec, expr, match, kind)
            ids = {}
            t = model_tree(spec, ids)
            matched = ["r"] if match((), spec) else []
            for p, s in fstree.all_paths(spec):
                if p and match(p, s):
                    matched.append(str(ids[p]))
            ml.append("delete %s %s" % (",".join(matched) if matched else "~", t))
            idmaps.append({v: k for k, v in ids.items()})
        mout = fw.run_lines(fw.FUVM, ml)
        bad = []
        for (nm, twin, spec, expr, match, kind), i, i2, m, idm in zip(cases, impl, impl2, mout, idmaps):
            code, out, err = wc.decode_find(i)
            code2, out2, err2 = wc.decode_find(i2)
            failed, removed = m.split(" ")
            removed_paths = [] if removed == "~" else [() if x == "r" else idm[int(x)] for x in removed.split(",")]
            root = os.path.join(forest.dir, nm)
            after = snapshot(root) if os.path.lexists(root) else None
            exp_after = dict(before[nm])
            for p in removed_paths:
                if p:
                    exp_after.pop(b"/".join(p), None)
            if () in removed_paths:
                exp_after = None
            nmatched = sum(1 for p, s in fstree.all_paths(spec) if match(p, s))
            ntotal = len(fstree.all_paths(spec))
            ctx.count((nm, tuple(expr), ctx.seed), 0 < nmatched < ntotal, ["expr=" + kind, "rmdir_failed=" + failed])
            problems = []
            # what -print0 reported (reached, before removal) and what came out of -delete true (the -printf behind it)
            recs = out.split(b"\0")[:-1]
            deleted_true = [r[2:] for r in recs if r.startswith(b"D:")]
            out = b"".join(r + b"\0" for r in recs if not r.startswith(b"D:"))
            exp_true = [nm if not p else nm + b"/" + b"/".join(p) for p in removed_paths]
            if deleted_true != exp_true:
                problems.append("-delete was true on %r; the entries removed are %r" % (deleted_true[:6], exp_true[:6]))
            nd = wc.diagnostics(i)
            if nd is not None and nd != nmatched - len(removed_paths):
                problems.append("%d diagnostics for %d entries that could not be removed" % (nd, nmatched - len(removed_paths)))
            if after != exp_after:
                problems.append("tree after the run differs from (before minus the matched entries)")
            if (code != 0) != (failed == "1"):
                problems.append("exit status %s but model failed=%s" % (code, failed))
            if out.replace(nm, twin) != out2:
                problems.append("entries reported before removal differ from -depth EXPR -print on the twin tree")
            if problems:
                bad.append((nm, expr, spec, problems, code, sorted(before[nm]), sorted(after) if after is not None else None,
                            sorted(exp_after) if exp_after is not None else None))
        after_out = snapshot(os.path.join(forest.dir, b"outside"))
        if after_out != before_out:
            ctx.violation("the decoy directory outside every starting point changed",
                          {"property": "C10", "kind": "decoy", "before": sorted(x.decode() for x in before_out), "after": sorted(x.decode() for x in after_out)})
        ctx.sample({"expression": cases[0][3], "tree": wc.spec_json(cases[0][2])})
        for nm, expr, spec, problems, code, b, a, e in bad[:2]:
            ctx.violation("find %s %s -delete: %s" % (nm.decode(), " ".join(expr), "; ".join(problems)),
                          {"property": "C10", "kind": "correspondence", "expression": expr, "tree": wc.spec_json(spec), "problems": problems, "exit": code,
                           "before": [x.decode("utf-8", "replace") for x in b], "after": None if a is None else [x.decode("utf-8", "replace") for x in a],
                           "expected_after": None if e is None else [x.decode("utf-8", "replace") for x in e],
                           "explain": "C10_exact: the removed entries are exactly the matched ones, a directory only once empty; everything else unchanged"})
        followed_links(ctx, forest)
        stderr_full(ctx, forest)
        test_diagnostic_unwritable(ctx, forest)
        dotdot_root(ctx, forest)
    finally:
        forest.close()


def dotdot_root(ctx, forest):
    """known finding dotdot-root: a starting point spelled through one of its own entries (d/sub/..) stops resolving once find has removed
    that entry, and what comes later in the walk is left behind"""
    import subprocess
    base = os.path.join(forest.dir, b"dd")
    os.makedirs(os.path.join(base, b"d", b"sub"))
    os.makedirs(os.path.join(base, b"d", b"other", b"x"))
    for f in (b"d/a", b"d/sub/b", b"d/other/x/y", b"d/zlast"):
        open(os.path.join(base, f), "wb").close()
    p = subprocess.run([fw.FIND, "d/sub/..", "-sorted", "-delete"], stdout=subprocess.DEVNULL, stderr=subprocess.PIPE, cwd=base, env=xc.ENV, timeout=60)
    left = sorted(snapshot(base))
    ctx.count(("dotdot-root",), True, "known-finding-scenarios")
    # the starting point itself cannot be removed under that name (rmdir of a path ending in ".."): everything else can
    kc._judge(ctx, "C10", "dotdot-root", "find d/sub/.. -delete: once d/sub is removed the remaining paths (d/sub/../zlast) no longer resolve: they are diagnosed and left behind",
              left == [b"d"] and p.returncode == 1, left == [b"d", b"d/zlast"] and p.returncode == 1 and b"d/sub/../zlast" in p.stderr,
              "exit %d, left %s" % (p.returncode, [x.decode() for x in left]))


def stderr_full(ctx, forest):
    """an entry that cannot be removed "does not stop the walk" - also when the diagnostic itself cannot be written"""
    import subprocess
    base = os.path.join(forest.dir, b"sf")
    os.makedirs(os.path.join(base, b"root", b"a", b"b"))
    os.makedirs(os.path.join(base, b"root", b"c"))
    for f in (b"root/a/b/keep", b"root/a/g", b"root/c/h"):
        open(os.path.join(base, f), "wb").close()
    with open("/dev/full", "wb") as full:
        p = subprocess.run([fw.FIND, "root", "-sorted", "!", "-name", "keep", "-delete"], stdout=subprocess.DEVNULL, stderr=full, cwd=base, env=xc.ENV, timeout=60)
    left = sorted(snapshot(base))
    want = [b"root", b"root/a", b"root/a/b", b"root/a/b/keep"]
    ctx.count(("stderr-full",), True, "stderr-full")
    if left != want or p.returncode != 1:
        ctx.violation("find root ! -name keep -delete with standard error on a full device: exit %d, left %s; expected exit 1 and %s"
                      % (p.returncode, [x.decode() for x in left], [x.decode() for x in want]),
                      {"property": "C10", "kind": "stderr-full", "exit": p.returncode, "left": [x.decode() for x in left], "expected_left": [x.decode() for x in want]})


def test_diagnostic_unwritable(ctx, forest):
    """a TEST in front of -delete that cannot examine one entry (here -empty on a directory the user may not read) diagnoses it; when that
    diagnostic cannot be written either, the walk still goes on and removes what the expression selects"""
    import subprocess
    base = os.path.join(forest.dir, b"tu")
    os.makedirs(os.path.join(base, b"d", b"a_unr"))
    os.makedirs(os.path.join(base, b"d", b"z"))
    for f in (b"d/z/empty1", b"d/zz_empty2"):
        open(os.path.join(base, f), "wb").close()
    pre = kc.unprivileged(base)
    if pre is None:
        ctx.notes.append("test_diagnostic_unwritable: no unprivileged user available here, scenario skipped")
        return
    for root, dirs, files in os.walk(base):
        for n in [root] + [os.path.join(root, f) for f in files]:
            os.chown(n, 65534, 65534)
    os.chmod(os.path.join(base, b"d", b"a_unr"), 0)
    try:
        with open("/dev/full", "wb") as full:
            p = subprocess.run(pre + [fw.FIND, "d", "-sorted", "-empty", "-delete"], stdout=subprocess.DEVNULL, stderr=full, cwd=base, env=xc.ENV, timeout=60)
    finally:
        os.chmod(os.path.join(base, b"d", b"a_unr"), 0o755)
    left = sorted(snapshot(base))
    want = [b"d", b"d/a_unr"]
    ctx.count(("test-diagnostic-unwritable",), True, "stderr-full")
    if left != want or p.returncode != 1:
        ctx.violation("find d -empty -delete as an unprivileged user, one unreadable directory, standard error on a full device: exit %d, left %s; expected exit 1 and %s"
                      % (p.returncode, [x.decode() for x in left], [x.decode() for x in want]),
                      {"property": "C10", "kind": "test-diagnostic-unwritable", "exit": p.returncode, "left": [x.decode() for x in left], "expected_left": [x.decode() for x in want]})


def followed_links(ctx, forest):
    """"A symbolic link is removed itself, never its target" where the follow mode resolves the link: under -L a matched link to a
    directory (or file), under -H a starting point that is such a link.  The expression matches the links by name only, so nothing
    reached through them is matched."""
    rng = ctx.rng
    n = 40 if ctx.thorough else 8
    for k in range(n):
        base = os.path.join(forest.dir, b"fl%d" % k)
        os.makedirs(os.path.join(base, b"root", b"sub"))
        os.makedirs(os.path.join(base, b"elsewhere", b"deep"))
        open(os.path.join(base, b"root", b"sub", b"file"), "wb").close()
        open(os.path.join(base, b"root", b"plain"), "wb").close()
        open(os.path.join(base, b"elsewhere", b"keep"), "wb").close()
        empty = rng.random() < 0.5
        tdir = b"../elsewhere/deep" if empty else b"../elsewhere"
        links = {b"lnk_d": tdir, b"lnk_f": b"plain", b"lnk_in": b"sub", b"lnk_dang": b"nowhere"}
        chosen = [x for x in sorted(links) if rng.random() < 0.7] or [b"lnk_d"]
        for nm in chosen:
            os.symlink(links[nm], os.path.join(base, b"root", nm))
        os.symlink(b"elsewhere/deep", os.path.join(base, b"rootlink"))
        mode = rng.choice([b"-L", b"-L", b"-H"])
        if mode == b"-L":
            args = [b"-L", b"root", b"-sorted", b"-name", b"lnk_*", b"-delete"]
            gone = [os.path.join(b"root", nm) for nm in chosen]
        else:
            args = [b"-H", b"rootlink", b"-sorted", b"-delete"]
            gone = [b"rootlink"]
        before = snapshot(base)
        code, out, err = wc.decode_find(xc.run_impl(["find - %s %s" % (fw.hexs(base), xc.hexlist(args))])[0])
        after = snapshot(base)
        exp = {p: v for p, v in before.items() if p not in gone}
        ctx.count(("followed-links", k, tuple(args), tuple(chosen), empty), True, ["followed-links", "mode=" + mode.decode()])
        if after != exp or code != 0:
            ctx.violation("find %s: exit %s; removed %s, expected exactly %s removed (the links themselves), stderr %r"
                          % (b" ".join(args).decode(), code, sorted(x.decode() for x in set(before) - set(after)), sorted(x.decode() for x in gone),
                             err.decode("utf-8", "replace")[:200]),
                          {"property": "C10", "kind": "followed-link", "find_args": [a.decode() for a in args], "links": {a.decode(): b.decode() for a, b in links.items() if a in chosen},
                           "exit": code, "removed": sorted(x.decode() for x in set(before) - set(after)), "expected_removed": sorted(x.decode() for x in gone),
                           "changed": sorted(x.decode() for x in before if x in after and before[x] != after[x]),
                           "explain": "a symbolic link is removed itself (unlink), never its target, also where the follow mode shows it as a directory"})


def replay(ctx, rep):
    run(ctx)
