"""C07 - find -print0 paths are byte-exact and survive the pipe into xargs -0.

(O1) coq/Props/C07.v.  (O2) find_main in-process (-print0 / -print) on trees of hostile names under
every spelling of the starting point, against the path-formation model; and the real pipeline
find ... -print0 | xargs -0 recorder, every path delivered exactly once, byte for byte."""
import os
import subprocess

from lib import framework as fw
from props import walk_common as wc
from props import xargs_common as xc
from props import names_common as nc
from props import known_common as kc

RULE = ("(tree of hostile names, spelling of the starting point, -print0 or -print) cases in-process plus real find | xargs -0 pipelines; "
        "non-trivial = distinct case whose tree has a name with a blank, newline, quote, backslash, glob character or leading dash")
ASSUMPTIONS = [
    "names are valid UTF-8 (the property's restriction); to_string_lossy is then the identity",
    "the pipe and Command::args pass bytes through unchanged (exercised with the real binaries, not modelled)",
]


def run(ctx):
    rng = ctx.rng
    forest = wc.Forest("c07-")
    try:
        ntrees = 150 if ctx.thorough else 30
        cases = []
        for k in range(ntrees):
            nm = b"n%d" % k
            spec = nc.gen_nasty_tree(rng)
            forest.add(nm, spec)
            for _ in range(4 if ctx.thorough else 3):
                cases.append((nm, spec, nc.spelled(rng, forest.dir, nm), rng.choice([0, 0, 10])))
        il = [nc.find_line(forest.dir, [root, b"-sorted", b"-print0" if d == 0 else b"-print"]) for nm, spec, root, d in cases]
        impl = xc.run_impl(il)
        ml, exp_all = [], []
        for nm, spec, root, d in cases:
            exp = []
            for names in nc.listing(spec):
                exp.append(nc.join_ref(root, list(names)))
                ml.append("paths epath %s %s" % (fw.hexs(root), xc.hexlist(list(names))))
            exp_all.append(exp)
        mout = fw.run_lines(fw.FUVM, ml)
        k, bad = 0, []
        for (nm, spec, root, d), i, exp in zip(cases, impl, exp_all):
            code, out, err = wc.decode_find(i)
            model_paths = [fw.unhex(x) for x in mout[k:k + len(exp)]]
            k += len(exp)
            want = b"".join(p + bytes([d]) for p in model_paths)
            ctx.count((nm, root, d, ctx.seed), True, ["delim=%d" % d, "spelling=" + ("abs" if root.startswith(b"/") else "rel")])
            if model_paths != exp:
                bad.append(("model-vs-reference", root, model_paths, exp, None))
            elif out != want or code != 0:
                bad.append(("find", root, out, want, spec))
        for kind, root, got, want, spec in bad[:2]:
            ctx.violation("%s: starting point %r: got %r, expected %r" % (kind, root, got if isinstance(got, bytes) else got[:5], want if isinstance(want, bytes) else want[:5]),
                          {"property": "C07", "kind": "correspondence", "what": kind, "starting_point": fw.hexs(root),
                           "tree": wc.spec_json(spec) if spec else None,
                           "implementation_hex": fw.hexs(got) if isinstance(got, bytes) else [fw.hexs(x) for x in got],
                           "expected_hex": fw.hexs(want) if isinstance(want, bytes) else [fw.hexs(x) for x in want],
                           "explain": "C07_path_shape fixes the printed bytes: starting point as given, names joined by '/', one delimiter"})
        ctx.sample({"starting_point": cases[0][2].decode("utf-8", "replace"), "tree": wc.spec_json(cases[0][1])})
        pipeline(ctx, forest, cases)
        to_file(ctx, forest, cases)
        kc.path_max(ctx, "C07", forest.dir)
    finally:
        forest.close()


def to_file(ctx, forest, cases):
    """the same records through -fprint0 / -fprint (the printer is shared): the list file holds exactly the records of this run,
    also when it existed before with other, longer content - otherwise xargs -0 < FILE hands over paths that were never matched"""
    rng = ctx.rng
    n = 30 if ctx.thorough else 6
    for idx, (nm, spec, root, d) in enumerate(cases[:n]):
        target = os.path.join(forest.dir, b"list%d" % idx)
        state = rng.choice(["absent", "longer", "longer", "shorter"])
        exp = b"".join(nc.join_ref(root, list(names)) + bytes([d]) for names in nc.listing(spec))
        if state != "absent":
            open(target, "wb").write(b"stale/record\0" * (3 if state == "shorter" else len(exp) // 8 + 50))
        flag = b"-fprint0" if d == 0 else b"-fprint"
        code, out, err = wc.decode_find(xc.run_impl([nc.find_line(forest.dir, [root, b"-sorted", flag, target])])[0])
        got = open(target, "rb").read() if os.path.exists(target) else None
        ctx.count(("to-file", nm, root, d, state), True, ["to-file", "target=" + state])
        if got != exp or code != 0 or out != b"":
            ctx.violation("find %r %s FILE (FILE %s before the run): exit %s; FILE holds %d bytes, expected exactly the %d bytes of this run's records%s"
                          % (root, flag.decode(), state, code, -1 if got is None else len(got), len(exp),
                             "; the tail is old content" if got and got.startswith(exp) and len(got) > len(exp) else ""),
                          {"property": "C07", "kind": "to-file", "starting_point": fw.hexs(root), "action": flag.decode(), "target_before": state, "exit": code,
                           "file_hex_tail": fw.hexs((got or b"")[-60:]), "expected_hex_tail": fw.hexs(exp[-60:])})
        if os.path.exists(target):
            os.remove(target)


def long_tree(rng):
    """a directory whose name contains a newline, above several levels of long names: one record is then much longer than the standard
    output buffer, with the newline early in it"""
    leaf = ("d", {b" ": ("f", 0), b"z" * 200: ("f", 0)})
    for k in range(rng.choice([4, 5, 6])):
        leaf = ("d", {bytes([97 + k]) * rng.choice([250, 255, 180]): leaf, b"f%d" % k: ("f", 0)})
    return ("d", {b"-a b\n'c\" {} *": leaf, b"plain": ("f", 0)})


def pipeline(ctx, forest, cases):
    rng = ctx.rng
    n = 40 if ctx.thorough else 8
    bad = []
    forest.add(b"longrec", long_tree(rng))
    cases = [(b"longrec", forest.trees[b"longrec"], b"longrec", 0), (b"longrec", forest.trees[b"longrec"], b"./longrec/", 0)] + list(cases)
    for idx, (nm, spec, root, d) in enumerate(cases[:n]):
        rec = os.path.join(forest.dir, b"rec%d" % idx)
        env = dict(xc.ENV, FUV_RECORD=rec.decode())
        exp = [nc.join_ref(root, list(names)) for names in nc.listing(spec)]
        # a size limit that still admits the longest record next to the command (otherwise xargs rightly refuses it, C04/C06's subject)
        smax = max(600, max(len(x) for x in exp) + len(fw.FUV) + 64)
        extra = rng.choice([[], ["-n", "3"], ["-s", str(smax)]])
        p1 = subprocess.Popen([fw.FIND, root.decode(), "-sorted", "-print0"], stdout=subprocess.PIPE, stderr=subprocess.DEVNULL, cwd=forest.dir, env=env)
        p2 = subprocess.Popen([fw.XARGS, "-0"] + extra + [fw.FUV, "record"], stdin=p1.stdout, stdout=subprocess.DEVNULL, stderr=subprocess.DEVNULL,
                              cwd=forest.dir, env=env)
        p1.stdout.close()
        rc2 = p2.wait(timeout=120)
        rc1 = p1.wait(timeout=120)
        got = []
        if os.path.exists(rec):
            for line in open(rec):
                got += [fw.unhex(x) for x in line.split()[1:]]
            os.remove(rec)
        ctx.count(("pipe", nm, root, tuple(extra), ctx.seed), True, "pipeline")
        if got != exp or rc1 != 0 or rc2 != 0:
            bad.append((root, extra, rc1, rc2, got, exp, spec))
    for root, extra, rc1, rc2, got, exp, spec in bad[:2]:
        ctx.violation("find %r -print0 | xargs -0 %s: delivered %d arguments (exit %d/%d), expected %d: first difference %r"
                      % (root, extra, len(got), rc1, rc2, len(exp), next(((a, b) for a, b in zip(got + [None], exp + [None]) if a != b), None)),
                      {"property": "C07", "kind": "pipeline", "starting_point": fw.hexs(root), "xargs_options": extra, "tree": wc.spec_json(spec),
                       "delivered": [fw.hexs(x) for x in got], "expected": [fw.hexs(x) for x in exp], "exit": [rc1, rc2]})


def replay(ctx, rep):
    run(ctx)
