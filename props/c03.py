"""C03 - find visit order: pre/post-order (-depth); -prune cuts exactly one subtree.

(O1) coq/Props/C03.v.  (O2) as C02, with prune sets chosen by name ( ( -name A -o -name B ) -prune
after an unconditional -print0 ), -depth on and off, depth bounds; plus -prune reached through
other expression shapes and -delete-implied -depth on throw-away trees."""
import os

from lib import framework as fw
from lib import fstree
from props import walk_common as wc
from props import c02
from props import xargs_common as xc

RULE = ("(tree, prune name set, -depth on/off, depth bounds, follow mode) configurations; non-trivial = distinct configuration in which the prune "
        "set hits at least one directory that has entries beneath it, or -depth is on with at least 3 entries")
ASSUMPTIONS = c02.ASSUMPTIONS + [
    "the prune verdict of the expression on an entry is 'its name is in the chosen set' (the expression semantics is C01's subject)",
]


def bucket(c, events, ufs):
    hit = 0
    for uf in ufs:
        for i, n in uf.nodes.items():
            if c.get("prune") and n.get("name") in c["prune"] and n.get("kind") in ("dir", "link-to-dir"):
                hit += 1
    b = ["mode=" + c["mode"], "post=%d" % bool(c.get("post")), "pruned_dirs=%s" % (hit if hit < 3 else "3+"),
         "bounded=%d" % int(c.get("mind") is not None or c.get("maxd") is not None)]
    return (hit >= 1 or (c.get("post") and len(events) >= 3)), b


def gen_cases(ctx, forest, ntrees, per_tree):
    rng = ctx.rng
    cases = []
    for k in range(ntrees):
        nm = b"t%d" % k
        spec = fstree.gen_tree(rng, max_nodes=34, p_dir=0.5)
        other = forest.other_device()
        if other is not None and rng.random() < 0.4:
            dirs = [sp for pth, sp in fstree.all_paths(spec) if sp[0] == "d"]
            rng.choice(dirs)[1][b"xd"] = ("l", other)
        forest.add(nm, spec)
        dnames = sorted({p[-1] for p, s in fstree.all_paths(spec) if p and s[0] == "d"})
        anynames = sorted({p[-1] for p, s in fstree.all_paths(spec) if p})
        for _ in range(per_tree):
            mode = rng.choice(["P", "P", "L", "H", "default"])
            pool = dnames if dnames and rng.random() < 0.8 else anynames
            prune = rng.sample(pool, min(len(pool), rng.choice([1, 1, 2, 3]))) if pool else [b"zz"]
            if rng.random() < 0.08:
                prune.append(nm)          # the starting point itself
            mind, maxd = (None, None) if rng.random() < 0.6 else (rng.choice([None, 1, 2]), rng.choice([None, 1, 2, 3]))
            cases.append(dict(treekey=(ctx.seed, k), roots=[nm], mode=mode, mind=mind, maxd=maxd,
                              post=rng.random() < 0.45, post_late=rng.choice([None, None, "-depth", "-d"]), prune=prune,
                              xdev=rng.choice([None, None, None, "-xdev"])))
    return cases


def known_finding(ctx, forest):
    """H-rootlink-depth: the listed class is checked against the SPEC directly; the KNOWN-FINDING line is
    printed only while the implementation still shows the documented behaviour"""
    d = os.path.join(forest.dir, b"kf")
    os.makedirs(os.path.join(d, b"sub"))
    open(os.path.join(d, b"f"), "wb").close()
    open(os.path.join(d, b"sub", b"g"), "wb").close()
    open(os.path.join(d, b"z"), "wb").close()
    os.symlink(b"kf", os.path.join(forest.dir, b"kfl"))
    args = ["-H", "kfl", "-depth", "-sorted", "-print0"]
    line = "find - %s %s" % (fw.hexs(forest.dir), xc.hexlist([a.encode() for a in args]))
    code, out, err = wc.decode_find(xc.run_impl([line])[0])
    spec = b"kfl/f\0kfl/sub/g\0kfl/sub\0kfl/z\0kfl\0"
    documented = b"kfl\0kfl/f\0kfl/sub/g\0kfl/z\0kfl/sub\0"
    if out == spec and code == 0:
        return
    if ctx.is_known("H-rootlink-depth") and out == documented:
        ctx.known_finding("H-rootlink-depth", "find -H LINK-TO-DIR -depth reports the link before its contents and directories one level late (walkdir)")
    else:
        ctx.violation("find -H kfl -depth: %r (exit %s); post-order demands %r" % (out, code, spec),
                      {"property": "C03", "kind": "known-class-changed", "find_args": args, "implementation": fw.hexs(out),
                       "spec": fw.hexs(spec), "documented_defect": fw.hexs(documented)})


def prune_across_devices(ctx, forest):
    """-prune on a directory that -xdev keeps find out of (here: a link, followed under -L, into another file system) cuts nothing
    else: its siblings and their subtrees are still visited.  Needs a second file system (/dev/shm); skipped where there is none."""
    other = "/dev/shm"
    try:
        if not os.path.isdir(other) or os.stat(other).st_dev == os.stat(forest.dir).st_dev:
            ctx.notes.append("prune_across_devices: no second file system at /dev/shm, scenario skipped")
            return
    except OSError:
        return
    d = os.path.join(forest.dir, b"xd")
    os.makedirs(os.path.join(d, b"a"))
    os.makedirs(os.path.join(d, b"c", b"d"))
    for f in (b"a/f", b"c/d/g", b"z"):
        open(os.path.join(d, f), "wb").close()
    os.symlink(other, os.path.join(d, b"b"))
    for pruned, want in ((b"b", [b"xd", b"xd/a", b"xd/a/f", b"xd/c", b"xd/c/d", b"xd/c/d/g", b"xd/z"]),
                         (b"c", [b"xd", b"xd/a", b"xd/a/f", b"xd/b", b"xd/z"])):
        args = ["-L", "xd", "-xdev", "-sorted", "-name", pruned.decode(), "-prune", "-o", "-print0"]
        line = "find - %s %s" % (fw.hexs(forest.dir), xc.hexlist([a.encode() for a in args]))
        code, out, err = wc.decode_find(xc.run_impl([line])[0])
        got = out.split(b"\0")[:-1]
        ctx.count(("prune-across-devices", pruned), True, "prune-across-devices")
        if got != want or code != 0:
            ctx.violation("find %s: visited %s (exit %s); exactly the pruned directory's descendants are left out: %s"
                          % (" ".join(args), [x.decode() for x in got], code, [x.decode() for x in want]),
                          {"property": "C03", "kind": "prune-across-devices", "find_args": args, "visited": [x.decode() for x in got],
                           "expected": [x.decode() for x in want], "exit": str(code)})


def depth_before_next_entry(ctx, forest):
    """with -depth a directory is evaluated when the walk leaves it, that is before the next entry is examined: a -quit on it ends the
    run before a later sibling that cannot be read is diagnosed (Walk.defer: the pending directories come before the next event)"""
    d = os.path.join(forest.dir, b"dq")
    os.makedirs(os.path.join(d, b"c"))
    open(os.path.join(d, b"c", b"h"), "wb").close()
    os.symlink(b"d", os.path.join(d, b"d"))             # d -> d: cannot be followed (ELOOP)
    for args, want, wcode in ((["-L", "dq", "-sorted", "-depth", "-name", "c", "-print0", "-quit"], b"dq/c\0", 0),
                              (["-L", "dq", "-sorted", "-depth", "-print0"], b"dq/c/h\0dq/c\0dq\0", 1),
                              (["-L", "dq", "-sorted", "-name", "c", "-print0", "-quit"], b"dq/c\0", 0)):
        line = "find - %s %s" % (fw.hexs(forest.dir), xc.hexlist([a.encode() for a in args]))
        code, out, err = wc.decode_find(xc.run_impl([line])[0])
        ctx.count(("depth-before-next-entry", tuple(args)), True, "depth-before-next-entry")
        if out != want or code != wcode or (wcode == 0 and err):
            ctx.violation("find %s: %r, exit %s, diagnostics %r; the directory is evaluated before the next entry is examined: %r, exit %d"
                          % (" ".join(args), out, code, err[:80], want, wcode),
                          {"property": "C03", "kind": "depth-before-next-entry", "find_args": args, "output": fw.hexs(out), "exit": str(code),
                           "stderr": err.decode("utf-8", "replace")[:200], "expected": fw.hexs(want), "expected_exit": wcode})


def delete_implies_depth(ctx, forest):
    """-delete implies -depth: the visit order printed before the removal is post-order"""
    rng = ctx.rng
    bad = []
    for k in range(12 if ctx.thorough else 4):
        nm = b"del%d" % k
        spec = fstree.gen_tree(rng, max_nodes=14, links=False, p_dir=0.5)
        forest.add(nm, spec)
        twin = b"twin%d" % k
        forest.add(twin, spec)
        a1 = [nm.decode(), "-sorted", "-print0", "-delete"]
        a2 = [twin.decode(), "-depth", "-sorted", "-print0"]
        lines = ["find - %s %s" % (fw.hexs(forest.dir), xc.hexlist([a.encode() for a in x])) for x in (a1, a2)]
        r1, r2 = [wc.decode_find(x) for x in xc.run_impl(lines)]
        ctx.count(("delete-order", k, ctx.seed), True, "delete-implies-depth")

        def post(sp, path):
            """every entry beneath a directory before the directory, siblings in byte order - from the tree as generated"""
            out = []
            if sp[0] == "d":
                for n in sorted(sp[1]):
                    out += post(sp[1][n], path + b"/" + n)
            return out + [path]
        want = b"".join(x + b"\0" for x in post(spec, twin))
        if r1[1].replace(nm, twin) != r2[1] or r1[0] != 0 or r2[1] != want:
            bad.append((a1, r1, r2, spec))
    for a1, r1, r2, spec in bad[:1]:
        ctx.violation("find %s visits %r, -depth on a twin tree visits %r" % (a1, r1[1], r2[1]),
                      {"property": "C03", "kind": "delete-order", "find_args": a1, "tree": wc.spec_json(spec),
                       "with_delete": fw.hexs(r1[1]), "twin_with_depth": fw.hexs(r2[1])})


def sorted_names(ctx, forest):
    """-sorted: siblings in byte-wise name order (C03_sorted_order / C03_byte_order on SortOrder.sort_names).  Directories of names chosen
    for the traps of other orders (prefixes, '-' '.' '/'-neighbours, upper and lower case, digits of different length, multi-byte UTF-8),
    listed by the real find in pre-order and under -depth, against the model's order; the Python order the generated trees above are
    unfolded in is checked against the model on the same names."""
    rng = ctx.rng
    pool = [b"a", b"A", b"a.b", b"a-", b"a-b", b"ab", b"aB", b"a b", b"a0", b"a10", b"a9", b"B", b"b", b"_", b"~", b"-a", b".a", b"..a", b"0",
            b"10", b"9", b"\xc3\xa9", b"e\xcc\x81", b"\xe2\x82\xac", b"z", b"Z", b"aa", b"a\n", b"a\t", b"#", b"+", b",", b"a,", b"a+", b"a#",
            b"\xf0\x9f\x98\x80", b"\xc2\xa0", b"a\xc3\xa9", b"{}", b"[", b"]", b"*", b"?", b"'", b'"', b"\\", b"a\\"]
    bad = []
    nd = 40 if ctx.thorough else 8
    for k in range(nd):
        names = set(rng.sample(pool, rng.randint(2, 14)))
        for _ in range(rng.randint(0, 6)):              # random names over a small alphabet: many common prefixes
            names.add(bytes(rng.choice(b"aAb-.0~") for _ in range(rng.randint(1, 4))))
        names.discard(b"."); names.discard(b"..")
        names = sorted(names, key=lambda n: rng.random())       # creation order is not name order
        d = os.path.join(forest.dir, b"so%d" % k)
        os.makedirs(d)
        sub = rng.choice(names)
        for n in names:
            if n == sub:
                os.makedirs(os.path.join(d, n))
                for m in names[:5]:
                    open(os.path.join(d, n, m), "wb").close()
            else:
                open(os.path.join(d, n), "wb").close()
        model = fw.run_lines(fw.FUVM, ["paths sort %s" % xc.hexlist(names), "paths sort %s" % xc.hexlist(names[:5])], shards=1)
        order = [fw.unhex(x) for x in model[0].split(",")]
        inner = [fw.unhex(x) for x in model[1].split(",")]
        if order != sorted(names) or inner != sorted(names[:5]):
            raise RuntimeError("the byte-wise order the check unfolds trees in differs from SortOrder.sort_names on %r" % names)
        root = b"so%d" % k
        pre, post = [root], []
        for n in order:
            pre.append(root + b"/" + n)
            if n == sub:
                pre += [root + b"/" + n + b"/" + m for m in inner]
                post += [root + b"/" + n + b"/" + m for m in inner]
            post.append(root + b"/" + n)
        post.append(root)
        for args, want in ((["so%d" % k, "-sorted", "-print0"], pre), (["so%d" % k, "-sorted", "-depth", "-print0"], post)):
            line = "find - %s %s" % (fw.hexs(forest.dir), xc.hexlist([a.encode() for a in args]))
            code, out, err = wc.decode_find(xc.run_impl([line])[0])
            got = out.split(b"\0")[:-1] if isinstance(out, bytes) else []
            ctx.count(("sorted-names", k, tuple(args), tuple(names)), len(names) >= 3, "sorted-names")
            if code != 0 or got != want:
                bad.append((args, names, code, got, want))
    for args, names, code, got, want in bad[:3]:
        ctx.violation("find %s over the names %r: exit %s, visited %r; in byte-wise name order (SortOrder.sort_names): %r"
                      % (" ".join(args), names, code, got, want),
                      {"property": "C03", "kind": "sorted-names", "find_args": args, "names": [fw.hexs(n) for n in names], "exit": str(code),
                       "visited": [fw.hexs(g) for g in got], "expected": [fw.hexs(w) for w in want],
                       "explain": "C03_sorted_order: with -sorted the children of a directory are visited in the order of SortOrder.sort_names"})


def run(ctx):
    forest = wc.Forest("c03-")
    try:
        cases = gen_cases(ctx, forest, 250 if ctx.thorough else 30, 20 if ctx.thorough else 10)
        bad = wc.run_cases(ctx, forest, cases, bucket)
        for c in cases[:4]:
            ctx.sample(wc.describe(forest, c))
        c02.report(ctx, forest, bad, "C03")
        known_finding(ctx, forest)
        delete_implies_depth(ctx, forest)
        prune_across_devices(ctx, forest)
        depth_before_next_entry(ctx, forest)
        sorted_names(ctx, forest)
    finally:
        forest.close()


def replay(ctx, rep):
    if rep.get("kind") == "correspondence":
        c02.replay(ctx, rep, "C03", bucket)
    else:
        run(ctx)
