"""Shared pieces of the xargs correspondence checks (C04, C06, C19, C20)."""
import os

from lib import framework as fw

# the environment the in-process xargs sees (the system limiter subtracts it from ARG_MAX)
ENV = {"PATH": "/usr/bin:/bin", "FUV_TMP": os.path.join(fw.BUILD, "tmp"), "LC_ALL": "C"}
ARG_MAX = os.sysconf("SC_ARG_MAX")


def hexlist(items):
    return ",".join(fw.hexs(x) for x in items) if items else "~"


def render(tokens):
    """tokens: list of (word, sep); returns the input bytes and the expected (word, 'h'|'s') list.
    Words are free of blanks, quotes and backslashes, so by C05_words_exact the reader yields
    exactly them, hard iff the first separator byte is a newline."""
    data = b"".join(w + s for w, s in tokens)
    toks = [(w, "h" if s[:1] == b"\n" else "s") for w, s in tokens]
    return data, toks


def impl_line(opts, cmd, data, outs):
    return "xrun %s %s %s %s" % (hexlist([o.encode() for o in opts]), hexlist(cmd), fw.hexs(data), ",".join(outs) if outs else "~")


def model_line(n, L, s, x, r, cmd, toks, ierr, outs, replace=False, env=None, arg_max=None, repl_R=None):
    env = ENV if env is None else env
    rep = str(int(replace))
    if replace and repl_R is not None and cmd:
        # how the lengths change when a line is put in: |R| and the (leftmost, non-overlapping) occurrences in each word
        rep = "1:%d:%s" % (len(repl_R), ".".join(str(0 if i == 0 or not repl_R else c.count(repl_R)) for i, c in enumerate(cmd)))
    envs = ",".join("%d:%d" % (len(k.encode()), len(v.encode())) for k, v in env.items()) or "~"
    f = lambda v: "-" if v is None else str(v)
    return "xargs %s %s %s %d %d %d %s %s %s %s %d %s" % (
        f(n), f(L), f(s), int(x), int(r), arg_max or ARG_MAX, envs,
        ",".join(str(len(c)) for c in cmd) if cmd else "~", rep,
        ",".join("%d:%s" % (len(w), k) for w, k in toks) if toks else "~", int(ierr),
        ",".join(outs) if outs else "~")


def decode_impl(line):
    parts = line.split(" ")
    if parts[0] in ("panic", "runner-died", "badcase"):
        return parts[0], []
    inv = []
    for p in parts[1:]:
        inv.append([fw.unhex(a) for a in p.split(",")])
    return int(parts[0]), inv


def decode_model(line, cmd, toks, replace=None):
    parts = line.split(" ")
    code = int(parts[0])
    inv = []
    for p in parts[1:]:
        ids = [] if p == "~" else [int(i) for i in p.split(",")]
        if replace is None:
            inv.append(list(cmd) + [toks[i][0] for i in ids])
        else:
            assert len(ids) == 1
            inv.append([cmd[0]] + [a.replace(replace, toks[ids[0]][0]) for a in cmd[1:]])
    return code, inv


def run_impl(lines):
    os.makedirs(ENV["FUV_TMP"], exist_ok=True)
    return fw.run_lines(fw.FUV, lines, env=ENV, clean_env=True)
