"""C06 - xargs never builds a command line the operating system rejects.

(O1) coq/Props/C06.v (relative to the kernel model of ExecLimits.v).  (O2) (i) the kernel model itself is
validated on every run by real execve probes (binary search of the largest accepted argument count for
several argument lengths, stack limits and environments); (ii) the real xargs binary on inputs from a few
to several hundred thousand arguments under several stack limits: no invocation may fail with E2BIG, every
argument must be delivered, and the batch sizes must be those of the XArgs model; (iii) single arguments
around the per-argument limit."""
import os
import resource
import subprocess
import tempfile

from lib import framework as fw
from props import xargs_common as xc

RULE = ("execve probes (stack limit x argument length x environment size) and xargs runs (argument count 1..600000 x length distribution x stack limit "
        "x environment size x -n/-s); non-trivial = distinct run with more than one invocation or a probe at the acceptance boundary")
ASSUMPTIONS = [
    "the kernel rule (ExecLimits.kernel_accepts) is a model of Linux's bprm_stack_limits/copy_strings validated by probes on this kernel, not verified",
    "sysconf(_SC_ARG_MAX) equals the kernel's limit for the stack limit in force (checked by the probes)",
]


def pre(rl):
    def f():
        resource.setrlimit(resource.RLIMIT_STACK, (rl, rl))
    return f


def accepts(rl, n, L, env):
    try:
        subprocess.run(["/bin/true"] + ["a" * L] * n, env=env, preexec_fn=pre(rl), check=False)
        return True
    except OSError:
        return False


def probe(ctx):
    rng = ctx.rng
    configs = [(256 * 1024, 1, 0), (8 << 20, 99, 0), (1 << 20, 7, 300)]
    if ctx.thorough:
        configs += [(64 << 20, 1, 0), (8 << 20, 1, 2000), (256 * 1024, 4000, 0), (1 << 20, 99, 0)]
    for rl, L, envn in configs:
        env = {"V%05d" % i: "val" for i in range(envn)}
        envl = ",".join(str(len(k) + 1 + len(v)) for k, v in env.items()) or "~"
        lo, hi = 0, 3_000_000
        while lo < hi:
            mid = (lo + hi + 1) // 2
            if accepts(rl, mid, L, env):
                lo = mid
            else:
                hi = mid - 1
        real = lo
        # largest n the model accepts: argv = /bin/true + n args
        def model_ok(n):
            # argv[0] is "/bin/true" (9 bytes): fold it into the count by one extra argument of that length is not exact, so ask the model with
            # n arguments of length L and account for argv[0] through fname twice (string + pointer): conservative by construction
            r = fw.run_lines(fw.FUVM, ["limits kernel %d %d %d %s %d" % (rl, n, L, envl, 9 + 9 + 1 + 8)], shards=1)[0]
            if r not in ("0", "1"):
                raise RuntimeError("model runner failed on the kernel probe: %r" % r)
            return r == "1"
        lo, hi = 0, 3_000_000
        while lo < hi:
            mid = (lo + hi + 1) // 2
            if model_ok(mid):
                lo = mid
            else:
                hi = mid - 1
        model = lo
        ctx.count(("probe", rl, L, envn), True, "probe")
        ctx.sample({"stack_limit": rl, "arg_len": L, "env_vars": envn, "kernel_max_args": real, "model_max_args": model})
        if model > real or real - model > 8:
            ctx.violation("kernel model out of line: stack %d, %d-byte args, %d env vars: kernel accepts %d, model %d" % (rl, L, envn, real, model),
                          {"property": "C06", "kind": "kernel-model", "stack_limit": rl, "arg_len": L, "env_vars": envn, "kernel": real, "model": model,
                           "explain": "C06_accepted is relative to ExecLimits.kernel_accepts; the model must never accept what the kernel rejects"})


def probe_script(ctx, td):
    """the kernel model's rule for "#!" scripts (the file name a second time and the interpreter line): the largest argument count the
    kernel accepts for a script reached through a long path, against the model's"""
    deep = os.path.join(td, "sp")
    for _ in range(13):
        deep = os.path.join(deep, "s" * 250)
    os.makedirs(deep)
    script = os.path.join(deep, "scr")
    with open(script, "w") as f:
        f.write("#!/bin/sh\nexit 0\n")
    os.chmod(script, 0o755)
    rl, L = 512 * 1024, 3
    env = {}

    def real_ok(n):
        try:
            subprocess.run(["s"] + ["a" * L] * n, executable=script, env=env, preexec_fn=pre(rl), check=False)
            return True
        except OSError:
            return False

    def model_ok(n):
        # argv = "s" + n arguments; fname = the script's path; shebang = that path once more and "/bin/sh" (each with its NUL)
        sb = len(script) + 1 + len("/bin/sh") + 1
        r = fw.run_lines(fw.FUVM, ["limits kernel %d %d %d ~ %d %d" % (rl, n, L, len(script), sb + 1 + 1 + 8)], shards=1)[0]
        if r not in ("0", "1"):
            raise RuntimeError("model runner failed on the script probe: %r" % r)
        return r == "1"
    res = []
    for ok in (real_ok, model_ok):
        lo, hi = 0, 200000
        while lo < hi:
            mid = (lo + hi + 1) // 2
            if ok(mid):
                lo = mid
            else:
                hi = mid - 1
        res.append(lo)
    real, model = res
    ctx.count(("probe-script", rl, L, len(script)), True, "probe")
    ctx.sample({"script_path_length": len(script), "stack_limit": rl, "kernel_max_args": real, "model_max_args": model})
    if model > real or real - model > 8:
        ctx.violation("kernel model out of line for a #! script with a %d-byte path: kernel accepts %d arguments, model %d" % (len(script), real, model),
                      {"property": "C06", "kind": "kernel-model-script", "path_length": len(script), "kernel": real, "model": model,
                       "explain": "C06_accepted is relative to ExecLimits.kernel_accepts (shebang term); the model must never accept what the kernel rejects"})


def xargs_runs(ctx):
    rng = ctx.rng
    os.makedirs(os.path.join(fw.BUILD, "tmp"), exist_ok=True)
    td = tempfile.mkdtemp(prefix="c06-", dir=os.path.join(fw.BUILD, "tmp"))
    try:
        probe_script(ctx, td)
        cases = [(8 << 20, 400000, [1], 0, []), (256 * 1024, 30000, [1, 2], 0, []), (1 << 20, 5000, [99, 100, 300], 50, [])]
        # an environment that nearly fills the kernel's budget: the room left for arguments is a few hundred bytes to a few KiB
        cases.append((512 * 1024, 300, [30], rng.choice([3219, 3259, 3299, 3319]), []))
        if ctx.thorough:
            cases += [(64 << 20, 600000, [1], 0, []), (512 * 1024, 500, [10, 40], 3309, []), (512 * 1024, 50, [200], 3239, ["-n", "3"]), (8 << 20, 100000, [1, 9, 40], 1000, []), (256 * 1024, 20000, [1], 0, ["-n", "5000"]),
                      (8 << 20, 3000, [4000, 100000], 0, []), (1 << 20, 50000, [3], 10, ["-s", "100000"])]
        else:
            cases.append((rng.choice([256 * 1024, 1 << 20]), rng.choice([1, 2, 1000, 20000]), [1, 50], rng.choice([0, 100]), rng.choice([[], ["-n", "700"]])))
        for rl, count, lens, envn, opts in cases:
            args = [b"a" * rng.choice(lens) for _ in range(count)]
            data = b"\n".join(args) + b"\n"
            rec = os.path.join(td, "rec")
            if os.path.exists(rec):
                os.remove(rec)
            env = dict(xc.ENV, FUV_RECORD=rec)
            env.update({"E%05d" % i: "x" * 20 for i in range(envn)})
            p = subprocess.run([fw.XARGS] + opts + [fw.FUV, "record"], input=data, env=env, preexec_fn=pre(rl),
                               stdout=subprocess.DEVNULL, stderr=subprocess.PIPE, timeout=900)
            sizes, delivered = [], 0
            if os.path.exists(rec):
                for line in open(rec):
                    k = line.count(" ")
                    sizes.append(k)
                    delivered += k
            amax = int(subprocess.run(["getconf", "ARG_MAX"], preexec_fn=pre(rl), capture_output=True).stdout)
            n = int(opts[1]) if opts[:1] == ["-n"] else None
            s = int(opts[1]) if opts[:1] == ["-s"] else None
            cmd = [fw.FUV.encode(), b"record"]
            ref = reference_sizes(args, n, s, env, amax, cmd)
            if count <= 30000:
                toks = [(a, "h") for a in args]
                ml = xc.model_line(n, None, s, False, False, cmd, toks, False, [], env=env, arg_max=amax)
                m = fw.run_lines(fw.FUVM, [ml], shards=1, timeout=900)[0].split(" ")
                msizes = [0 if x == "~" else x.count(",") + 1 for x in m[1:]]
                if msizes != ref:
                    ctx.violation("reference greedy batching (within_limits) disagrees with the XArgs model: %s vs %s" % (ref[:5], msizes[:5]),
                                  {"property": "C06", "kind": "reference-vs-model", "reference": ref[:50], "model": msizes[:50]})
            else:
                # the extracted model appends to the pending batch in linear time per argument; for very large inputs the expected
                # sizes come from the proved characterisation (C04_batching: greedy under within_limits) evaluated directly
                m, msizes = ["0"], ref
            ctx.count(("xargs", rl, count, tuple(lens), envn, tuple(opts)), len(sizes) > 1, ["xargs-run", "invocations=%s" % (len(sizes) if len(sizes) < 3 else "3+")])
            if p.returncode != 0 or delivered != count or sizes != msizes:
                ctx.violation("xargs %s with %d arguments (lengths %s) under stack limit %d, %d extra env vars: exit %d, delivered %d in %s invocations; model: exit %s, %s"
                              % (opts, count, lens, rl, envn, p.returncode, delivered, sizes[:6], m[0], msizes[:6]),
                              {"property": "C06", "kind": "end-to-end", "options": opts, "arguments": count, "lengths": lens, "stack_limit": rl,
                               "env_vars": envn, "exit": p.returncode, "delivered": delivered, "invocation_sizes": sizes[:50],
                               "model_exit": m[0], "model_invocation_sizes": msizes[:50], "stderr": p.stderr.decode("utf-8", "replace")[:300],
                               "reproduce": "ulimit -s %d; yes a | head -%d | xargs %s true" % (rl // 1024, count, " ".join(opts))})
        # the file name the kernel copies when it executes the command counts against the same limit: a command reached through a long
        # path (up to PATH_MAX) with batches that fill the budget
        deep = td
        for _ in range(15):
            deep = os.path.join(deep, "p" * 240)
        os.makedirs(deep)
        cmd = os.path.join(deep, "t")
        shutil_copy = __import__("shutil").copy
        shutil_copy("/bin/true", cmd)
        scr = os.path.join(deep, "scr")
        with open(scr, "w") as f:
            f.write("#!/bin/sh\nexit 0\n")
        os.chmod(scr, 0o755)
        for count, how in ((400000, "path"), (3, "path"), (400000, "script-through-PATH")):
            if how == "path":
                p = subprocess.run([fw.XARGS, cmd], input=b"a\n" * count, env=xc.ENV, stdout=subprocess.DEVNULL, stderr=subprocess.PIPE, timeout=900)
            else:
                # a "#!" script found through PATH: argv[0] is short, the kernel pushes the long file name twice and the interpreter
                p = subprocess.run([fw.XARGS, "scr"], input=b"a\n" * count, env=dict(xc.ENV, PATH=deep + ":" + xc.ENV.get("PATH", "/usr/bin:/bin")),
                                   stdout=subprocess.DEVNULL, stderr=subprocess.PIPE, timeout=900)
            ctx.count(("long-command-path", len(cmd), count, how), True, "long-command-path")
            if p.returncode != 0:
                ctx.violation("xargs CMD with a %d-byte command path and %d one-byte arguments: exit %d (%s)" % (len(cmd), count, p.returncode, p.stderr.decode("utf-8", "replace")[:120]),
                              {"property": "C06", "kind": "long-command-path", "path_length": len(cmd), "arguments": count, "exit": p.returncode,
                               "stderr": p.stderr.decode("utf-8", "replace")[:300]})
        # -I: the command line exists only after the line has been put in; it is that line which must fit (per argument and in total)
        # ... also when -s is given and is not what binds (it counts characters only: the per-argument bound and the pointers are the system's)
        sub_cases = []
        for sopt in (None, 1000000, 200000):
            sub_cases += [(8 << 20, [b"{}{}"], [b"ok", b"z" * 70000, b"after"], sopt),
                          (8 << 20, [b"{}{}"], [b"ok", b"z" * 65535, b"after"], sopt),
                          (8 << 20, [b"x{}"], [b"ok", b"z" * 131071, b"after"], sopt)]
        sub_cases += [(256 * 1024, [b"{}", b"{}", b"{}", b"{}"], [b"ok", b"y" * 15000, b"after"], None),
                      (256 * 1024, [b"{}"] * 40, [b"ok", b"y" * 2900, b"after"], 124000),
                      (256 * 1024, [b"{}", b"{}", b"{}"], [b"ok", b"y" * rng.choice([15000, 1000, 18000]), b"after"], rng.choice([None, 100000]))]
        sub_cases = [c + (b"{}",) for c in sub_cases]
        # the replacement string also occurs in the command word, which is run as written: what the line makes of the arguments must
        # fit, not what it would make of the word (-s exactly at, just below and above the size of the longest command line)
        word = fw.FUV.encode()
        for R in (b"fuv", b"u", word[-5:]):            # (none of them occurs in "record", the word that tells the recorder what to do)
            args = [b"<" + R + b">", R + R]
            longest = 180
            exact = len(word) + 1 + len(b"record") + 1 + sum(len(a.replace(R, b"y" * longest)) + 1 for a in args)
            for sopt in (exact - 1, exact, exact + 40):
                sub_cases.append((8 << 20, args, [b"ok", b"y" * longest, b"after"], sopt, R))
        for rl, cmdargs, lines, sopt, R in sub_cases:
            rec = os.path.join(td, "recI")
            if os.path.exists(rec):
                os.remove(rec)
            env = dict(xc.ENV, FUV_RECORD=rec)
            cmd = [fw.FUV.encode(), b"record"] + cmdargs
            p = subprocess.run([fw.XARGS, "-I", R.decode()] + (["-s", str(sopt)] if sopt else []) + [c.decode() for c in cmd], input=b"\n".join(lines) + b"\n", env=env, preexec_fn=pre(rl),
                               stdout=subprocess.DEVNULL, stderr=subprocess.PIPE, timeout=300)
            runs = sum(1 for _ in open(rec)) if os.path.exists(rec) else 0
            amax = int(subprocess.run(["getconf", "ARG_MAX"], preexec_fn=pre(rl), capture_output=True).stdout)
            toks = [(l, "h") for l in lines]
            m = fw.run_lines(fw.FUVM, [xc.model_line(1, None, sopt, False, False, cmd, toks, False, [], replace=True, env=env, arg_max=amax, repl_R=R)], shards=1)[0].split(" ")
            ctx.count(("substituted", rl, tuple(cmdargs), tuple(len(l) for l in lines), sopt, R), True, ["substituted-line", "model-exit=%s" % m[0], "s=%s" % sopt])
            if p.returncode in (126, 127) or b"too long" in p.stderr or (str(p.returncode), runs) != (m[0], len(m) - 1):
                ctx.violation("xargs -I %s%s CMD %s with lines of %s bytes under stack limit %d: exit %d after %d invocation(s) (%s); model: exit %s after %d"
                              % (R.decode(), " -s %d" % sopt if sopt else "", cmdargs[:4], [len(l) for l in lines], rl, p.returncode, runs, p.stderr.decode("utf-8", "replace")[:100], m[0], len(m) - 1),
                              {"property": "C06", "kind": "substituted-line", "arguments": [c.decode() for c in cmdargs], "line_lengths": [len(l) for l in lines], "replace": R.decode(), "s": sopt,
                               "stack_limit": rl, "exit": p.returncode, "invocations": runs, "model_exit": m[0], "model_invocations": len(m) - 1,
                               "stderr": p.stderr.decode("utf-8", "replace")[:300],
                               "explain": "the substituted command line must be put to the system limits before it is run (C06_substituted_*): the operating system must never be the one that refuses it"})
        # single arguments around the per-argument limit
        for L, exp_rc, exp_runs in ((131071, 0, 1), (131072, 1, 0), (200000, 1, 0), (131070, 0, 1)):
            rec = os.path.join(td, "rec1")
            if os.path.exists(rec):
                os.remove(rec)
            p = subprocess.run([fw.XARGS, fw.FUV, "record"], input=b"b" * L + b"\n", env=dict(xc.ENV, FUV_RECORD=rec),
                               stdout=subprocess.DEVNULL, stderr=subprocess.DEVNULL, timeout=120)
            runs = sum(1 for _ in open(rec)) if os.path.exists(rec) else 0
            ctx.count(("single", L), True, "single-argument")
            if (p.returncode, runs) != (exp_rc, exp_runs):
                ctx.violation("one %d-byte argument: exit %d, %d invocation(s); expected exit %d, %d" % (L, p.returncode, runs, exp_rc, exp_runs),
                              {"property": "C06", "kind": "single-argument", "length": L, "exit": p.returncode, "invocations": runs,
                               "expected_exit": exp_rc, "expected_invocations": exp_runs})
    finally:
        import shutil
        shutil.rmtree(td, ignore_errors=True)


def reference_sizes(args, n, s, env, amax, cmd):
    """greedy batching under within_limits (system clause: 8 bytes per pointer, ARG_MAX - 2048 - (2 * 4096 + 256) - env - 16)"""
    env_size = sum(len(k.encode()) + 1 + len(v.encode()) + 1 + 8 for k, v in env.items())
    sysb = max(0, amax - (2048 + 8448 + env_size + 16))
    base8 = sum(len(c) + 1 + 8 for c in cmd)
    base0 = sum(len(c) + 1 for c in cmd)
    sizes, cur, c8, c0 = [], 0, base8, base0
    for a in args:
        k8, k0 = len(a) + 1 + 8, len(a) + 1
        fits = c8 + k8 <= sysb and (n is None or cur + 1 <= n) and (s is None or c0 + k0 <= s)
        if not fits:
            sizes.append(cur)
            cur, c8, c0 = 0, base8, base0
        cur += 1
        c8 += k8
        c0 += k0
    sizes.append(cur)
    return sizes


def run(ctx):
    probe(ctx)
    xargs_runs(ctx)


def replay(ctx, rep):
    run(ctx)
