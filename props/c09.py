"""C09 - find -exec ... ;: one run per file, {} substituted, argv intact, true iff 0.

(O1) coq/Props/C09.v.  (O2) the real find binary running a recorder program through -exec / -execdir
with templates holding zero to three {} each, on trees of hostile names, against the ExecSingle model
(argv and working directory per file, in visit order); the action's truth and find's own exit status
with children exiting 0 / 1 / 255 / killed / missing; std::path against PathModel."""
import os
import subprocess

from lib import framework as fw
from props import walk_common as wc
from props import xargs_common as xc
from props import names_common as nc
from props import known_common as kc

RULE = ("(tree of hostile names, -exec or -execdir, argument templates with 0-3 occurrences of {}, child exit status, position in the expression) "
        "cases with the real binary and a recorder child; plus (operation, path) pairs for the std::path model; "
        "non-trivial = distinct case with at least one {} in a template")
ASSUMPTIONS = [
    "Command::arg/current_dir/status pass argv and the directory to the child unchanged (observed by the recorder, not modelled)",
    "std::path (file_name, parent, join) is modelled by PathModel and compared on generated strings on every run",
]
TEMPLATES = [b"{}", b"x{}y", b"{}{}", b"pre", b"{}/{}", b"{{}}", b"-o", b"{} {}", b"{", b"}", b"}{", b"a{}b{}c{}", b""]


def path_model_check(ctx):
    rng = ctx.rng
    n = 20000 if ctx.thorough else 3000
    lines = []
    for _ in range(n):
        s = "".join(rng.choice(["/", "/", ".", "a", "b", ".."]) for _ in range(rng.randint(0, 7))).encode()
        t = "".join(rng.choice(["/", ".", "a", "b"]) for _ in range(rng.randint(0, 4))).encode()
        op = rng.choice(["parent", "file_name", "join", "strip_prefix"])
        lines.append("paths %s %s %s" % (op, fw.hexs(s), fw.hexs(t)) if op in ("join", "strip_prefix") else "paths %s %s" % (op, fw.hexs(s)))
    impl = fw.run_lines(fw.FUV, lines)
    model = fw.run_lines(fw.FUVM, lines)
    bad = [(l, i, m) for l, i, m in zip(lines, impl, model) if i != m]
    for l in lines:
        ctx.count(l, False, "pathmodel")
    for l, i, m in bad[:1]:
        ctx.violation("std::path vs PathModel on %s: %s vs %s" % (l, i, m),
                      {"property": "C09", "kind": "pathmodel", "case": l, "std_path": i, "model": m,
                       "explain": "the model of std::path used by the -execdir theorems no longer matches the library"})


def command_word(ctx, forest):
    """{} is replaced in the command word as in the arguments (C09_command_word): the file itself can be the program"""
    d = os.path.join(forest.dir, b"cw")
    os.makedirs(os.path.join(d, b"e"))
    with open(os.path.join(d, b"e", b"s.sh"), "wb") as f:
        f.write(b'#!/bin/sh\nprintf "ran %s" "$0"; for a in "$@"; do printf " <%s>" "$a"; done; echo\n')
    os.chmod(os.path.join(d, b"e", b"s.sh"), 0o755)
    for args, want in ((["e", "-name", "s.sh", "-exec", "{}", "a{}b", ";", "-printf", "T %p\n"], b"ran e/s.sh <ae/s.shb>\nT e/s.sh\n"),
                       (["e", "-name", "s.sh", "-exec", "./{}", "x", ";"], b"ran ./e/s.sh <x>\n"),
                       (["e", "-name", "s.sh", "-execdir", "{}", "{}", ";"], b"ran ./s.sh <./s.sh>\n")):
        p = subprocess.run([fw.FIND] + args, stdout=subprocess.PIPE, stderr=subprocess.PIPE, cwd=d, env=xc.ENV, timeout=60)
        ctx.count(("command-word", tuple(args)), True, "command-word")
        if p.stdout != want or p.returncode != 0:
            ctx.violation("find %s: output %r (exit %d, %s); {} in the command word is the file too: %r" % (" ".join(args), p.stdout, p.returncode, p.stderr[:80], want),
                          {"property": "C09", "kind": "command-word", "find_args": args, "output": p.stdout.decode("utf-8", "replace"), "exit": p.returncode,
                           "stderr": p.stderr.decode("utf-8", "replace")[:200], "expected": want.decode()})


def run(ctx):
    rng = ctx.rng
    path_model_check(ctx)
    forest = wc.Forest("c09-")
    try:
        ncase = 300 if ctx.thorough else 45
        bad = []
        for k in range(ncase):
            nm = b"x%d" % k
            spec = nc.gen_nasty_tree(rng, max_nodes=7, max_depth=2, non_utf8=True)
            forest.add(nm, spec)
            execdir = rng.random() < 0.5
            root = nc.spelled(rng, forest.dir, nm, rng.choice(["{r}", "./{r}", "{r}/", "{abs}"]))
            # a starting point that ends in "..": the entry is named ./.. from its parent directory (depth 0 only)
            dotdot = rng.random() < 0.15
            if dotdot:
                # ... or in ".": named ./. from the directory itself - through a link too, where ./NAME from one level up would be the link
                os.symlink(nm, os.path.join(forest.dir, b"L%d" % k))
                root = rng.choice([nm, nm, b"L%d" % k]) + rng.choice([b"/..", b"/../", b"/./..", b"/.", b"/./", b"//."])
            tmpls = [rng.choice(TEMPLATES) for _ in range(rng.randint(0, 4))]
            status = rng.choice(["0", "0", "1", "255", "kill"])
            rec = os.path.join(forest.dir, b"rec%d" % k)
            env = dict(xc.ENV, FUV_RECORD=rec.decode(), FUV_EXIT=status)
            flag = "-execdir" if execdir else "-exec"
            args = [fw.FIND, root.decode("utf-8", "surrogateescape")] + (["-maxdepth", "0"] if dotdot else []) + ["-sorted", flag, fw.FUV, "record"] + \
                   [t.decode("utf-8", "surrogateescape") for t in tmpls] + [";", "-print0"]
            p = subprocess.run(args, stdout=subprocess.PIPE, stderr=subprocess.DEVNULL, cwd=forest.dir, env=env, timeout=300)
            got = []
            if os.path.exists(rec):
                for line in open(rec):
                    parts = line.split()
                    got.append((fw.unhex(parts[0]), [fw.unhex(x) for x in parts[1:]]))
                os.remove(rec)
            visits = [nc.join_ref(root, list(names)) for names in nc.listing(spec)] if not dotdot else [root]
            ml = ["paths exec %d %s %s %s" % (int(execdir), fw.hexs(fw.FUV.encode()), xc.hexlist([b"record"] + tmpls), fw.hexs(v)) for v in visits]
            mout = fw.run_lines(fw.FUVM, ml, shards=1)
            exp = []
            for v, m in zip(visits, mout):
                argv_s, cwd_s = m.split(" ")
                argv = [fw.unhex(x) for x in argv_s.split(",")][2:]    # the recorder logs what follows "record"
                cwd = forest.dir if cwd_s == "none" else os.path.realpath(os.path.join(forest.dir, fw.unhex(cwd_s)))
                exp.append((cwd, argv))
            got_n = [(os.path.realpath(c), a) for c, a in got]
            printed = p.stdout.split(b"\0")[:-1]
            exp_printed = visits if status == "0" else []
            ctx.count((nm, root, tuple(tmpls), execdir, status, ctx.seed), any(b"{}" in t for t in tmpls),
                      ["execdir=%d" % execdir, "status=" + status, "templates=%d" % len(tmpls)])
            def valid_utf8(b):
                try:
                    b.decode("utf-8")
                    return True
                except UnicodeDecodeError:
                    return False
            if not all(valid_utf8(v) for v in visits):
                # -print0 renders names that are not UTF-8 lossily (outside C07's domain): compare the number of entries printed only
                printed, exp_printed = len(printed), len(exp_printed)
            if got_n != exp or printed != exp_printed or p.returncode != 0:
                bad.append((args, got_n, exp, printed, exp_printed, p.returncode, spec))
        # a command that cannot be found: the action is false, find's status is unaffected
        p = subprocess.run([fw.FIND, ".", "-maxdepth", "0", "-exec", "/nonexistent/cmd", "{}", ";", "-print"], stdout=subprocess.PIPE,
                           stderr=subprocess.DEVNULL, cwd=forest.dir, env=xc.ENV)
        ctx.count(("missing-command",), True, "missing-command")
        if p.stdout != b"" or p.returncode != 0:
            bad.append((["-exec /nonexistent/cmd"], p.stdout, b"", [], [], p.returncode, ("f", 0)))
        # the same when the diagnostic cannot be written (standard error on a full device): the action is false for every file, the
        # walk goes on and find's status is unaffected
        with open("/dev/full", "wb") as full:
            p = subprocess.run([fw.FIND, ".", "-maxdepth", "1", "-exec", "/nonexistent/cmd", "{}", ";", "-o", "-printf", "F"], stdout=subprocess.PIPE,
                               stderr=full, cwd=forest.dir, env=xc.ENV)
        nent = 1 + len(os.listdir(forest.dir))
        ctx.count(("missing-command-stderr-full",), True, "missing-command")
        if p.stdout != b"F" * nent or p.returncode != 0:
            bad.append((["-exec /nonexistent/cmd (stderr full)"], p.stdout, b"F" * nent, [], [], p.returncode, ("f", 0)))
        for args, got_n, exp, printed, exp_printed, rc, spec in bad[:2]:
            first = next(((a, b) for a, b in zip(list(got_n) + [None], list(exp) + [None]) if a != b), None) if isinstance(got_n, list) else None
            if isinstance(printed, int):
                printed, exp_printed = [b"%d entries" % printed], [b"%d entries" % exp_printed]
            ctx.violation("%s: exit %s; first differing invocation (got, expected): %r; printed %r expected %r" % (args[1:], rc, first, printed[:4], exp_printed[:4]),
                          {"property": "C09", "kind": "end-to-end", "command": args[1:], "tree": wc.spec_json(spec), "exit": rc,
                           "invocations": [[c.decode("utf-8", "replace"), [fw.hexs(x) for x in a]] for c, a in got_n] if isinstance(got_n, list) else None,
                           "expected": [[c.decode("utf-8", "replace"), [fw.hexs(x) for x in a]] for c, a in exp] if isinstance(exp, list) else None,
                           "printed": [fw.hexs(x) for x in printed], "expected_printed": [fw.hexs(x) for x in exp_printed]})
        command_word(ctx, forest)
        kc.argv_not_utf8_find(ctx, "C09", forest.dir, "template")
        ctx.sample({"templates": [t.decode() for t in TEMPLATES[:6]]})
    finally:
        forest.close()


def replay(ctx, rep):
    run(ctx)
