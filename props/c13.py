"""C13 - find type/perm/owner/link tests are functions of the right stat record.

(O1) coq/Props/C13.v.  (O2) find_main in-process on a sandbox holding every creatable file type (regular,
directory, fifo, socket, links to each, dangling and self-referential links, hard links), chmod over
sampled permission values, chown to arbitrary ids, under -P/-H/-L, each entry both as a starting point
(depth 0) and below one; expected verdicts from os.lstat/os.stat records selected as the property says
(cross-checked against the Entry model's selection) and mode_bits_match from the Numeric model."""
import os
import socket
import stat

from lib import framework as fw
from props import walk_common as wc
from props import xargs_common as xc

RULE = ("(entry, follow mode, depth 0 or 1, test) cases: tests -type/-xtype x 7 letters, -perm in the three forms x sampled modes (octal and symbolic "
        "spellings), -links/-inum/-uid/-gid N, -user/-group, -empty, -samefile, -lname; non-trivial = distinct case on an entry that is a symbolic link "
        "or has special permission bits")
ASSUMPTIONS = [
    "os.lstat / os.stat report the records Metadata exposes",
    "uucore::mode's symbolic parser is exercised (octal and symbolic spellings must select the same files), not modelled",
    "block and character devices are not created (mknod needs privileges the sandbox may lack); their letters are exercised on /dev/null as a starting point",
]
LETTER = {stat.S_IFREG: "f", stat.S_IFDIR: "d", stat.S_IFLNK: "l", stat.S_IFBLK: "b", stat.S_IFCHR: "c", stat.S_IFIFO: "p", stat.S_IFSOCK: "s"}


def sym_of(mode):
    def part(who, bits, special, sch):
        s = "".join(ch for ch, b in zip("rwx", (4, 2, 1)) if bits & b)
        if special:
            s += sch
        return "%s=%s" % (who, s)
    return ",".join([part("u", (mode >> 6) & 7, mode & 0o4000, "s"), part("g", (mode >> 3) & 7, mode & 0o2000, "s"),
                     part("o", mode & 7, mode & 0o1000, "t")])


def chmod_symbolic(spec, isdir=False):
    """POSIX chmod symbolic mode evaluated from mode 0 with umask 0 (an independent reference)"""
    mode = 0
    for clause in spec.split(","):
        i = 0
        who = 0
        while i < len(clause) and clause[i] in "ugoa":
            who |= {"u": 0o4700, "g": 0o2070, "o": 0o1007, "a": 0o7777}[clause[i]]
            i += 1
        if who == 0:
            who = 0o7777
        while i < len(clause):
            op = clause[i]
            i += 1
            bits = 0
            if i < len(clause) and clause[i] in "ugo":
                src = {"u": (mode >> 6) & 7, "g": (mode >> 3) & 7, "o": mode & 7}[clause[i]]
                bits = (src << 6) | (src << 3) | src
                i += 1
            else:
                while i < len(clause) and clause[i] in "rwxXst":
                    ch = clause[i]
                    if ch == "r":
                        bits |= 0o444
                    elif ch == "w":
                        bits |= 0o222
                    elif ch == "x":
                        bits |= 0o111
                    elif ch == "X":
                        if isdir or (mode & 0o111):
                            bits |= 0o111
                    elif ch == "s":
                        bits |= 0o6000
                    elif ch == "t":
                        bits |= 0o1000
                    i += 1
            bits &= who
            if op == "+":
                mode |= bits
            elif op == "-":
                mode &= ~bits
            else:
                # '=' clears the selected classes' rwx (and their special bit) before setting; for a directory chmod keeps
                # the set-id bits that are already there
                if isdir:
                    bits |= mode & 0o6000 & who
                mode = (mode & ~who) | bits
    return mode & 0o7777


def perm_operand(fn, rec):
    """the twelve bits a -perm operand stands for on this entry: a symbolic mode is read as chmod reads it, for a directory or not"""
    return fn[3] if len(fn) > 3 and stat.S_ISDIR(rec.st_mode) else fn[2]


def gen_symbolic(rng):
    """a multi-clause symbolic mode whose later clauses remove, re-assign or copy bits of earlier ones"""
    clauses = []
    for _ in range(rng.randint(2, 4)):
        who = "".join(rng.sample("ugo", rng.randint(1, 3))) if rng.random() < 0.8 else "a"
        op = rng.choice("+-==")
        if rng.random() < 0.2:
            perm = rng.choice("ugo")
        else:
            perm = "".join(rng.sample("rwx", rng.randint(0, 3)))
            if rng.random() < 0.35:
                # X and the set-id bits read differently for a directory (chmod semantics): checked on directory entries
                perm += rng.choice(["X", "X", "s", "t", "Xs"])
        clauses.append(who + op + perm)
    return ",".join(clauses)


def build(d, rng):
    r = os.path.join(d, "r")
    os.mkdir(r)
    ents = {}
    modes = [0o644, 0o755, 0o000, 0o4755, 0o2750, 0o1777, 0o7777, 0o600, 0o111, 0o444, 0o020, 0o4000, 0o2001] + [rng.randrange(4096) for _ in range(6)]
    for i, m in enumerate(modes):
        p = os.path.join(r, "m%02d" % i)
        with open(p, "wb") as f:
            f.write(b"x" * (i % 3))
        os.chmod(p, m)
    os.mkdir(os.path.join(r, "dir"))
    open(os.path.join(r, "dir", "inside"), "wb").close()
    os.mkdir(os.path.join(r, "emptydir"))
    os.chmod(os.path.join(r, "emptydir"), 0o2775)
    os.mkfifo(os.path.join(r, "fifo"))
    s = socket.socket(socket.AF_UNIX)
    s.bind(os.path.join(r, "sock"))
    s.close()
    open(os.path.join(r, "empty"), "wb").close()
    for tgt in ("m00", "dir", "emptydir", "fifo", "sock", "empty", "nowhere", "self"):
        os.symlink(tgt if tgt != "self" else "lself", os.path.join(r, "l" + tgt))
    os.symlink("lm00", os.path.join(r, "ll"))       # link to a link
    os.link(os.path.join(r, "m01"), os.path.join(r, "hard1"))
    os.link(os.path.join(r, "m01"), os.path.join(r, "hard2"))
    for k, (u, g) in enumerate([(12345, 54321), (1, 0), (0, 2)]):
        p = os.path.join(r, "own%d" % k)
        open(p, "wb").close()
        os.chown(p, u, g)
    os.symlink("own0", os.path.join(r, "lown0"))            # root's link to a file of an owner without a passwd entry
    os.symlink("m00", os.path.join(r, "lchown"))            # a link of such an owner to root's file
    os.lchown(os.path.join(r, "lchown"), 12345, 54321)
    return sorted(os.listdir(r))


def view(path):
    lst = os.lstat(path)
    try:
        st = os.stat(path)
        sres = ("ok", st)
    except FileNotFoundError:
        sres = ("nf", None)
    except NotADirectoryError:
        sres = ("nf", None)
    except OSError:
        sres = ("err", None)
    return lst, sres


def spec_record(mode, depth, lst, sres, xtype=False):
    """the property's reading; returns the os.stat_result or None"""
    resolve = sres[1] if sres[0] == "ok" else (lst if sres[0] == "nf" else None)
    follow = mode == "L" or (mode == "H" and depth == 0)
    if xtype:
        follow = not follow
    return resolve if follow else lst


def run(ctx):
    rng = ctx.rng
    forest = wc.Forest("c13-")
    try:
        names = build(forest.dir.decode(), rng)
        r = os.path.join(forest.dir.decode(), "r")
        views = {n: view(os.path.join(r, n)) for n in names}
        # model's record selection against the property's reading
        ml, keys = [], []
        for n, (lst, sres) in views.items():
            for mode in "PHL":
                for depth in (0, 1):
                    st = "nf" if sres[0] == "nf" else "err" if sres[0] == "err" else "ok:" + LETTER[stat.S_IFMT(sres[1].st_mode)]
                    ml.append("entry %s %d %s %s" % (mode, depth, LETTER[stat.S_IFMT(lst.st_mode)], st))
                    keys.append((n, mode, depth))
        mout = fw.run_lines(fw.FUVM, ml)
        for (n, mode, depth), m in zip(keys, mout):
            lst, sres = views[n]
            seen, xt, ln = m.split(" ")
            for which, xflag in ((seen, False), (xt, True)):
                rec = spec_record(mode, depth, lst, sres, xflag)
                islnk = stat.S_ISLNK(lst.st_mode)
                want = "none" if rec is None else ("stat" if (rec is not lst and islnk) else "lstat")
                if not islnk and which in ("stat", "lstat"):
                    continue
                if sres[0] == "err" and xflag:
                    continue   # -xtype on a link loop: outside the theorem's guard
                if which != want:
                    ctx.violation("Entry model selects %s for %s (mode %s depth %d, xtype=%s); the property names %s" % (which, n, mode, depth, xflag, want),
                                  {"property": "C13", "kind": "model-vs-reference", "entry": n, "mode": mode, "depth": depth})
        # tests
        tests = []
        for t in "fdlbcps":
            tests.append((["-type", t], lambda rec, lst, t=t: rec is not None and LETTER[stat.S_IFMT(rec.st_mode)] == t, False))
            tests.append((["-xtype", t], lambda rec, lst, t=t: rec is not None and LETTER[stat.S_IFMT(rec.st_mode)] == t, True))
        pm = [0, 0o644, 0o755, 0o4000, 0o2000, 0o1000, 0o7777, 0o111, 0o020, 0o4755, 0o001] + [rng.randrange(4096) for _ in range(10 if ctx.thorough else 3)]
        perm_cases = []
        for m in pm:
            for pre, kind in (("", "exact"), ("-", "all"), ("/", "any")):
                for spelling in ("%o" % m, sym_of(m)):
                    perm_cases.append((pre + spelling, kind, m))
        for op, kind, m in perm_cases:
            tests.append((["-perm", op], ("perm", kind, m), False))
        # symbolic operands with subtracting / re-assigning / copying clauses, against the octal value the reference evaluator gives
        for _ in range(60 if ctx.thorough else 14):
            sym = gen_symbolic(rng)
            pre, kind = rng.choice([("", "exact"), ("-", "all"), ("/", "any")])
            tests.append((["-perm", pre + sym], ("perm", kind, chmod_symbolic(sym), chmod_symbolic(sym, True)), False, "keep"))
        for sym in ("a+X", "u=rwX,go=rX", "u+s,u=r", "a=X"):
            pre, kind = rng.choice([("", "exact"), ("-", "all"), ("/", "any")])
            tests.append((["-perm", pre + sym], ("perm", kind, chmod_symbolic(sym), chmod_symbolic(sym, True)), False, "keep"))
        for flag, fn in (("-links", lambda s: s.st_nlink), ("-inum", lambda s: s.st_ino), ("-uid", lambda s: s.st_uid), ("-gid", lambda s: s.st_gid)):
            vals = sorted({fn(v[0]) for v in views.values()})[:5]
            for v in vals:
                for sign, cmp in (("", lambda a, b: a == b), ("+", lambda a, b: a > b), ("-", lambda a, b: a < b)):
                    tests.append(([flag, "%s%d" % (sign, v)], lambda rec, lst, fn=fn, v=v, cmp=cmp: rec is not None and cmp(fn(rec), v), False))
        tests.append((["-user", "root"], lambda rec, lst: rec is not None and rec.st_uid == 0, False))
        tests.append((["-group", "root"], lambda rec, lst: rec is not None and rec.st_gid == 0, False))
        tests.append((["-user", "12345"], lambda rec, lst: rec is not None and rec.st_uid == 12345, False))
        tests.append((["-group", "54321"], lambda rec, lst: rec is not None and rec.st_gid == 54321, False))
        # -nouser / -nogroup: the same record (6fb0baf: they used to reject every symbolic link)
        import pwd
        import grp

        def unknown(getter, ident):
            try:
                getter(ident)
                return False
            except KeyError:
                return True
        tests.append((["-nouser"], lambda rec, lst: rec is not None and unknown(pwd.getpwuid, rec.st_uid), False, "keep"))
        tests.append((["-nogroup"], lambda rec, lst: rec is not None and unknown(grp.getgrgid, rec.st_gid), False, "keep"))
        tests.append((["-lname", "*"], lambda rec, lst: rec is not None and stat.S_ISLNK(rec.st_mode), False))
        for ref in ("m01", "lm00", "dir"):
            tests.append((["-samefile", "r/" + ref], ("samefile", ref), False))
        tests.append((["-empty"], "empty", False))
        if not ctx.thorough:
            head = [t for t in tests if t[0][0] in ("-type", "-xtype", "-lname", "-empty", "-samefile") or len(t) == 4]
            rest = [t for t in tests if t not in head]
            rng.shuffle(rest)
            tests = head + rest[:60]
        cases = []
        for t in tests:
            args, fn, xflag = t[:3]
            for mode in "PHL":
                cases.append((mode, 1, ["r"], args, fn, xflag))
                # every entry as a starting point of its own (depth 0)
                cases.append((mode, 0, ["r/" + n for n in names], args, fn, xflag))
        il = []
        for mode, depth, roots, args, fn, xflag in cases:
            a = ["-" + mode] + roots + (["-mindepth", "1", "-maxdepth", "1"] if depth == 1 else ["-maxdepth", "0"]) + args + ["-printf", "%f\\0"]
            il.append("find - %s %s" % (fw.hexs(forest.dir), xc.hexlist([x.encode() for x in a])))
        impl = xc.run_impl(il)
        # perm verdicts from the Numeric model
        perm_lines, perm_keys = [], {}
        for mode, depth, roots, args, fn, xflag in cases:
            if isinstance(fn, tuple) and fn[0] == "perm":
                for n in names:
                    rec = spec_record(mode, depth, *views[n])
                    if rec is not None:
                        key = (fn[1], perm_operand(fn, rec), rec.st_mode)
                        if key not in perm_keys:
                            perm_keys[key] = len(perm_lines)
                            perm_lines.append("num perm %s %d %d" % (fn[1], key[1], rec.st_mode))
        perm_out = fw.run_lines(fw.FUVM, perm_lines)
        bad = []
        for (mode, depth, roots, args, fn, xflag), i in zip(cases, impl):
            code, out, err = wc.decode_find(i)
            got = set(out.split(b"\0")[:-1])
            exp = set()
            skip = False
            for n in names:
                lst, sres = views[n]
                rec = spec_record(mode, depth, lst, sres, xflag)
                follow = mode == "L" or (mode == "H" and depth == 0)
                if sres[0] == "err" and (follow or xflag):
                    # a link loop: diagnosed instead of visited when followed; -xtype l matches it (GNU 4.10); leave it out of the comparison
                    got.discard(n.encode())
                    continue
                if isinstance(fn, tuple) and fn[0] == "perm":
                    ok = rec is not None and perm_out[perm_keys[(fn[1], perm_operand(fn, rec), rec.st_mode)]] == "1"
                elif isinstance(fn, tuple) and fn[0] == "samefile":
                    rl, rs = views[fn[1]]
                    refrec = rs[1] if (mode != "P" and rs[0] == "ok") else rl
                    ok = rec is not None and (rec.st_dev, rec.st_ino) == (refrec.st_dev, refrec.st_ino)
                elif fn == "empty":
                    if rec is None:
                        ok = False
                    elif stat.S_ISREG(rec.st_mode):
                        ok = rec.st_size == 0
                    elif stat.S_ISDIR(rec.st_mode):
                        ok = len(os.listdir(os.path.join(r, n))) == 0
                    else:
                        ok = False
                else:
                    ok = fn(rec, lst)
                if ok:
                    exp.add(n.encode())
                islnk = stat.S_ISLNK(lst.st_mode)
                ctx.count((mode, depth, tuple(args), n), islnk or (lst.st_mode & 0o7000) != 0, ["mode=" + mode, "depth=%d" % depth, args[0]])
            if got != exp:
                bad.append((mode, depth, args, sorted(got ^ exp), sorted(got), sorted(exp)))
        ctx.sample({"entries": names[:12], "example_test": ["-H", "r/ldir", "-maxdepth", "0", "-type", "d"]})
        for mode, depth, args, diff, got, exp in bad[:3]:
            ctx.violation("find -%s (entries at depth %d) %s: differs on %s" % (mode, depth, " ".join(args), [x.decode() for x in diff]),
                          {"property": "C13", "kind": "correspondence", "mode": mode, "depth": depth, "test": args,
                           "differs_on": [x.decode() for x in diff], "implementation": [x.decode() for x in got], "expected": [x.decode() for x in exp],
                           "explain": "C13_record / C13_xtype_opposite / C13_lname_only_unresolved / C13_perm_* fix the verdict from the selected record",
                           "total_disagreements": len(bad)})
        unreadable_record(ctx)
        perm_prefix_octal(ctx, forest)
    finally:
        forest.close()


def unreadable_record(ctx):
    """the tests are functions of a status record: where the record cannot be read (as an unprivileged user: the entries of a directory
    that may be listed but not searched, a link into it, a directory that may not be read for -empty) no test is true for the entry, and
    that does not pass silently - it is named in a diagnostic and the exit status is 1"""
    import shutil
    import subprocess
    import tempfile
    from props import known_common as kc
    os.makedirs(os.path.join(fw.BUILD, "tmp"), exist_ok=True)
    d = tempfile.mkdtemp(prefix="c13u-", dir=os.path.join(fw.BUILD, "tmp"))
    try:
        os.makedirs(os.path.join(d, "r", "nox", "sub"))
        os.makedirs(os.path.join(d, "e1"))
        open(os.path.join(d, "r", "nox", "f"), "wb").close()
        os.symlink("nox/f", os.path.join(d, "r", "l2"))
        open(os.path.join(d, "ref"), "wb").close()
        os.makedirs(os.path.join(d, "r", "nox2"))
        os.symlink("f", os.path.join(d, "r", "nox2", "l"))
        os.chmod(d, 0o755)
        pre = kc.unprivileged(d.encode())
        if pre is None:
            ctx.notes.append("unreadable_record: no unprivileged user available here, scenario skipped")
            return
        os.chmod(os.path.join(d, "r", "nox"), 0o444)
        os.chmod(os.path.join(d, "r", "nox2"), 0o444)
        os.chmod(os.path.join(d, "e1"), 0o311)
        rows = [(["r/l2", "(", "-xtype", "f", "-o", "-xtype", "l", "-o", "-xtype", "d", ")"], "r/l2"),
                (["r/nox", "-mindepth", "1", "-nouser"], "r/nox/f"), (["r/nox", "-mindepth", "1", "-nogroup"], "r/nox/sub"),
                (["r/nox", "-mindepth", "1", "(", "-user", "0", "-o", "!", "-user", "0", ")", "-links", "+0"], "r/nox/f"),
                (["e1", "-maxdepth", "0", "-empty"], "e1"),
                (["r/nox", "-mindepth", "1", "-samefile", "ref"], "r/nox/sub"), (["r/nox2", "-mindepth", "1", "-lname", "f"], "r/nox2/l")]
        rows = [r + (True,) for r in rows]
        # under a negation the entry is listed (the test was false), but not without the diagnostic and the exit status
        rows += [(["r/nox", "-mindepth", "1", "!", "-samefile", "ref"], "r/nox/f", False), (["r/nox2", "-mindepth", "1", "!", "-lname", "f"], "r/nox2/l", False)]
        for args, entry, unlisted in rows:
            p = subprocess.run(pre + [fw.FIND] + args, stdout=subprocess.PIPE, stderr=subprocess.PIPE, cwd=d, env=xc.ENV, timeout=60)
            ctx.count(("unreadable-record", tuple(args)), True, "unreadable-record")
            listed = unlisted and entry.encode() in p.stdout.split(b"\n")
            if listed or p.returncode != 1 or entry.encode() not in p.stderr:
                ctx.violation("find %s as an unprivileged user: %s %s, exit %d, diagnostics %r; its status cannot be read: not matched, diagnosed, exit 1"
                              % (" ".join(args), entry, "is listed" if listed else "is not listed", p.returncode, p.stderr[:120]),
                              {"property": "C13", "kind": "unreadable-record", "find_args": args, "entry": entry, "exit": p.returncode,
                               "stdout": p.stdout.decode("utf-8", "replace"), "stderr": p.stderr.decode("utf-8", "replace")[:300]})
    finally:
        for sub in (("r", "nox"), ("r", "nox2"), ("e1",)):
            try:
                os.chmod(os.path.join(d, *sub), 0o755)
            except OSError:
                pass
        shutil.rmtree(d, ignore_errors=True)


def perm_prefix_octal(ctx, forest):
    """-perm -MODE and /MODE for MODE written as chmod writes a number built up from nothing: +OCTAL (the bare +OCTAL is the old
    spelling of /OCTAL and is refused); two operators before the number are refused, not read as a sign"""
    d = os.path.join(forest.dir, b"pp")
    os.mkdir(d)
    for name, mode in ((b"a", 0o644), (b"b", 0o600), (b"c", 0o004)):
        open(os.path.join(d, name), "wb").close()
        os.chmod(os.path.join(d, name), mode)
    for op, want in (("-+644", [b"pp/a"]), ("/+044", [b"pp/a", b"pp/c"]), ("-+0", [b"pp/a", b"pp/b", b"pp/c"]), ("-=600", [b"pp/a", b"pp/b"]),
                     ("+644", None), ("--+4", None), ("-+-4", None), ("/=+4", None), ("+644,u+x", None),
                     # an octal number with an operator is a clause like any other
                     ("=644,u+x", []), ("=600,g+r,+4", [b"pp/a"]), ("-u+r,+4", [b"pp/a"]), ("/=0,+40", [b"pp/a"]), ("u=rw,=4", [b"pp/c"]), ("-=4,-4", [b"pp/a", b"pp/b", b"pp/c"])):
        line = "find - %s %s" % (fw.hexs(forest.dir), xc.hexlist([b"pp", b"-type", b"f", b"-perm", op.encode(), b"-print0"]))
        code, out, err = wc.decode_find(xc.run_impl([line])[0])
        got = sorted(out.split(b"\0")[:-1])
        ctx.count(("perm-prefix-octal", op), True, "perm-prefix-octal")
        ok = (code == 1 and got == []) if want is None else (code == 0 and got == sorted(want))
        if not ok:
            ctx.violation("find pp -type f -perm %s: exit %s, matched %r; expected %s" % (op, code, got, "to be refused" if want is None else sorted(want)),
                          {"property": "C13", "kind": "perm-prefix-octal", "operand": op, "exit": str(code), "matched": [g.decode() for g in got]})


def replay(ctx, rep):
    run(ctx)
