"""Trees with hostile names (C07, C09, C18) and helpers to run find on them."""
import os

from lib import framework as fw
from lib import fstree
from props import walk_common as wc
from props import xargs_common as xc

NASTY = [b" ", b"  ", b"-n", b"-print", b"a b", b"a\nb", b"\n", b"'q'", b'"dq"', b"{}", b"$(id)", b"*", b"?", b"[x]", b"\\", b"a\\b",
         "é".encode(), "日本".encode(), b"x" * 200, b".h", b"..x", b"a;b", b"|", b"&", b"~", b"%p", b"\\n", b"\t", b"#", b"!", b"(", b")", b",",
         b"-", b"--", b"{} {}", b"a{}b"]
NON_UTF8 = [b"caf\xe9", b"\xff\xfe", b"a\x80b", b"\xc3(", b"x\xe2\x82"]
SPELL = ["{r}", "./{r}", "{r}/", "{r}//", "{r}/.", "./{r}/", "{abs}", "{abs}/", ".//{r}"]


def gen_nasty_tree(rng, max_nodes=12, max_depth=3, non_utf8=False):
    count = [1]
    pool = NASTY + (NON_UTF8 * 3 if non_utf8 else [])

    def mk(depth):
        ch = {}
        for nm in rng.sample(pool, rng.choice([1, 2, 3, 4])):
            if count[0] >= max_nodes:
                break
            count[0] += 1
            if rng.random() < 0.4 and depth < max_depth:
                ch[nm] = mk(depth + 1)
            else:
                ch[nm] = ("f", 0)
        return ("d", ch)
    return mk(0)


def listing(spec, names=()):
    """pre-order listing with byte-wise sorted siblings: list of name tuples"""
    out = [names]
    if spec[0] == "d":
        for nm in sorted(spec[1]):
            out += listing(spec[1][nm], names + (nm,))
    return out


def spelled(rng, forest_dir, rootname, which=None):
    s = which or rng.choice(SPELL)
    return s.format(r=rootname.decode(), abs=os.path.join(forest_dir.decode(), rootname.decode())).encode()


def join_ref(root, names):
    """the property's reading: starting point as given, '/'-joined names below it"""
    if not names:
        return root
    return root + (b"" if root.endswith(b"/") else b"/") + b"/".join(names)


def find_line(cwd, args):
    return "find - %s %s" % (fw.hexs(cwd), xc.hexlist(args))
