"""C08 - find -exec ... {} +: each path delivered once, in order, within OS limits.

(O1) coq/Props/C08.v.  (O2) the real find binary with a recorder child through -exec/-execdir ... {} +
on trees of long names (several batches under a 256 KiB stack limit, which shrinks ARG_MAX to 128 KiB),
tests before the action, -quit after it, scripted failing invocations, against the ExecMulti model with
argmax's budget computed by the model from ARG_MAX, the environment and the fixed arguments."""
import os
import resource
import subprocess

from lib import framework as fw
from props import walk_common as wc
from props import xargs_common as xc
from props import names_common as nc

RULE = ("(tree with long names, -exec or -execdir, fixed arguments, test before the action, optional -quit, failing invocation numbers, stack limit) cases "
        "with the real binary; non-trivial = distinct case with at least two invocations")
ASSUMPTIONS = [
    "argmax 0.3.1's accounting is modelled from its source (ExecLimits.argmax_budget, 8+len+1 per argument; find_budget = that less MultiExecMatcher's own reserve) and compared through the batch boundaries observed",
    "sysconf(_SC_ARG_MAX) under the stack limit of the run is read with getconf in the same setting",
    "every path fits into an otherwise empty command line (the theorem's guard); longer single paths are not generated",
]


def arg_max(rl):
    def pre():
        resource.setrlimit(resource.RLIMIT_STACK, (rl, rl))
    return int(subprocess.run(["getconf", "ARG_MAX"], preexec_fn=pre, capture_output=True).stdout)


def gen_long_tree(rng, nfiles, ndirs):
    ch = {}
    dirs = []
    for d in range(ndirs):
        nm = (b"d%02d_" % d) + b"x" * rng.choice([5, 60, 180])
        sub = {}
        rng.choice(dirs + [ch, ch])[nm] = ("d", sub)        # nested now and then: leaving several directories at once
        dirs.append(sub)
    for i in range(nfiles):
        nm = (b"f%05d_" % i) + b"y" * rng.choice([3, 100, 200, 230])
        tgt = rng.choice(dirs + [ch])
        tgt[nm] = ("f", 0)
    if rng.random() < 0.5:
        ch[b"Q"] = ("f", 0)
    return ("d", ch)


def run(ctx):
    rng = ctx.rng
    forest = wc.Forest("c08-")
    try:
        ncase = 100 if ctx.thorough else 20
        bad = []
        for k in range(ncase):
            nm = b"m%d" % k
            big = rng.random() < 0.5
            spec = gen_long_tree(rng, rng.choice([600, 1200, 2500]) if big else rng.choice([0, 1, 5, 12, 30]), rng.choice([0, 1, 3, 6]))
            forest.add(nm, spec)
            execdir = rng.random() < 0.5
            rl = rng.choice([256 * 1024, 256 * 1024, 1 << 20]) if big else 8 << 20
            fixed = [b"record"] + [rng.choice([b"-a", b"fixed arg", b"x" * 50]) for _ in range(rng.randint(0, 2))]
            test = rng.choice([[], [], ["-type", "f"], ["-name", "f*"]])
            quit_at = rng.random() < 0.25
            nfail = rng.choice([0, 1, 1, 2])
            root = nc.spelled(rng, forest.dir, nm, rng.choice(["{r}", "./{r}", "{r}/"]))
            rec = os.path.join(forest.dir, b"rec%d" % k)
            # the model's view
            visits = [(names, nc.join_ref(root, list(names))) for names in nc.listing(spec)]
            if quit_at and test != ["-name", "f*"]:      # behind -name f* the -quit is never reached (Q does not match)
                cut = next((i for i, (names, p_) in enumerate(visits) if names and names[-1] == b"Q"), None)
                if cut is not None:
                    visits = visits[:cut + 1]
            parents, entries, handed = {}, [], {}
            for i, (names, path) in enumerate(visits):
                par = os.path.dirname(path.rstrip(b"/")) if names else os.path.dirname(path.rstrip(b"/"))
                # Path::parent of the path as spelled
                par = fw.unhex(fw.run_lines(fw.FUVM, ["paths parent %s" % fw.hexs(path)], shards=1)[0]) if not names else nc.join_ref(root, list(names[:-1]))
                pid = parents.setdefault(par, len(parents) + 1)
                isfile = names != () and (lambda s: s)(True)
                kind = "d"
                node = spec
                for n_ in names:
                    node = node[1][n_]
                kind = node[0]
                reached = True
                if test == ["-type", "f"]:
                    reached = kind == "f"
                elif test == ["-name", "f*"]:
                    reached = bool(names) and names[-1].startswith(b"f")
                if execdir:
                    base = names[-1] if names else os.path.basename(path.rstrip(b"/"))
                    h = b"./" + base
                else:
                    h = path
                handed[i + 1] = (h, par)
                entries.append("%d:%d:%d:%d:%d" % (i + 1, 8 + len(h) + 1, int(len(h) <= 131071), pid, int(reached)))
            # which invocations fail: numbers below the number of invocations the model predicts, so that every kind of
            # dispatch (overflow inside matches, leaving a directory mid-walk, the final flush) meets a failing command
            amax = arg_max(rl)

            def budget_for(failing):
                env_ = dict(xc.ENV, FUV_RECORD=rec.decode(), FUV_EXIT_MAP=",".join("%d:3" % i for i in failing))
                envs_ = ",".join("%d:%d" % (len(k_.encode()), len(v_.encode())) for k_, v_ in env_.items())
                return env_, int(fw.run_lines(fw.FUVM, ["limits find_budget %d %s %d %s" % (amax, envs_, len(fw.FUV), ",".join(str(len(f)) for f in fixed))], shards=1)[0])
            env, budget = budget_for(list(range(nfail)))
            m0 = fw.run_lines(fw.FUVM, ["execm %d %d ~ %s" % (int(execdir), budget, ",".join(entries) if entries else "~")], shards=1)[0].split(" ")
            nruns = min(len(m0) - 2, 10)
            failing = sorted(rng.sample(range(nruns), min(nfail, nruns))) if rng.random() < 0.8 else sorted(rng.sample(range(6), nfail))
            env, budget = budget_for(failing)
            flag = "-execdir" if execdir else "-exec"
            args = [fw.FIND, root.decode(), "-sorted"] + test + [flag, fw.FUV] + [f.decode() for f in fixed] + ["{}", "+"]
            if quit_at:
                args += ["-name", "Q", "-quit"]

            def pre(rl=rl):
                resource.setrlimit(resource.RLIMIT_STACK, (rl, rl))
            p = subprocess.run(args, stdout=subprocess.DEVNULL, stderr=subprocess.DEVNULL, cwd=forest.dir, env=env, preexec_fn=pre, timeout=600)
            got = []
            if os.path.exists(rec):
                for line in open(rec):
                    parts = line.split()
                    argv = [fw.unhex(x) for x in parts[1:]]
                    if argv[:len(fixed) - 1] != fixed[1:]:
                        # "after the fixed arguments": they come first, unchanged, in every invocation
                        got.append((b"<fixed arguments changed>", argv[:len(fixed) + 1]))
                        continue
                    got.append((os.path.normpath(fw.unhex(parts[0])), argv[len(fixed) - 1:]))
                os.remove(rec)
            m = fw.run_lines(fw.FUVM, ["execm %d %d %s %s" % (int(execdir), budget, ",".join(map(str, failing)) if failing else "~",
                                                             ",".join(entries) if entries else "~")], shards=1)[0].split(" ")
            mfailed, mpending, mruns = m[0] == "1", m[1] == "1", m[2:]
            rev_par = {v: k_ for k_, v in parents.items()}
            exp = []
            for r in mruns:
                cwd, ids = r.split(":")
                ids = [int(x) for x in ids.split(".")] if ids else []
                if cwd == "-":
                    cdir = forest.dir
                else:
                    cdir = os.path.normpath(os.path.join(forest.dir, rev_par[int(cwd)])) if rev_par[int(cwd)] != b"" else forest.dir
                exp.append((cdir if execdir else forest.dir, [handed[i][0] for i in ids]))
            ctx.count((nm, tuple(args), rl, ctx.seed), len(exp) >= 2, ["execdir=%d" % execdir, "invocations=%s" % (len(exp) if len(exp) < 4 else "4+"),
                                                                        "quit=%d" % quit_at, "failing=%d" % len(failing)])
            exp_rc = 1 if mfailed else 0
            if got != exp or p.returncode != exp_rc or mpending:
                bad.append((args, rl, got, exp, p.returncode, exp_rc))
        root_directory(ctx, forest)
        no_empty_batch(ctx, forest)
        script_on_long_path(ctx, forest)
        cannot_start(ctx, forest)
        ctx.sample({"example_command": "find ROOT -sorted -type f -execdir fuv record fixed {} + -name Q -quit", "stack_limit": 262144})
        for args, rl, got, exp, rc, exp_rc in bad[:2]:
            first = next(((i, a, b) for i, (a, b) in enumerate(zip(got + [None], exp + [None])) if a != b), None)
            desc = None
            if first:
                i, a, b = first
                desc = {"invocation": i, "got_cwd": a[0].decode() if a else None, "expected_cwd": b[0].decode() if b else None,
                        "got_nargs": len(a[1]) if a else None, "expected_nargs": len(b[1]) if b else None,
                        "got_first_last": [a[1][0].decode("utf-8", "replace")[:60], a[1][-1].decode("utf-8", "replace")[:60]] if a and a[1] else None,
                        "expected_first_last": [b[1][0].decode("utf-8", "replace")[:60], b[1][-1].decode("utf-8", "replace")[:60]] if b and b[1] else None}
            ctx.violation("%s (stack limit %d): %d invocations, exit %d; model %d invocations, exit %d; first difference %s"
                          % (" ".join(args[1:6]) + " ...", rl, len(got), rc, len(exp), exp_rc, desc),
                          {"property": "C08", "kind": "end-to-end", "command": args[1:], "stack_limit": rl, "invocations": len(got), "exit": rc,
                           "expected_invocations": len(exp), "expected_exit": exp_rc, "first_difference": desc,
                           "explain": "C08_run fixes the invocations of the model (each reached path once, in order, single directory per -execdir run, nothing pending, exit status)"})
    finally:
        forest.close()


def no_empty_batch(ctx, forest):
    """CMD is run on paths: when the fixed arguments leave no room for a path, that path is diagnosed (exit 1) and CMD is not run with the
    fixed arguments alone.  Empty environment and an 8 MiB stack, so that only the argument vector decides the limits."""
    import resource
    d = os.path.join(forest.dir, b"neb")
    os.makedirs(os.path.join(d, b"tree"))
    for n in (b"f", b"g" * 200):
        open(os.path.join(d, b"tree", n), "wb").close()
    with open(os.path.join(d, b"rec"), "w") as f:
        f.write("#!/bin/sh\necho \"run $#\"\n")
    os.chmod(os.path.join(d, b"rec"), 0o755)
    fixed = ["a" * 131000] * 15
    for bl in range(124000, 126001, 100):
        p = subprocess.run([fw.FIND, "tree", "-type", "f", "-exec", "./rec"] + fixed + ["b" * bl, "{}", "+"], stdout=subprocess.PIPE, stderr=subprocess.PIPE,
                           cwd=d, env={}, timeout=120, preexec_fn=lambda: resource.setrlimit(resource.RLIMIT_STACK, (8 << 20, 8 << 20)))
        runs = [int(l.split()[1]) for l in p.stdout.decode().splitlines() if l.startswith("run ")]
        ctx.count(("no-empty-batch", bl), any(r != 18 for r in runs) or p.returncode != 0, "no-empty-batch")
        if any(r <= 16 for r in runs) or b"panicked" in p.stderr or p.returncode not in (0, 1):
            ctx.violation("find tree -type f -exec ./rec <15 x 131000 bytes> <%d bytes> {} +: invocations with %s arguments (16 are fixed), exit %d: CMD was run without a path"
                          % (bl, runs, p.returncode),
                          {"property": "C08", "kind": "no-empty-batch", "last_fixed_argument_bytes": bl, "argument_counts": runs, "exit": p.returncode,
                           "stderr": p.stderr.decode("utf-8", "replace")[:200]})
            return


def root_directory(ctx, forest):
    """-execdir ... {} + on the starting point "/" (an entry without a parent directory): run, from "/", not dropped and not merged
    into the batch of the next starting point"""
    os.mkdir(os.path.join(forest.dir, b"rt"))
    os.mkdir(os.path.join(forest.dir, b"rt", b"in"))
    os.symlink(b"rt", os.path.join(forest.dir, b"rl"))
    rt = os.path.join(forest.dir, b"rt")
    for args, want in (([b"/", b"-maxdepth", b"1", b"(", b"-name", b"tmp", b"-o", b"-name", b"/", b")"], [(b"/", [b"/"]), (b"/", [b"./tmp"])]),
                       # the directory and the name are taken from the path as spelled: "rl/." is "./." in rl (not "./rl", the link, one level up)
                       ([b"rl/.", b"-maxdepth", b"0"], [(rt, [b"./."])]), ([b"rt/.", b"-sorted"], [(rt, [b"./."]), (rt, [b"./in"])]),
                       ([b"rt/in/..", b"-maxdepth", b"0"], [(os.path.join(rt, b"in"), [b"./.."])]),
                       ([b"/", b"-maxdepth", b"0"], [(b"/", [b"/"])]),
                       # -depth: "/" comes after its entries, and is still not one of them (C08_own_directory_alone)
                       ([b"/", b"-depth", b"-sorted", b"-maxdepth", b"1", b"(", b"-name", b"tmp", b"-o", b"-name", b"/", b"-o", b"-name", b"etc", b")"],
                        [(b"/", [b"./etc", b"./tmp"]), (b"/", [b"/"])]),
                       ([b"rt", b"/", b"-maxdepth", b"0"], [(forest.dir, [b"./rt"]), (b"/", [b"/"])]),
                       ([b"/", b"rt", b"-maxdepth", b"0"], [(b"/", [b"/"]), (forest.dir, [b"./rt"])])):
        rec = os.path.join(forest.dir, b"recroot")
        if os.path.exists(rec):
            os.remove(rec)
        env = dict(xc.ENV, FUV_RECORD=rec.decode())
        p = subprocess.run([fw.FIND.encode()] + args + [b"-execdir", fw.FUV.encode(), b"record", b"{}", b"+"], stdout=subprocess.DEVNULL,
                           stderr=subprocess.DEVNULL, cwd=forest.dir, env=env, timeout=60)
        got = []
        if os.path.exists(rec):
            for line in open(rec):
                parts = line.split()
                got.append((os.path.realpath(fw.unhex(parts[0])), [fw.unhex(x) for x in parts[1:]]))
        ctx.count(("root-directory", tuple(args)), True, "root-directory")
        if got != [(os.path.realpath(c), a) for c, a in want] or p.returncode != 0:
            ctx.violation("find %s -execdir CMD {} +: invocations %r (exit %d); expected %r" % (b" ".join(args).decode(), got, p.returncode, want),
                          {"property": "C08", "kind": "root-directory", "find_args": [a.decode() for a in args], "exit": p.returncode,
                           "invocations": [[c.decode(), [x.decode() for x in a]] for c, a in got]})


def cannot_start(ctx, forest):
    """the exit status is non-zero also when an invocation cannot be started at all (no such command; a file that is not executable)"""
    d = os.path.join(forest.dir, b"cs")
    os.makedirs(os.path.join(d, b"t"))
    for n in (b"a", b"b"):
        open(os.path.join(d, b"t", n), "wb").close()
    open(os.path.join(d, b"notexec"), "wb").close()
    for flag in ("-exec", "-execdir"):
        for cmd in ("/nonexistent/cmd", os.path.join(d, b"notexec").decode()):
            args = ["t", "-type", "f", flag, cmd, "{}", "+", "-print0"]
            p = subprocess.run([fw.FIND] + args, stdout=subprocess.PIPE, stderr=subprocess.PIPE, cwd=d, env=xc.ENV, timeout=60)
            ctx.count(("cannot-start", flag, cmd), True, "cannot-start")
            # the action itself is true (the entries are still printed), the run fails
            if p.returncode == 0 or sorted(p.stdout.split(b"\0")[:-1]) != [b"t/a", b"t/b"] or not p.stderr:
                ctx.violation("find t -type f %s %s {} + -print0: exit %d, printed %r, diagnostic %r; expected a non-zero exit status, both entries and a diagnostic"
                              % (flag, cmd, p.returncode, p.stdout, p.stderr[:100]),
                              {"property": "C08", "kind": "cannot-start", "action": flag, "command": cmd, "exit": p.returncode,
                               "stdout": p.stdout.decode("utf-8", "replace"), "stderr": p.stderr.decode("utf-8", "replace")[:300]})


def script_on_long_path(ctx, forest):
    """every invocation is accepted by the operating system also when CMD is a '#!' script found through a PATH directory whose name is
    thousands of bytes long: the kernel charges that file name (twice for a script) to the same limit as the arguments"""
    import resource
    d = os.path.join(forest.dir, b"slp")
    os.makedirs(os.path.join(d, b"tree"))
    names = [(b"f%04d" % i) + b"y" * 190 for i in range(900)]
    for n in names:
        open(os.path.join(d, b"tree", n), "wb").close()
    long_dir = d
    while len(long_dir) + 241 < 3900:
        long_dir = os.path.join(long_dir, b"q" * 240)
    os.makedirs(long_dir)
    rec = os.path.join(d, b"rec")
    with open(os.path.join(long_dir, b"cntlong"), "wb") as f:
        f.write(b"#!/bin/sh\nexec " + fw.FUV.encode() + b' record "$@"\n')
    os.chmod(os.path.join(long_dir, b"cntlong"), 0o755)
    env = dict(xc.ENV, FUV_RECORD=rec.decode())
    env["PATH"] = long_dir.decode() + ":" + env.get("PATH", "/usr/bin:/bin")

    def pre():
        resource.setrlimit(resource.RLIMIT_STACK, (256 * 1024, 256 * 1024))
    for flag in ("-exec", "-execdir"):
        if os.path.exists(rec):
            os.remove(rec)
        args = ["tree", "-sorted", "-type", "f", flag, "cntlong", "{}", "+"]
        p = subprocess.run([fw.FIND] + args, stdout=subprocess.DEVNULL, stderr=subprocess.PIPE, cwd=d, env=env, preexec_fn=pre, timeout=120)
        got, runs = [], 0
        if os.path.exists(rec):
            for line in open(rec):
                runs += 1
                got += [fw.unhex(x) for x in line.split()[1:]]
        want = [(b"./" if flag == "-execdir" else b"tree/") + n for n in sorted(names)]
        ctx.count(("script-on-long-path", flag), True, ["script-on-long-path", "invocations=%d" % runs])
        if got != want or p.returncode != 0:
            ctx.violation("find tree -type f %s cntlong {} + with cntlong a '#!' script in a PATH directory of %d bytes (stack limit 256 KiB): %d of %d paths delivered in %d invocations, exit %d: %s"
                          % (flag, len(long_dir), len(got), len(want), runs, p.returncode, p.stderr.decode("utf-8", "replace")[:120]),
                          {"property": "C08", "kind": "script-on-long-path", "action": flag, "path_directory_bytes": len(long_dir), "delivered": len(got),
                           "expected": len(want), "invocations": runs, "exit": p.returncode, "stderr": p.stderr.decode("utf-8", "replace")[:300]})


def replay(ctx, rep):
    run(ctx)
