"""C11 - find command line: malformed input rejected before any action; never a panic.

(O1) coq/Props/C11.v (with the table of primaries regenerated from mod.rs).  (O2) find_main in-process under
catch_unwind, and the real binary for a sample (aborts, hangs): token sequences over the full vocabulary of
primaries, operators and parentheses with operands drawn from valid values, near-misses and arbitrary
strings, against the Args model (accept / reject); a rejected command line must leave the sandbox and the
standard output untouched; no case may panic.  Trees with entries owned by ids without passwd/group
entries and entries removed by an earlier action exercise the actions' totality."""
import os
import subprocess

from lib import framework as fw
from props import walk_common as wc
from props import xargs_common as xc
from props import c10
from tools import extract_tables

RULE = ("argument vectors of 1-14 tokens: grammar sentences over all primaries with valid operands, and mutations of them (token deleted, inserted, "
        "replaced, operand replaced by a near-miss or arbitrary string, vector truncated), plus junk; non-trivial = distinct vector the model rejects, "
        "or accepts with at least three tokens")
ASSUMPTIONS = [
    "operand validity for glob/regex/mode/date/user/group/file operands is the harness's knowledge of a fixed operand pool (oracle of the Args model); "
    "numeric operands, -size, -type, -printf, -regextype, -mindepth/-maxdepth are decided by the extracted validators",
    "freedom from panics and hangs outside the generated vectors and trees is not established",
    "-fprint*/-fls create their output file while the command line is parsed (as GNU find does); such targets are outside the sandbox snapshot",
]
GLOBS = ["x", "*", "[", "a\\", "", "é", "[[:alpha:]", "[[:a]"]
POOLS = {
    "glob": (GLOBS, []),
    "regex": (["a", ".*", "a*b"], ["["]),
    "perm": (["644", "-644", "/222", "u=rwx", "-u+w,g-x", "0", "7777", "+x", "=7", "--7"], ["999", "u=z", "8", "rwx", "77777", " 644", "644 ", "- 644", "+644", "+07", "\t644"]),
    "file": (["ref", "."], ["missing", "ref/none"]),
    "user": (["root", "0", "12345"], ["nosuchuser_x", "+0", "+00000", " 0"]),
    "any": (["ext4", "x"], []),
    "outfile": (["/dev/null"], ["/nonexistent_dir_x/out"]),
    "date": (["jan 01, 2025", "jan 01, 2025 10:00:00", "jan 01", ""], ["notadate", "٢٠٢٥", "jan 01, ٢٠٢٥", ", 2025", ", 2025 10:00:00", "jan 01, 2025 23:59:60"]),
}
KIND_OF = {}
for n in ("-name", "-iname", "-path", "-ipath", "-wholename", "-iwholename", "-lname", "-ilname"):
    KIND_OF[n] = "glob"
for n in ("-regex", "-iregex"):
    KIND_OF[n] = "regex"
KIND_OF.update({"-perm": "perm", "-newer": "file", "-samefile": "file", "-files0-from": "file", "-user": "user", "-group": "user", "-fstype": "any",
                "-fprint": "outfile", "-fprint0": "outfile", "-fls": "outfile"})
MODELLED = {
    "num": (["1", "+1", "-1", "0", "007", "18446744073709551615"], ["x", "+", "1k", "", "1 ", "18446744073709551616", "٣"]),
    "-size": (["1k", "+2M", "-3", "0c", "5w", "1G", "7b"], ["10x", "k", "", "1kk", "abc10k", "1K"]),
    "-type": (["f", "d", "l", "p", "s", "b", "c"], ["x", "fd", "", "D", "F"]),
    "-printf": (["%p\\n", "%5d|%-3f", "abc", "%%", "\\101", "é%p", "%H/%P", "\\c", "%AH", "%T@", "\\101é", "\\1é", "%.3p", "%10.5d|%-4.f", "%.0m"],
                ["\\q", "%", "abc\\", "\\é", "%é", "%99999999999999999999p", "%A", "%5", "\\12é", "\\1€", "%Aé", "\\0😀", "%{", "a%[b", "%5(x)",
                 # a format that ends inside a directive behind the "." of a precision
                 "%5.", "%.", "%.5", "%-.5", "x%5.3", "%.99999999999p", "%.3A"]),
    "depth": (["0", "3", "2", "10"], ["-1", "x", "", "1.5", "+2", "+0"]),
    "-regextype": (["emacs", "posix-extended", "grep", "sed", "ed", "posix-basic"], ["bogus", "", "EMACS"]),
}
NUMERIC = ["-links", "-inum", "-uid", "-gid", "-mtime", "-atime", "-ctime", "-mmin", "-amin", "-cmin"]


def pool_for(name):
    if name in NUMERIC:
        return MODELLED["num"]
    if name in ("-xtype",):
        return MODELLED["-type"]
    if name in ("-mindepth", "-maxdepth"):
        return MODELLED["depth"]
    if name in MODELLED:
        return MODELLED[name]
    if name in KIND_OF:
        return POOLS[KIND_OF[name]]
    return None


def build_sandbox(d):
    os.makedirs(os.path.join(d, "sb", "sub"))
    for n in ("ref", "sb/a", "sb/sub/b"):
        open(os.path.join(d, n), "wb").close()
    os.symlink("a", os.path.join(d, "sb", "l"))
    os.chown(os.path.join(d, "sb", "a"), 54321, 54321)


class G:
    def __init__(self, rng, prims):
        self.rng = rng
        self.prims = prims            # name -> (arity, kind)
        self.names = sorted(n for n in prims if n not in ("-delete", "-files0-from"))
        self.oracle = set()
        self.nxy = set()

    def primary(self, want_valid=True):
        rng = self.rng
        r = rng.random()
        if r < 0.08:
            exe = rng.choice(["true", "echo"])
            form = rng.choice([[";"], ["{}", ";"], ["x{}y", "{}", ";"], ["{}", "+"]])
            flag = rng.choice(["-exec", "-execdir"])
            return [flag, exe] + form
        if r < 0.13:
            x, y = rng.choice("acm"), rng.choice("acmt")
            flag = "-newer" + x + y
            self.nxy.add(flag)
            vals = POOLS["date"] if y == "t" else POOLS["file"]
            return [flag, rng.choice(vals[0])]
        name = rng.choice(self.names)
        arity, kind = self.prims[name]
        ops = []
        if name == "-fprintf":
            return [name, rng.choice(POOLS["outfile"][0]), rng.choice(MODELLED["-printf"][0])]
        for _ in range(arity):
            pool = pool_for(name)
            ops.append(rng.choice(pool[0]) if pool else "x")
        return [name] + ops

    def unit(self, d):
        rng = self.rng
        r = rng.random()
        if r < 0.15:
            return [rng.choice(["!", "-not"])] + self.unit(d)
        if r < 0.35 and d > 0:
            return ["("] + self.seq(d - 1) + [")"]
        return self.primary()

    def conj(self, d):
        t = self.unit(d)
        while self.rng.random() < 0.4:
            op = self.rng.choice([[], [], ["-a"], ["-and"]])
            t = t + op + self.unit(d)
        return t

    def disj(self, d):
        t = self.conj(d)
        while self.rng.random() < 0.3:
            t = t + [self.rng.choice(["-o", "-or"])] + self.conj(d)
        return t

    def seq(self, d):
        t = self.disj(d)
        while self.rng.random() < 0.15:
            t = t + [","] + self.disj(d)
        return t

    def random_operand(self, name):
        """an arbitrary string for a primary whose operand the extracted validators decide (-printf, numeric tests, -size, -type, depth, -regextype)"""
        rng = self.rng
        if name in ("-printf", "-fprintf"):
            alpha = ["%", "%", "\\", "\\", "0", "1", "2", "7", "8", "a", "p", "d", "-", " ", "5", "é", "€", "😀", "A", "T", "@", "c", "n", "H", "q", "9", "{", "[", "("]
            return "".join(rng.choice(alpha) for _ in range(rng.randint(1, 7)))
        if name in NUMERIC or name in ("-mindepth", "-maxdepth"):
            return "".join(rng.choice(["+", "-", "0", "1", "9", "k", " ", "٣", "x", ""]) for _ in range(rng.randint(0, 4)))
        if name == "-size":
            return "".join(rng.choice(["+", "-", "0", "1", "9", "k", "M", "G", "c", "w", "b", "K", "x", " "]) for _ in range(rng.randint(0, 4)))
        if name in ("-type", "-xtype"):
            return "".join(rng.choice("fdlbcpsDx,") for _ in range(rng.randint(0, 2)))
        return rng.choice(["emacs", "sed", "posix", "posix-", "grep ", "ed"])

    def mutate(self, argv):
        rng = self.rng
        argv = list(argv)
        for _ in range(rng.choice([1, 1, 2])):
            k = rng.random()
            junk = ["-bogus", "x", "-", "--", "-a", "-o", ",", "!", "(", ")", "-name", "-size", "-printf", "-exec", ";", "+", "{}", "-type", "-prune",
                    "-quit", "-newerzz", "-newermt", "-delete", "-perm", "-regextype", "-fprintf", "-maxdepth", "", "-print", "-true"]
            if k < 0.3 and argv:
                del argv[rng.randrange(len(argv))]
            elif k < 0.55:
                argv.insert(rng.randint(0, len(argv)), rng.choice(junk))
            elif k < 0.7 and argv:
                argv = argv[:rng.randint(0, len(argv) - 1)]
            elif argv:
                # replace the operand of some primary by an invalid or arbitrary value
                idx = [i for i, a in enumerate(argv[:-1]) if pool_for(a) and pool_for(a)[1]]
                if idx:
                    i = rng.choice(idx)
                    name = argv[i]
                    if (name in MODELLED or name in NUMERIC or name in ("-xtype", "-mindepth", "-maxdepth", "-fprintf")) and rng.random() < 0.6:
                        argv[i + 1 if name != "-fprintf" else min(i + 2, len(argv) - 1)] = self.random_operand(name)
                    else:
                        argv[i + 1] = rng.choice(pool_for(argv[i])[1])
                else:
                    argv.insert(rng.randint(0, len(argv)), rng.choice(junk))
        return argv


def is_newerxy(a):
    return a.startswith("-newer") and len(a) == 8 and a[6] in "acm" and a[7] in "acmt"


def collect_queries(argv):
    """(kind, primary, operand) for every primary of the vector followed by a token it might take as operand"""
    q = []
    for i, a in enumerate(argv[:-1]):
        op = argv[i + 1]
        if a in KIND_OF:
            q.append((KIND_OF[a], a, op))
        elif a == "-fprintf":
            q.append(("outfile", "-fprint", op))
        elif is_newerxy(a):
            q.append(("date" if a[7] == "t" else "file", a, op))
    return q


class Oracle:
    """operand validity from sources independent of findutils: Oniguruma and uucore (through the harness), the file system, the passwd/group databases"""

    def __init__(self, cwd):
        self.cwd = cwd
        self.cache = {}

    def resolve(self, queries):
        need = [q for q in set(queries) if q not in self.cache]
        lines, keys = [], []
        import pwd
        import grp
        for kind, prim, op in need:
            # the listed operands are the specification (each confirmed against the documentation and GNU find): they are not put to the
            # oracles below, which for -perm and regular expressions ask the same libraries the implementation uses
            if kind in POOLS and kind not in ("file", "outfile", "user") and (op in POOLS[kind][0] or op in POOLS[kind][1]):
                self.cache[(kind, prim, op)] = op in POOLS[kind][0]
            elif kind in ("glob", "any"):
                self.cache[(kind, prim, op)] = True
            elif kind == "regex":
                for ty in ("emacs", "grep", "posix-basic", "posix-extended"):
                    lines.append("oracle regex %s %s" % (ty, fw.hexs(op.encode())))
                    keys.append((kind, prim, op, ty))
            elif kind == "perm":
                lines.append("oracle perm %s" % fw.hexs(op.encode()))
                keys.append((kind, prim, op, None))
            elif kind == "file":
                self.cache[(kind, prim, op)] = op != "" and os.path.lexists(os.path.join(self.cwd, op)) if prim != "-files0-from" else \
                    (op != "-" and os.path.isfile(os.path.join(self.cwd, op)))
            elif kind == "user":
                ok = False
                if op != "":
                    try:
                        (pwd.getpwnam if prim == "-user" else grp.getgrnam)(op)
                        ok = True
                    except KeyError:
                        ok = op.isascii() and op.isdigit() and int(op) < 2 ** 32          # decimal digits only
                self.cache[(kind, prim, op)] = ok
            elif kind == "outfile":
                d = os.path.dirname(os.path.join(self.cwd, op))
                self.cache[(kind, prim, op)] = op != "" and os.path.isdir(d) and not os.path.isdir(os.path.join(self.cwd, op))
            elif kind == "date":
                # only the listed spellings are decided here: the date grammar (words such as "yesterday", the empty string = today) belongs to the
                # date parser and the property does not fix it; any other operand makes the vector unusable as a rejection witness
                self.cache[(kind, prim, op)] = True if op in POOLS["date"][0] else False if op in POOLS["date"][1] else None
        if lines:
            out = fw.run_lines(fw.FUV, lines)
            acc = {}
            for k, o in zip(keys, out):
                acc.setdefault(k[:3], []).append(o == "1")
            for k, v in acc.items():
                # regex validity must not depend on the syntax in force, otherwise the vector is not used
                self.cache[k] = v[0] if all(x == v[0] for x in v) else None

    def pairs(self, argv):
        """valid (primary|operands) keys for the model's oracle table; None when some needed answer is unknown"""
        out = set()
        for kind, prim, op in collect_queries(argv):
            v = self.cache[(kind, prim, op)]
            if v is None:
                return None
            if v:
                out.add(fw.hexs(prim.encode()) + "|" + fw.hexs(op.encode()))
        for i, a in enumerate(argv):
            if a in ("-exec", "-execdir"):
                for j in range(i + 1, len(argv) + 1):
                    out.add("|".join([fw.hexs(a.encode())] + [fw.hexs(x.encode()) for x in argv[i + 1:j]]))
        return out


def run(ctx):
    rng = ctx.rng
    T, miss = extract_tables.extract(fw.REPO)
    prims = {n: (a, k) for n, a, k in T["primaries"]}
    forest = wc.Forest("c11-")
    try:
        build_sandbox(forest.dir.decode())
        sb = os.path.join(forest.dir.decode(), "sb")
        g = G(rng, prims)
        n = 40000 if ctx.thorough else 2500
        vectors = []
        for k in range(n):
            argv = g.seq(rng.choice([0, 1, 2, 3]))
            r = rng.random()
            if r < 0.55:
                argv = g.mutate(argv)
            elif r < 0.6:
                argv = [rng.choice(["-bogus", "-", "x", ")", ",", "-a", "!", "-newerXY", "-exec", "(", "-printf"])
                        for _ in range(rng.randint(1, 5))]
            elif r < 0.66:
                # an operator left dangling directly before a closing parenthesis, with more of the expression after it
                argv = ["("] + g.seq(rng.choice([0, 1])) + [rng.choice(["-o", "-a", ",", "!", "-not", "-or", "-and"]), ")"] + g.seq(rng.choice([0, 1, 1, 2]))
            if len(argv) > 14:
                argv = argv[:14]
            # output files are created while the command line is parsed: keep their targets to /dev/null or an uncreatable path, so that
            # no vector changes what a later vector's file operands refer to
            for i, a in enumerate(argv[:-1]):
                if a in ("-fprint", "-fprint0", "-fls", "-fprintf") and argv[i + 1] not in ("/dev/null", "/nonexistent_dir_x/out"):
                    argv[i + 1] = rng.choice(["/dev/null", "/dev/null", "/nonexistent_dir_x/out"])
            # the expression must not start with something parse_args takes as a starting point
            if not argv or not (argv[0].startswith("-") and argv[0] != "-" or argv[0] in ("(", "!")):
                argv = ["-true"] + argv
            # keep destructive actions out of vectors the model accepts: decided after the model ran
            vectors.append(argv)
        orc = Oracle(forest.dir.decode())
        orc.resolve([q for argv in vectors for q in collect_queries(argv)])
        usable = []
        ml = []
        for argv in vectors:
            pairs = orc.pairs(argv)
            if pairs is None or "-regextype" in argv and any(a in ("-regex", "-iregex") for a in argv) and False:
                continue
            nxy = [a for a in set(argv) if is_newerxy(a)]
            usable.append(argv)
            ml.append("args %s %s %s" % (xc.hexlist([a.encode() for a in argv]), ";".join(sorted(pairs)) if pairs else "~",
                                         xc.hexlist([a.encode() for a in nxy])))
        vectors = usable
        model = fw.run_lines(fw.FUVM, ml)
        # run: accepted vectors containing -delete or an -exec that changes things are skipped
        il, idx = [], []
        mark = os.path.join(forest.dir.decode(), "executed.mark")
        marker_cmd = os.path.join(forest.dir.decode(), "leave-a-mark")
        with open(marker_cmd, "w") as f:
            f.write("#!/bin/sh\necho \"$0 $*\" >> '%s'\n" % mark)
        os.chmod(marker_cmd, 0o755)
        for k, (argv, m) in enumerate(zip(vectors, model)):
            if m == "accept" and "-delete" in argv:
                continue
            run_argv = list(argv)
            if m == "reject":
                # "before any file is ... executed upon": in a vector that must be rejected the command of every -exec/-execdir is a
                # script that leaves a mark
                for j, a in enumerate(run_argv[:-1]):
                    if a in ("-exec", "-execdir") and run_argv[j + 1] in ("true", "echo"):
                        run_argv[j + 1] = marker_cmd
            il.append("find - %s %s" % (fw.hexs(forest.dir), xc.hexlist([b"sb"] + [a.encode() for a in run_argv])))
            idx.append(k)
        before = c10.snapshot(sb.encode())
        impl = xc.run_impl(il)
        after = c10.snapshot(sb.encode())
        bad = []
        if os.path.exists(mark):
            bad.append(("a command was executed by a vector that is not a sentence of the grammar: %r" % open(mark).read()[:200], [], "", ""))
        if before != after:
            bad.append(("sandbox changed during the runs (some rejected vector had an effect, or an accepted one was destructive)", [], "", ""))
        for k, i in zip(idx, impl):
            argv, m = vectors[k], model[k]
            code, out, err = wc.decode_find(i)
            rejected = (code not in (0, "panic")) and out == b"" and err.startswith(b"Error:")
            ctx.count(tuple(argv), m == "reject" or len(argv) >= 3, ["model=" + m, "len=%s" % (len(argv) if len(argv) < 8 else "8+")])
            if code in ("panic", "runner-died"):
                bad.append(("the implementation panicked", argv, m, err.decode("utf-8", "replace")[:200]))
            elif m == "reject" and not rejected:
                bad.append(("a command line that is not a sentence of the grammar was not rejected (exit %s, %d bytes of output)" % (code, len(out)), argv, m,
                            err.decode("utf-8", "replace")[:200]))
            elif m == "accept" and rejected and b"Error: " in err and (b"expression" in err or b"argument" in err or b"Unrecognized" in err or b"Expected" in err or b"nvalid" in err):
                bad.append(("the model accepts what the implementation rejects (model or operand pool out of date)", argv, m, err.decode("utf-8", "replace")[:200]))
        ctx.sample({"accepted_example": next((v for v, m in zip(vectors, model) if m == "accept" and len(v) > 4), None),
                    "rejected_example": next((v for v, m in zip(vectors, model) if m == "reject" and len(v) > 3), None)})
        seen = set()
        for what, argv, m, err in bad:
            if what in seen:
                continue
            seen.add(what)
            ctx.violation("find sb %s: %s [%s]" % (" ".join(argv), what, err),
                          {"property": "C11", "kind": "correspondence", "what": what, "find_args": ["sb"] + argv, "model": m, "stderr": err,
                           "explain": "C11_reject_malformed and the rejection lemmas fix which vectors are sentences; a panic is a violation whatever the model says",
                           "total_of_this_kind": sum(1 for b in bad if b[0] == what)})
        binary_sample(ctx, forest, vectors, model)
        action_totality(ctx, forest)
        known(ctx, forest)
        printf_widths(ctx, forest)
        ordinary_status(ctx, forest)
        unwritable_everywhere(ctx, forest)
        regex_operands(ctx, forest)
        regex_generated(ctx, forest)
        bracket_units(ctx, forest)
        regex_classes(ctx)
        regex_intervals(ctx)
        regex_refs(ctx)
        fprintf_keeps_file(ctx, forest)
        panic_inventory(ctx)
    finally:
        forest.close()


def binary_sample(ctx, forest, vectors, model):
    """the real binary: exit status is an ordinary one (no abort: 101/134, no hang)"""
    rng = ctx.rng
    n = 400 if ctx.thorough else 50
    for argv, m in rng.sample(list(zip(vectors, model)), min(n, len(vectors))):
        if "-delete" in argv or "" in argv and False:
            continue
        try:
            p = subprocess.run([fw.FIND, "sb"] + argv, cwd=forest.dir, stdout=subprocess.DEVNULL, stderr=subprocess.DEVNULL, timeout=20, env=xc.ENV)
            rc = p.returncode
        except subprocess.TimeoutExpired:
            rc = "timeout"
        except ValueError:
            continue     # an argument with an embedded NUL cannot be passed
        ctx.count(("bin", tuple(argv)), True, "binary")
        if rc not in (0, 1):
            ctx.violation("find sb %s: exit %s" % (" ".join(argv), rc), {"property": "C11", "kind": "binary", "find_args": ["sb"] + argv, "exit": rc})
            break


def action_totality(ctx, forest):
    """actions on entries owned by ids without passwd/group entry, and on entries removed by an earlier action"""
    d = os.path.join(forest.dir.decode(), "act")
    os.makedirs(d)
    for k, (u, gid) in enumerate([(54321, 54321), (4294967294, 65533), (0, 0)]):
        p = os.path.join(d, "o%d" % k)
        open(p, "wb").close()
        os.chown(p, u, gid)
    os.symlink("nowhere", os.path.join(d, "dangling"))
    cases = [["act", "-ls"], ["act", "-printf", "%u %g %U %G %M %y %Y %l\\n"], ["act", "-fls", "/dev/null"],
             ["act", "-nouser", "-o", "-nogroup"], ["act", "-type", "f", "-exec", "rm", "{}", ";", "-ls"],
             ["act", "-user", "54321", "-o", "-group", "54321"]]
    for args in cases:
        if "rm" in args:
            for k in range(3):
                open(os.path.join(d, "v%d" % k), "wb").close()
            args = ["act", "-name", "v*", "-exec", "rm", "{}", ";", "-ls", "-printf", "%s %u\\n"]
        line = "find - %s %s" % (fw.hexs(forest.dir), xc.hexlist([a.encode() for a in args]))
        code, out, err = wc.decode_find(xc.run_impl([line])[0])
        ctx.count(("action", tuple(args)), True, "action-totality")
        if code not in (0, 1):
            ctx.violation("find %s: %s" % (" ".join(args), code), {"property": "C11", "kind": "action-totality", "find_args": args, "outcome": str(code),
                                                                   "stderr": err.decode("utf-8", "replace")[:300]})


def ordinary_status(ctx, forest):
    """ "never by a panic": the output file of -fprintf cannot be written; the fixed arguments of -exec ... {} + leave no room on a command
    line (with an empty environment, so that only the argument vector decides)"""
    import resource
    import subprocess
    cases = [(["sb", "-fprintf", "/dev/full", "%p\n"], 1, None),
             (["sb", "-fprintf", "/dev/full", "%p\n", "-o", "-print"], 1, None),
             (["sb/a", "-exec", "true"] + ["a" * 131000] * 15 + ["b" * 126000, "{}", "+"], 1, {}),
             (["sb/a", "-exec", "true"] + ["a" * 131000] * 15 + ["b" * 100000, "{}", "+"], 0, {})]
    # ... standard output on a full device, whatever action writes there
    cases += [(["sb"] + a, 1, "full") for a in ([], ["-print"], ["-print0"], ["-ls"], ["-printf", "%p\n"], ["-print", "-exec", "true", ";"])]
    for args, want_rc, env in cases:
        out = subprocess.PIPE
        if env == "full":
            out, env = open("/dev/full", "wb"), None
        p = subprocess.run([fw.FIND] + args, stdout=out, stderr=subprocess.PIPE, cwd=forest.dir, env=xc.ENV if env is None else env, timeout=120,
                           preexec_fn=lambda: resource.setrlimit(resource.RLIMIT_STACK, (8 << 20, 8 << 20)))
        short = [a if len(a) < 40 else "%s*%d" % (a[0], len(a)) for a in args]
        ctx.count(("ordinary-status", tuple(short)), True, "ordinary-status")
        if p.returncode != want_rc or b"panicked" in p.stderr:
            ctx.violation("find %s: exit %d (%s); expected an ordinary exit status %d" % (" ".join(short), p.returncode, p.stderr.decode("utf-8", "replace")[:120], want_rc),
                          {"property": "C11", "kind": "ordinary-status", "find_args": short, "exit": p.returncode, "stderr": p.stderr.decode("utf-8", "replace")[:300],
                           "expected_exit": want_rc})


# (-regextype, operand, valid) - each line confirmed against GNU find 4.9 and the POSIX text; the harness's own regex oracle asks the
# engine the implementation uses, so what that engine gets wrong has to be listed
REGEX_OPERANDS = [("posix-extended", "a{2,1}", False), ("posix-basic", "a\\{2,1\\}", False), ("grep", "a\\{2,1\\}", False), ("grep", "a\\{2,1\\}b", False),
                  ("sed", "x\\{1,32768\\}", False), ("ed", "x\\{1,32767\\}", True), ("posix-extended", "a{32767}", True), ("posix-extended", "a{99999}", False),
                  ("emacs", "a\\{2,1\\}", True), ("posix-extended", "a{1,2}", True), ("posix-extended", "[{2,1}]", True), ("posix-extended", "[[:alpha:]{2,1}]", True),
                  ("posix-extended", "(a{3,2})", False), ("posix-extended", "\\\\{2,1}", False), ("posix-extended", "[", False), ("posix-basic", "\\(", False),
                  ("posix-extended", "(", False), ("posix-extended", "a)", True), ("emacs", "\\(", False), ("posix-extended", "a{1", False),
                  ("posix-basic", "a\\{1", False), ("posix-extended", "a{x}", False),
                  # back-references: the group must be complete where the reference stands
                  ("emacs", "\\1\\(a\\)", False), ("emacs", ".*\\(a\\)\\(\\2\\)", False), ("emacs", "\\(\\1\\)", False), ("grep", "\\(a\\2\\)\\(b\\)", False),
                  ("posix-extended", "(\\1)", False), ("posix-extended", ".*/\\2(a)(a)", False), ("posix-extended", "((a)\\1)", False),
                  ("posix-extended", "a)\\1", False), ("posix-extended", "(a)(b)\\3", False), ("emacs", "\\(a\\)\\1", True),
                  ("emacs", "\\(\\(a\\)\\2\\)", True), ("posix-extended", "(a)(b|\\1)", True), ("posix-extended", "[\\1](a)", True),
                  ("posix-extended", "(a)\\\\1", True), ("posix-basic", "\\(a\\)*\\1", True),
                  # character classes: twelve names, "[:" closed by ":]"; none of this in emacs
                  ("posix-extended", "[[:word:]]", False), ("posix-basic", "[[:ascii:]]", False), ("grep", "x[[:a]", False), ("sed", "[[:alpha]", False),
                  ("posix-extended", "[[:a]]", False), ("posix-extended", "[[:upper:][:LOWER:]]", False), ("posix-extended", "[[:alpha:][:digit:]_]", True),
                  ("posix-extended", "[^][:digit:]a]", True), ("emacs", "[[:word:]]", True), ("posix-basic", "[:alpha:]", True), ("posix-extended", "[]:a]", True),
                  # (seventh wave) emacs has no classes, also for where the groups stand; groups of another alternative are not complete; "[." and
                  # "[=" must be closed and name one character; GNU's posix-basic refuses an interval with nothing to repeat and an interval or "*"
                  # behind another repetition, its grep takes the former for a brace; a class behind a quoted character
                  ("emacs", ".*[[:]\\(\\1\\)", False), ("emacs", ".*[[:a:]\\(\\1\\)]", False), ("emacs", ".*[a[:]\\(\\1\\)", False), ("emacs", ".*/[[:a:]\\(b\\)]\\1", True),
                  ("emacs", ".*\\(a\\)\\|\\1", False), ("emacs", ".*\\(\\(a\\)\\|\\2\\)", False), ("posix-extended", ".*(a)|\\1", False), ("posix-basic", ".*\\(a\\)\\|\\1", False),
                  ("grep", ".*\\(a\\)\n\\1", False), ("posix-basic", ".*\\(a\\)\n\\1", True), ("posix-extended", "((a)|b)\\2", True), ("posix-extended", "(a|(b))\\2", True),
                  ("posix-extended", "(a)(b|\\1)\\2", True), ("posix-extended", "(a)[|]\\1", True), ("emacs", "\\(a\\|\\(b\\)\\)\\2", True),
                  ("posix-extended", ".*[[=]", False), ("emacs", ".*[[=]", False), ("posix-basic", ".*[[.]", False), ("posix-extended", ".*[[=]a{2,1}", False),
                  ("posix-basic", ".*[[=]x[[:foo]", False), ("emacs", ".*[[=]\\(\\1\\)", False), ("grep", "[a[.]", False), ("posix-extended", "[[.ab.]]", False),
                  ("posix-extended", "[[=a=]b]", True), ("emacs", "[[.-.]]", True), ("posix-extended", "\\[[=]", True), ("posix-extended", "[[..]]", False),
                  ("posix-basic", "\\{1,2\\}", False), ("posix-basic", ".*\\(\\{1,2\\}\\)", False), ("sed", ".*a\\|\\{1,2\\}", False), ("posix-basic", ".*a**", False),
                  ("ed", ".*a\\{1,2\\}*", False), ("posix-basic", "a\\{1\\}\\{2\\}", False), ("posix-basic", "a\\+*", False), ("posix-basic", "a*\\+", True),
                  ("posix-basic", "\\(*a\\)", True), ("posix-basic", "a\\|*b", True), ("posix-basic", "a\\+\\?", True),
                  ("grep", ".*\\(\\{2,1\\}\\)", True), ("grep", "\\{2,1\\}", True), ("grep", ".*a\\|\\{2,1\\}", True), ("grep", "a**", True), ("grep", "a\\{1\\}\\{2\\}", True),
                  ("grep", "a\\{2,1\\}", False), ("grep", "\\(a\\)\\{2,1\\}", False),
                  ("posix-extended", ".*\\.[[:word:]]", False), ("posix-basic", ".*\\.[[:word:]]", False), ("grep", ".*\\\\[[:ascii:]]", False), ("posix-extended", "\\)[[:word:]]", False),
                  ("posix-extended", "\\.[[:alpha:]]", True),
                  # (eighth wave) a bracket expression that GNU's reading never closes (the engine takes the "]" of ".]" / "=]" for its end);
                  # an equivalence class is no end point of a range, a collating symbol is
                  ("emacs", "[[.-.]", False), ("posix-extended", ".*[[.].](\\1)", False), ("posix-basic", "\\./[[=[=]*", False), ("grep", "[a[.].]", False),
                  ("posix-extended", "[[:alpha:][.-.]\\+", False), ("posix-extended", "[[.-.]]", True), ("emacs", "[[=]=]]", True),
                  ("posix-extended", "[[=a=]-c]", False), ("emacs", "[[=a=]-[=c=]]", False), ("grep", "[a-[=z=]]", False), ("posix-extended", "[--[=b=]]", False),
                  ("posix-basic", "[]-[=b=]]", False), ("posix-extended", "[[.a.]-[=b=]]", False), ("posix-extended", "[[=b=]-]", True), ("posix-extended", "[-[=b=]]", True),
                  ("grep", "^^\\{", False), ("grep", "a\\|^^\\{", False), ("posix-basic", "^^\\+*", False), ("sed", "^^\\?\\{1\\}", False), ("grep", "^\\{1\\}", True), ("posix-basic", "^^a", True),
                  ("posix-extended", "[a-b-c]", False), ("posix-extended", "[a-c--]", False), ("emacs", "[[.a.]-c-e]", False), ("posix-extended", "[a-c-]", True), ("posix-extended", "[%--a]", True),
                  ("posix-extended", "[[.a.]-z]", True), ("posix-extended", "[a-[.c.]]", True), ("posix-basic", "[[.a.]-[.z.]]", True), ("posix-extended", "[[.a.]\\(]", True)]


def fprintf_keeps_file(ctx, forest):
    """a vector rejected for the format of -fprintf leaves the file it names as it was"""
    keep = os.path.join(forest.dir.decode(), "precious")
    for fmt in ("%(", "abc\\", "%", "\\q"):
        with open(keep, "w") as f:
            f.write("precious\n")
        line = "find - %s %s" % (fw.hexs(forest.dir), xc.hexlist([b"sb", b"-fprintf", b"precious", fmt.encode()]))
        code, out, err = wc.decode_find(xc.run_impl([line])[0])
        left = open(keep).read()
        ctx.count(("fprintf-keeps-file", fmt), True, "fprintf-keeps-file")
        if code != 1 or left != "precious\n":
            ctx.violation("find sb -fprintf precious %r: exit %s, the file now holds %r; a command line that is rejected leaves it alone" % (fmt, code, left),
                          {"property": "C11", "kind": "fprintf-keeps-file", "format": fmt, "exit": str(code), "content_after": left})
    os.remove(keep)


def interval_operands():
    """every form of interval - {n} {n,} {n,m} - over the boundary values, in each syntax that has intervals: valid iff each bound given is at
    most RE_DUP_MAX (32767) and n <= m (the rule was checked against GNU find 4.9 on all of these when this was written)"""
    vals = [0, 1, 2, 255, 32767, 32768, 99999, 100000, 100001]
    out = []
    for ty, lb, rb in (("posix-extended", "{", "}"), ("posix-basic", "\\{", "\\}"), ("grep", "\\{", "\\}")):
        for n in vals:
            out.append((ty, ".*a%s%d%s" % (lb, n, rb), n <= 32767))
            out.append((ty, "a%s%d,%s" % (lb, n, rb), n <= 32767))
            for m in vals:
                out.append((ty, "xa%s%d,%d%sb" % (lb, n, m, rb), n <= 32767 and m <= 32767 and n <= m))
    return out


def regex_operands(ctx, forest):
    """an invalid operand to -regex is rejected (nothing printed, exit 1), a valid one is not - per syntax"""
    for ty, pat, valid in REGEX_OPERANDS + interval_operands():
        for prim in ("-regex", "-iregex"):
            if prim == "-iregex" and len(pat) > 8 and (ty, pat, valid) not in REGEX_OPERANDS:
                continue         # (the generated interval matrix once per operand)
            line = "find - %s %s" % (fw.hexs(forest.dir), xc.hexlist([b"sb", b"-maxdepth", b"0", b"-regextype", ty.encode(), prim.encode(), pat.encode(), b"-o", b"-print0"]))
            code, out, err = wc.decode_find(xc.run_impl([line])[0])
            ctx.count(("regex-operand", ty, pat, prim), True, ["regex-operand", "valid=%d" % valid])
            rejected = code == 1 and out == b"" and err.startswith(b"Error")
            if code in ("panic", "runner-died") or rejected == valid:
                ctx.violation("find sb -regextype %s %s %r -o -print0: exit %s, %d bytes printed; the operand is %s" % (ty, prim, pat, code, len(out), "valid" if valid else "invalid"),
                              {"property": "C11", "kind": "regex-operand", "regextype": ty, "operand": pat, "primary": prim, "exit": str(code),
                               "stderr": err.decode("utf-8", "replace")[:200], "valid": valid})


def regex_generated(ctx, forest):
    """the malformed stream for -regex: a pattern AST as C17 generates them, printed in one of the syntaxes, with one atom replaced by
    a piece of text that is invalid by itself wherever it stands (a class name that is none, an unclosed or over-long "[." / "[=", a
    reversed or over-large interval on its own character, a reference to a ninth group that does not exist, a group never closed) -
    to be refused with nothing visited - or by a piece that is valid wherever it stands, to be accepted.  Valid and invalid by
    construction: no reference implementation is consulted."""
    from props import c17
    rng = ctx.rng

    def pieces(ty):
        ext = ty == "posix-extended"
        lb, rb, lp, rp = ("{", "}", "(", ")") if ext else ("\\{", "\\}", "\\(", "\\)")
        bad = ["[[.]", "[a[=]", "[[.ab.]]", "[^[=abc=]]", lp + "a", "\\9", "[[=a=]-c]", "[a-[=c=]]"]
        good = ["[[.a.]]", "[[=b=]c]", "[^[.c.]]", "[[.a.]-c]", lp + "a" + rp]
        if ty != "emacs":
            bad += ["[[:word:]]", "[[:ascii:]]", "[^[:foo:]x]", "[a[:b]", "[[:ALPHA:]]", "a%s2,1%s" % (lb, rb), "b%s32768%s" % (lb, rb), "c%s1,99999%s" % (lb, rb)]
            good += ["[[:alpha:]]", "[[:digit:][:upper:]x]", "[^[:space:]]", lp + "a%s1,2%s" % (lb, rb) + rp, lp + "b%s32767%s" % (lb, rb) + rp]
        else:
            good += ["[[:word:]]", "[[:foo:]", "a\\{2,1\\}", "[a[:b]"]
        return bad, good

    def plant(ast, atom):
        """replace one leaf, chosen at random, by the raw atom"""
        if ast[0] in ("c", "d", "k", "K"):
            return ("X", atom)
        kids = [i for i, x in enumerate(ast) if isinstance(x, tuple)]
        i = rng.choice(kids)
        return ast[:i] + (plant(ast[i], atom),) + ast[i + 1:]

    n = 3000 if ctx.thorough else 400
    cases = []
    while len(cases) < n:
        ty = rng.choice(["emacs", "posix-basic", "posix-extended", "grep", "sed"])
        bad, good = pieces(ty)
        valid = rng.random() < 0.35
        atom = rng.choice(good if valid else bad)
        ast = c17.gen_ast(rng, rng.choice([1, 2, 3]))
        # a quoted character, a bracket expression or a group in front of it now and then (the scanners skip over those)
        front = rng.choice([None, ("c", "."), ("k", ["a", "b"]), ("S", ("c", "a")), ("O", ("C", ("c", "a"), ("c", "b")))])
        ast = plant(ast, atom)
        if front is not None and rng.random() < 0.6:
            ast = plant(("C", front, ("c", "a")), atom) if rng.random() < 0.5 else ("C", front, ast)
        txt = c17.show(ast, ty, nl_alt=rng.random() < 0.2, gnu_ops=rng.random() < 0.5)
        if txt is None:
            continue
        lp = "(" if ty == "posix-extended" else "\\("
        if atom == "\\9" and txt.count(lp) >= 9:
            continue
        cases.append((ty, txt, valid, atom))
    lines = ["find - %s %s" % (fw.hexs(forest.dir), xc.hexlist([b"sb", b"-maxdepth", b"0", b"-regextype", ty.encode(), b"-regex", txt.encode(), b"-o", b"-print0"]))
             for ty, txt, valid, atom in cases]
    bad = []
    for (ty, txt, valid, atom), line in zip(cases, xc.run_impl(lines)):
        code, out, err = wc.decode_find(line)
        ctx.count(("regex-generated", ty, txt), True, ["regex-generated", "valid=%d" % valid, "regextype=" + ty])
        rejected = code == 1 and out == b"" and err.startswith(b"Error")
        accepted = code == 0
        if code in ("panic", "runner-died") or (valid and not accepted) or (not valid and not rejected):
            bad.append((ty, txt, valid, atom, code, out, err))
    for ty, txt, valid, atom, code, out, err in bad[:3]:
        ctx.violation("find sb -regextype %s -regex %r -o -print0: exit %s, %d bytes printed; the pattern holds %r, which is %s wherever it stands"
                      % (ty, txt, code, len(out), atom, "valid" if valid else "invalid"),
                      {"property": "C11", "kind": "regex-generated", "regextype": ty, "operand": txt, "planted": atom, "valid": valid, "exit": str(code),
                       "stderr": err.decode("utf-8", "replace")[:200], "total_disagreements": len(bad)})


def bracket_units(ctx, forest):
    """bracket expressions put together from units - a character, a range, a class, a collating symbol, an equivalence class -
    optionally negated and with ']' as first member: valid unless a unit is a range with a class or an equivalence class for an end
    point, or a symbol names more than one character (valid and invalid by construction); every sequence of up to two units"""
    import itertools
    good = ["a", "x-z", "[.b.]", "[=c=]", "[:digit:]", "[.a.]-c", "a-[.c.]", "[.a.]-[.c.]", "!--", "%"]
    # (also invalid: a "-" behind a complete range that is not the last member of the bracket expression)
    bad = ["[=a=]-c", "a-[=c=]", "[=a=]-[=c=]", "[.a.]-[=c=]", "[:digit:]-z", "a-[:alpha:]", "[.ab.]", "[=ab=]", "a-c-e", "a-b-[.c.]", "[.a.]-c-e", "a-c--"]
    cases = []
    for neg in ("", "^"):
        for first in ("", "]", "]-[=a=]", "]-[.a.]"):
            for n in (0, 1, 2):
                for tup in itertools.product(good + bad, repeat=n):
                    if not first and not tup:
                        continue
                    valid = first != "]-[=a=]" and not any(u in bad for u in tup)
                    # (a "-" may end a bracket expression as a member)
                    for last in ("", "-"):
                        cases.append(("x[" + neg + first + "".join(tup) + last + "]", valid))
    lines, keys = [], []
    for ty in ("posix-extended", "posix-basic", "grep"):
        for pat, valid in cases:
            if ty != "posix-extended" and hash((ty, pat)) % 4 and not ctx.thorough:
                continue
            lines.append("find - %s %s" % (fw.hexs(forest.dir), xc.hexlist([b"sb", b"-maxdepth", b"0", b"-regextype", ty.encode(), b"-regex", pat.encode(), b"-o", b"-print0"])))
            keys.append((ty, pat, valid))
    bad_rows = []
    for (ty, pat, valid), line in zip(keys, xc.run_impl(lines)):
        code, out, err = wc.decode_find(line)
        ctx.count(("bracket-units", ty, pat), True, ["bracket-units", "valid=%d" % valid, "regextype=" + ty])
        rejected = code == 1 and out == b"" and err.startswith(b"Error")
        if code in ("panic", "runner-died") or (valid and code != 0) or (not valid and not rejected):
            bad_rows.append((ty, pat, valid, code, out, err))
    for ty, pat, valid, code, out, err in bad_rows[:3]:
        ctx.violation("find sb -regextype %s -regex %r -o -print0: exit %s, %d bytes printed; the bracket expression is %s by its construction"
                      % (ty, pat, code, len(out), "valid" if valid else "invalid (a class or an equivalence class as an end point of a range, or a symbol of several characters)"),
                      {"property": "C11", "kind": "bracket-units", "regextype": ty, "operand": pat, "valid": valid, "exit": str(code),
                       "stderr": err.decode("utf-8", "replace")[:200], "total_disagreements": len(bad_rows)})


def regex_classes(ctx):
    """check_classes (hook) against the RegexClasses model: every string up to a length bound over the characters the check looks at
    (with and without classes: emacs has none), the bracket expressions built from units, and longer random ones"""
    import itertools
    rng = ctx.rng
    alpha = ["[", "]", "^", "-", ":", ".", "=", "a", "\\"]
    pats = []
    for n in range(0, (6 if ctx.thorough else 5) + 1):
        for tup in itertools.product(alpha, repeat=n):
            pats.append("".join(tup))
    units = ["a", "x-z", "[.b.]", "[=c=]", "[:digit:]", "[:word:]", "[.a.]-c", "a-[.c.]", "!--", "[=a=]-c", "a-[=c=]", "[.ab.]", "[=ab=]", "[", "]", "^", "-", "[:", "[.", "[=", ":]", ".]", "=]",
             "\\[", "\\]", "\u00e9", "[.\u00e9.]", "[=-=]", "[.].]", "x"]
    for _ in range(40000 if ctx.thorough else 4000):
        pats.append("[" + "".join(rng.choice(units) for _ in range(rng.randint(0, 5))) + rng.choice(["]", "]", "", "]x[a]"]))
    cases = [(p, e) for p in pats for e in ("emacs", "posix-extended")]
    il = ["rxclasses %s %s" % (e, fw.hexs(p.encode())) for p, e in cases]
    ml = ["rxclasses %s %s" % (e, ".".join(str(ord(c)) for c in p) if p else "-") for p, e in cases]
    impl = fw.run_lines(fw.FUV, il)
    model = fw.run_lines(fw.FUVM, ml)
    bad = []
    for (p, e), i, m in zip(cases, impl, model):
        ctx.count(("classes", p, e), "[" in p, ["bracket-check", "regextype=%s" % e, "ok=%s" % m, "len=%s" % (len(p) if len(p) < 6 else "6+")])
        if i != m:
            bad.append((p, e, i, m))
    for p, e, i, m in bad[:3]:
        ctx.violation("check_classes(%r, %s): implementation %s, RegexClasses model %s" % (p, e, i, m),
                      {"property": "C11", "kind": "bracket-check", "pattern": p, "regextype": e, "implementation": i, "model": m, "total_disagreements": len(bad)})


def regex_intervals(ctx):
    """check_intervals (hook) against the RegexIntervals model: every sequence of up to four (five) of the pieces the check tells
    apart - characters, anchors, groups, alternation, each repetition operator, intervals with good and bad bounds, a bracket
    expression - written in each syntax, and longer random ones"""
    import itertools
    rng = ctx.rng
    cases = []
    for ty in ("grep", "posix-basic", "posix-extended", "emacs"):
        ext = ty == "posix-extended"
        if ext:
            toks = ["a", "*", "+", "?", "(", ")", "|", "^", "$", "{1}", "{2,1}", "{1,}", "{40000}", "{", "}", "[a{]", "\\{", "\\`", "1", ","]
        else:
            toks = ["a", "*", "\\+", "\\?", "\\(", "\\)", "\\|", "^", "$", "\\{1\\}", "\\{2,1\\}", "\\{1,\\}", "\\{40000\\}", "\\{", "\\}", "[a\\{]", "\n", "\\`", "\\'", "1"]
        top = 4 if (ctx.thorough or ty in ("grep", "posix-basic")) else 3
        for n in range(0, top + 1):
            for tup in itertools.product(toks, repeat=n):
                cases.append(("".join(tup), ty))
        for _ in range(20000 if ctx.thorough else 2000):
            cases.append(("".join(rng.choice(toks + ["\\", "[", "]", "{", "}", "32767", "32768", "\u00e9", "[[.a.]", "[:"]) for _ in range(rng.randint(5, 12))), ty))
    il = ["rxintervals %s %s" % (e, fw.hexs(p.encode())) for p, e in cases]
    ml = ["rxintervals %s %s" % (e, ".".join(str(ord(c)) for c in p) if p else "-") for p, e in cases]
    impl = fw.run_lines(fw.FUV, il)
    model = fw.run_lines(fw.FUVM, ml)
    bad = []
    for (p, e), i, m in zip(cases, impl, model):
        ctx.count(("intervals", p, e), "{" in p or "*" in p, ["interval-check", "regextype=%s" % e, "ok=%s" % m])
        if i != m:
            bad.append((p, e, i, m))
    for p, e, i, m in bad[:3]:
        ctx.violation("check_intervals(%r, %s): implementation %s, RegexIntervals model %s" % (p, e, i, m),
                      {"property": "C11", "kind": "interval-check", "pattern": p, "regextype": e, "implementation": i, "model": m, "total_disagreements": len(bad)})


def regex_refs(ctx):
    """check_back_references (hook) against the RegexRefs model, whose one pass is proved to decide what the recursion over the
    pattern's structure says (C11_back_references_one_pass): every pattern up to a length bound over the characters the check
    looks at, and longer ones made of pieces, in the four syntaxes"""
    import itertools
    rng = ctx.rng
    alpha = ["\\", "(", ")", "|", "[", "]", "1", "2", "a", "\n", ":", "^"]
    pats = []
    for n in range(0, (4 if ctx.thorough else 3) + 1):
        for tup in itertools.product(alpha, repeat=n):
            pats.append("".join(tup))
    pieces = ["\\(", "\\)", "\\|", "(", ")", "|", "\\1", "\\2", "\\3", "\\9", "a", "\n", "[a)]", "[(]", "[]|]", "[^](]", "[[:alpha:]]", "[[:x:]", "[[.a.]]", "[[=(=]", "[[:", "[",
              "\\\\", "\\[", "\\]", "\u00e9", "*", "\\{1\\}", "{2}"]
    for _ in range(30000 if ctx.thorough else 3000):
        pats.append("".join(rng.choice(pieces) for _ in range(rng.randint(1, 10))))
    cases = [(p, e) for p in pats for e in ("emacs", "posix-basic", "posix-extended", "grep")]
    # every sequence of the operators the check knows - a group opens, a group closes (also where none is open), an alternation, a
    # reference to the first or second group, anything else - up to a length bound, written in each syntax
    for e in ("emacs", "posix-basic", "posix-extended", "grep"):
        ext = e == "posix-extended"
        ops = ["(", ")", "|"] if ext else ["\\(", "\\)", "\\|"]
        if e == "grep":
            ops.append("\n")
        toks = ops + ["\\1", "\\2", "a"]
        for n in range(4, (7 if ctx.thorough else 6) + 1):
            for tup in itertools.product(toks, repeat=n):
                if (ops[1] in tup or ops[2] in tup or "\n" in tup) and ("\\1" in tup or "\\2" in tup):
                    cases.append(("".join(tup), e))
    il = ["rxrefs %s %s" % (e, fw.hexs(p.encode())) for p, e in cases]
    ml = ["rxrefs %s %s" % (e, ".".join(str(ord(c)) for c in p) if p else "-") for p, e in cases]
    impl = fw.run_lines(fw.FUV, il)
    model = fw.run_lines(fw.FUVM, ml)
    bad = []
    for (p, e), i, m in zip(cases, impl, model):
        ctx.count(("refs", p, e), "\\" in p or e == "posix-extended", ["back-references", "regextype=%s" % e, "ok=%s" % m, "len=%s" % (len(p) if len(p) < 6 else "6+")])
        if i != m:
            bad.append((p, e, i, m))
    for p, e, i, m in bad[:3]:
        ctx.violation("check_back_references(%r, %s): implementation %s, RegexRefs model %s" % (p, e, i, m),
                      {"property": "C11", "kind": "back-references", "pattern": p, "regextype": e, "implementation": i, "model": m,
                       "explain": "the model's verdict is proved to be the one of the recursion over the pattern's structure (C11_back_references_one_pass): a "
                                  "reference is valid when its group, or a group holding it, was closed before it in the same alternative", "total_disagreements": len(bad)})


def panic_inventory(ctx):
    """every place in find and xargs that can panic by construction (unwrap, expect, panic!, the print macros ...) has been looked at and is
    listed with its reason in audits/panic_sites.allow; a place that is not listed is a place where "never by a panic" is not shown"""
    from tools import panic_sites
    sites = panic_sites.scan(subs=("src/find",))
    new = panic_sites.unlisted(subs=("src/find",))
    ctx.count(("panic-inventory",), True, ["panic-inventory", "sites=%d" % len(sites)])
    ctx.log["panic_sites"] = len(sites)
    for f, fn, text, ln in new[:5]:
        ctx.unshown("%s:%d (fn %s): %s - a place that can panic and is not in audits/panic_sites.allow" % (f, ln, fn, text[:100]),
                    {"property": "C11", "kind": "panic-inventory", "file": f, "line": ln, "function": fn, "text": text,
                     "explain": "the inventory of panic sites is regenerated from /repo on every run; this one is new and no input reaching it was searched for",
                     "new_sites": len(new)})


def unwritable_everywhere(ctx, forest):
    """every place that writes - the -help and -version texts, the diagnostics of -printf and of -files0-from - with the stream it
    writes to on a full device or a closed pipe; and -newerXt on a time stamp beyond what fits into i64 milliseconds (a file system with
    64-bit time stamps: /dev/shm)"""
    import subprocess
    import tempfile
    d = os.path.join(forest.dir, b"uw")
    os.makedirs(d)
    with open(os.path.join(d, b"list"), "wb") as f:
        f.write(b"x\0\0")
    open(os.path.join(d, b"x"), "wb").close()

    def run(args, stdout=None, stderr=None, want=(0, 1)):
        fds = []
        def stream(kind):
            if kind == "full":
                fds.append(open("/dev/full", "wb"))
                return fds[-1]
            if kind == "closed-pipe":
                r, w = os.pipe()
                os.close(r)
                fds.append(w)
                return w
            return subprocess.DEVNULL
        try:
            p = subprocess.run([fw.FIND] + args, stdout=stream(stdout), stderr=stream(stderr), cwd=d, env=xc.ENV, timeout=60)
        finally:
            for f in fds:
                f.close() if hasattr(f, "close") else os.close(f)
        ctx.count(("unwritable", tuple(args), stdout, stderr), True, "unwritable-stream")
        if p.returncode not in want:
            ctx.violation("find %s with stdout %s, stderr %s: exit %d; expected an ordinary exit status %s" % (" ".join(args), stdout, stderr, p.returncode, "/".join(map(str, want))),
                          {"property": "C11", "kind": "unwritable-stream", "find_args": args, "stdout": stdout, "stderr": stderr, "exit": p.returncode})
    for how in ("full", "closed-pipe"):
        run(["-help"], stdout=how, want=(1,))
        run(["-version"], stdout=how, want=(1,))
        run(["-files0-from", "list"], stderr=how)
        open(os.path.join(d, b"gone"), "wb").close()
        run(["gone", "-delete", "-printf", "%s\n"], stderr=how, want=(1,))
    run(["-help"], want=(0,))
    run(["-version"], want=(0,))
    if os.path.isdir("/dev/shm"):
        t = tempfile.mkdtemp(prefix="fuv-c11-", dir="/dev/shm")
        try:
            far = os.path.join(t, "far")
            open(far, "wb").close()
            for ts in (9223372036854776, 2 ** 63 - 1):
                try:
                    os.utime(far, ns=(0, ts * 10 ** 9))
                except (OSError, OverflowError):
                    continue
                if os.stat(far).st_mtime < 9e15:
                    continue        # the file system does not keep such a time
                for x in ("m", "a"):
                    p = subprocess.run([fw.FIND, far, "-newer%st" % x, "jan 01, 2020", "-print"], stdout=subprocess.PIPE, stderr=subprocess.PIPE, env=xc.ENV, timeout=60)
                    ctx.count(("far-timestamp", ts, x), True, "far-timestamp")
                    want = far.encode() + b"\n" if x == "m" else b""
                    if p.returncode != 0 or p.stdout != want:
                        ctx.violation("find FILE -newer%st 'jan 01, 2020' on a file modified %d s after the epoch: exit %d, printed %r" % (x, ts, p.returncode, p.stdout),
                                      {"property": "C11", "kind": "far-timestamp", "mtime": ts, "exit": p.returncode, "stderr": p.stderr.decode("utf-8", "replace")[:300]})
        finally:
            import shutil
            shutil.rmtree(t, ignore_errors=True)


def printf_widths(ctx, forest):
    """a field width is honoured or refused, never a panic (the formatter's own width argument is a u16) and never an endless padding"""
    for fmt, want_rc, want_len in (("%70000p", 0, 70000), ("%-65536p|", 0, 65537), ("%65535p", 0, 65535), ("%2147483648p", 1, 0),
                                   ("%18446744073709551615p", 1, 0), ("%99999999999999999999999p", 1, 0)):
        line = "find - %s %s" % (fw.hexs(forest.dir), xc.hexlist([b"sb", b"-maxdepth", b"0", b"-printf", fmt.encode()]))
        code, out, err = wc.decode_find(xc.run_impl([line])[0])
        ctx.count(("printf-width", fmt), True, "printf-width")
        if code in ("panic", "runner-died") or (code == 0) != (want_rc == 0) or (want_rc == 0 and len(out) != want_len):
            ctx.violation("find sb -maxdepth 0 -printf %s: exit %s, %d bytes of output; expected exit %s and %d bytes" % (fmt, code, len(out), want_rc, want_len),
                          {"property": "C11", "kind": "printf-width", "format": fmt, "exit": str(code), "output_bytes": len(out),
                           "stderr": err.decode("utf-8", "replace")[:200]})


def known(ctx, forest):
    """-newerXY is recognised by an unanchored pattern: a token merely containing -newerXY is taken for it"""
    line = "find - %s %s" % (fw.hexs(forest.dir), xc.hexlist([b"sb", b"-foo-neweramx", b"ref"]))
    code, out, err = wc.decode_find(xc.run_impl([line])[0])
    if code == 1 and out == b"":
        return
    if ctx.is_known("newerXY-unanchored") and code == 0:
        ctx.known_finding("newerXY-unanchored", "find -foo-neweramx FILE is accepted as -neweram (the -newerXY pattern is not anchored)")
    else:
        ctx.violation("find sb -foo-neweramx ref: exit %s" % code, {"property": "C11", "kind": "known-class-changed", "exit": str(code)})


def replay(ctx, rep):
    run(ctx)
