"""C15 - find time tests: whole elapsed periods, strict -newer, -newerXY uses X and Y.

(O1) coq/Props/C15.v.  (O2) find_main in-process with an injected clock on files whose atime and mtime
are set independently with nanosecond resolution (ctime: as the kernel set it; the injected 'now' is
placed relative to it), against the extracted Numeric model."""
import os
import tempfile

from lib import framework as fw
from props import walk_common as wc
from props import xargs_common as xc

RULE = ("(test, operand, now, file) cases: -[acm]time / -[acm]min with now = timestamp + k*period - e, + 0, + e for k in 0..4 and e in "
        "{1 ns, 0.5 s, 1 s, 59 s}, operands N-1, N, N+1 with each sign; -newer and all nine -newerXY over a, c, m on files whose three timestamps "
        "differ, including equal and 1 ns apart; non-trivial = distinct case (every case compares a verdict)")
ASSUMPTIONS = [
    "st_atime_ns / st_mtime_ns / st_ctime_ns from os.lstat are the timestamps Metadata reports",
    "ctime cannot be set: ctime cases place the injected clock relative to the ctime the kernel assigned",
    "-daystart and birth time (B) are outside the property and not exercised",
]
NS = 10 ** 9


def run(ctx):
    rng = ctx.rng
    os.makedirs(os.path.join(fw.BUILD, "tmp"), exist_ok=True)
    d = tempfile.mkdtemp(prefix="c15-", dir=os.path.join(fw.BUILD, "tmp"))
    try:
        base = 1_700_000_000 * NS
        files = {}
        specs = [("f0", base, base + 5000 * NS), ("f1", base + 1000 * NS + 1, base + 1), ("f2", base + 3000 * NS, base),
                 ("f3", base + 3000 * NS + 1, base + 5000 * NS), ("f4", base - 1, base + 5000 * NS + 1), ("f5", base + 86400 * NS, base + 60 * NS)]
        for name, at, mt in specs:
            p = os.path.join(d, name)
            open(p, "wb").close()
            os.utime(p, ns=(at, mt))
        names = sorted(os.listdir(d))
        st = {n: os.lstat(os.path.join(d, n)) for n in names}
        ts = {n: {"a": st[n].st_atime_ns, "m": st[n].st_mtime_ns, "c": st[n].st_ctime_ns} for n in names}
        cases = []   # (args, now_ns, model lines per file)
        eps = [0, 1, NS // 2, NS, 59 * NS, NS - 1]
        nper = 40 if not ctx.thorough else 400
        for _ in range(nper):
            which = rng.choice("acm")
            unit, period = rng.choice([("time", 86400), ("min", 60)])
            ref = rng.choice(names)
            k = rng.choice([0, 1, 2, 3, 4])
            e = rng.choice(eps) * rng.choice([-1, 1, 1])
            now = ts[ref][which] + k * period * NS + e
            for n in sorted({max(0, k - 1), k, k + 1}):
                for sign in ["", "+", "-"]:
                    op = "%s%d" % (sign, n)
                    args = [".", "-mindepth", "1", "-%s%s" % (which, unit), op, "-printf", "%f\\0"]
                    ml = ["num age %d %s %d %d" % (period, fw.hexs(op.encode()), now, ts[f][which]) for f in names]
                    cases.append((args, now, ml, "age-" + which + unit))
        for x in "acm":
            for y in "acm":
                for ref in names:
                    flag = "-newer%s%s" % (x, y)
                    args = [".", "-mindepth", "1", flag, ref, "-printf", "%f\\0"]
                    ml = ["num newer %d %d" % (ts[f][x], ts[ref][y]) for f in names]
                    cases.append((args, None, ml, "newerXY"))
        for ref in names:
            for flag, x, y in (("-newer", "m", "m"), ("-anewer", "a", "m"), ("-cnewer", "c", "m")):
                args = [".", "-mindepth", "1", flag, ref, "-printf", "%f\\0"]
                ml = ["num newer %d %d" % (ts[f][x], ts[ref][y]) for f in names]
                cases.append((args, None, ml, flag))
        # references that are symbolic links (with timestamps of their own, one of them dangling): -newerXY examines the reference
        # as -newer does - the link itself under -P, what it points to under -H/-L unless that cannot be resolved
        rd = d + "-refs"
        os.mkdir(rd)
        lnk, dang = os.path.join(rd, "lnk"), os.path.join(rd, "dang")
        os.symlink(os.path.join(d, "f2"), lnk)
        os.symlink("nowhere", dang)
        os.utime(lnk, ns=(base + 7000 * NS + 3, base + 4000 * NS), follow_symlinks=False)
        os.utime(dang, ns=(base + 2000 * NS + 7, base + 2500 * NS), follow_symlinks=False)
        for mode in "PHL":
            for refp in (lnk, dang):
                rec = os.lstat(refp)
                if mode != "P" and os.path.exists(refp):
                    rec = os.stat(refp)
                rts = {"a": rec.st_atime_ns, "m": rec.st_mtime_ns, "c": rec.st_ctime_ns}
                forms = [("-newer", "m", "m"), ("-anewer", "a", "m"), ("-cnewer", "c", "m")] + [("-newer%s%s" % (x, y), x, y) for x in "am" for y in "mc"]
                # (Y = a is left out: resolving a link updates its access time under relatime, so the reference would move)
                for flag, x, y in forms:
                    args = ["-" + mode, ".", "-mindepth", "1", flag, refp, "-printf", "%f\\0"]
                    ml = ["num newer %d %d" % (ts[f][x], rts[y]) for f in names]
                    cases.append((args, None, ml, "link-reference"))
        il = ["find %s %s %s" % ("-" if now is None else "%d.%09d" % (now // NS, now % NS), fw.hexs(d.encode()),
                                 xc.hexlist([a.encode() for a in args])) for args, now, _, _ in cases]
        impl = xc.run_impl(il)
        allml = [l for _, _, ml, _ in cases for l in ml]
        model = fw.run_lines(fw.FUVM, allml)
        bad, k = [], 0
        for (args, now, ml, kind), i in zip(cases, impl):
            code, out, err = wc.decode_find(i)
            got = set(out.split(b"\0")[:-1])
            res = model[k:k + len(ml)]
            k += len(ml)
            exp = {n.encode() for n, r in zip(names, res) if r == "1"}
            for n in names:
                ctx.count((tuple(args), now, n), True, kind)
            if got != exp or code != 0:
                bad.append((args, now, code, got, exp))
        ctx.sample({"find_args": cases[0][0], "now_ns": cases[0][1], "timestamps_ns": ts})
        for args, now, code, got, exp in bad[:3]:
            ctx.violation("find %s with now=%s: exit %s matched %s; model %s" % (args, now, code, sorted(got), sorted(exp)),
                          {"property": "C15", "kind": "correspondence", "find_args": args, "now_ns": now, "timestamps_ns": ts,
                           "implementation_matched": sorted(x.decode() for x in got), "exit": code,
                           "model_and_spec_matched": sorted(x.decode() for x in exp),
                           "explain": "C15 theorems fix the model's verdict (whole periods; strict comparison of the entry's X with the reference's Y)",
                           "total_disagreements": len(bad)})
        huge_age(ctx)
        pre1970_ctime(ctx)
    finally:
        import shutil
        shutil.rmtree(d, ignore_errors=True)
        shutil.rmtree(d + "-refs", ignore_errors=True)


def pre1970_ctime(ctx):
    """a status-change time before 1970 with a fraction: -1.25 s is tv_sec = -2, tv_nsec = 750000000 (the nanoseconds count forward).
    Needs root, mkfs.ext4, debugfs and a loop mount (the only way to choose a ctime); skipped with a note where any of these fails."""
    import shutil
    import subprocess
    if os.geteuid() != 0 or not all(shutil.which(x) for x in ("mkfs.ext4", "debugfs", "mount", "umount")):
        ctx.notes.append("pre1970_ctime: needs root, mkfs.ext4 and debugfs, scenario skipped")
        return
    os.makedirs(os.path.join(fw.BUILD, "tmp"), exist_ok=True)
    d = tempfile.mkdtemp(prefix="c15c-", dir=os.path.join(fw.BUILD, "tmp"))
    img, mnt = os.path.join(d, "img"), os.path.join(d, "mnt")
    mounted = False

    def sh(*a):
        return subprocess.run(a, stdout=subprocess.DEVNULL, stderr=subprocess.DEVNULL, timeout=120).returncode == 0
    try:
        os.mkdir(mnt)
        with open(img, "wb") as f:
            f.truncate(8 << 20)
        if not (sh("mkfs.ext4", "-q", "-I", "256", img) and sh("mount", "-o", "loop", img, mnt)):
            ctx.notes.append("pre1970_ctime: cannot make or mount an ext4 image here, scenario skipped")
            return
        open(os.path.join(mnt, "cf"), "wb").close()
        sh("umount", mnt)
        ok = sh("debugfs", "-w", "-R", "sif /cf ctime 0xfffffffe", img) and sh("debugfs", "-w", "-R", "sif /cf ctime_extra %d" % (750000000 << 2), img)
        if not (ok and sh("mount", "-o", "loop,ro,noatime", img, mnt)):
            ctx.notes.append("pre1970_ctime: cannot set the ctime or mount the image again, scenario skipped")
            return
        mounted = True
        st = os.stat(os.path.join(mnt, "cf"))
        if st.st_ctime_ns != -1250000000:
            ctx.notes.append("pre1970_ctime: the image's ctime reads %d ns, not -1.25 s, scenario skipped" % st.st_ctime_ns)
            return
        refs = {"m2": -2.0, "m15": -1.5, "m275": -2.75, "m1": -1.0}
        for n, t in refs.items():
            open(os.path.join(d, n), "wb").close()
            os.utime(os.path.join(d, n), ns=(int(t * NS), int(t * NS)))
        cases = [(["mnt/cf", "-newercm", "m2"], True), (["mnt/cf", "-cnewer", "m15"], True), (["mnt/cf", "-newercm", "m275"], True),
                 (["mnt/cf", "-newercm", "m1"], False), (["m2", "-newermc", "mnt/cf"], False), (["m15", "-newermc", "mnt/cf"], False),
                 (["m1", "-newermc", "mnt/cf"], True)]
        for args, want in cases:
            p = subprocess.run([fw.FIND] + args, stdout=subprocess.PIPE, stderr=subprocess.DEVNULL, cwd=d, env=xc.ENV, timeout=60)
            ctx.count(("pre1970-ctime", tuple(args)), True, "pre1970-ctime")
            if bool(p.stdout) != want or p.returncode != 0:
                ctx.violation("find %s with a status-change time of -1.25 s: %s, expected %s" % (" ".join(args), "matched" if p.stdout else "no match", "a match" if want else "no match"),
                              {"property": "C15", "kind": "pre1970-ctime", "find_args": args, "matched": bool(p.stdout), "expected": want,
                               "explain": "both at full timestamp resolution: -2 s + 0.75 s, not -2 s - 0.75 s"})
        # ... and the same time stamp can be printed: 1969-12-31 23:59:58.75 UTC
        p = subprocess.run([fw.FIND, "mnt/cf", "-printf", "%C@|%CY\n"], stdout=subprocess.PIPE, stderr=subprocess.PIPE, cwd=d, env=dict(xc.ENV, TZ="UTC"), timeout=60)
        ctx.count(("pre1970-ctime", "printf"), True, "pre1970-ctime")
        if p.returncode != 0 or not p.stdout.startswith(b"-1.25") or not p.stdout.rstrip().endswith(b"|1969"):
            ctx.violation("find mnt/cf -printf '%%C@|%%CY' with a status-change time of -1.25 s: exit %d, printed %r (%s); expected -1.25...|1969"
                          % (p.returncode, p.stdout, p.stderr.decode("utf-8", "replace")[:120]),
                          {"property": "C15", "kind": "pre1970-ctime", "find_args": ["mnt/cf", "-printf", "%C@|%CY"], "exit": p.returncode,
                           "stdout": p.stdout.decode("utf-8", "replace"), "stderr": p.stderr.decode("utf-8", "replace")[:300]})
    finally:
        if mounted or os.path.ismount(mnt):
            sh("umount", mnt)
        shutil.rmtree(d, ignore_errors=True)


def huge_age(ctx):
    """an age beyond i64::MAX seconds is still an age (more than any N days or minutes), not a time in the future.  Needs a file
    system that stores 64-bit timestamps (tmpfs at /dev/shm); skipped where there is none."""
    import subprocess
    try:
        d = tempfile.mkdtemp(prefix="c15-", dir="/dev/shm")
    except OSError:
        ctx.notes.append("huge_age: /dev/shm not usable, scenario skipped")
        return
    try:
        f = os.path.join(d, "f")
        open(f, "wb").close()
        t = (-2 ** 63 + 10) * NS
        try:
            os.utime(f, ns=(t, t))
        except (OSError, OverflowError):
            ctx.notes.append("huge_age: the file system does not store such timestamps, scenario skipped")
            return
        if os.stat(f).st_mtime_ns != t:
            ctx.notes.append("huge_age: the file system clamps timestamps, scenario skipped")
            return
        # times the calendar cannot express are reported or shown as seconds, never a panic
        for act in (["-ls"], ["-printf", "%t %TY %T@ %Tc\n"], ["-printf", "%a %AY\n"]):
            p = subprocess.run([fw.FIND, "f"] + act, stdout=subprocess.PIPE, stderr=subprocess.PIPE, cwd=d, env=xc.ENV, timeout=60)
            ctx.count(("huge-age-output", tuple(act)), True, "huge-age")
            if p.returncode not in (0, 1) or b"panicked" in p.stderr:
                ctx.violation("find f %s on a file older than 2^63 seconds: exit %d (%s)" % (" ".join(act), p.returncode, p.stderr.decode("utf-8", "replace")[:100]),
                              {"property": "C15", "kind": "huge-age-output", "action": act, "exit": p.returncode, "stderr": p.stderr.decode("utf-8", "replace")[:300]})
        import time
        age = int(time.time()) - (-2 ** 63 + 10)
        qd, qm = age // 86400, age // 60
        # the number of whole periods is the age divided by the period, also beyond i64::MAX seconds (Numeric.age_units is over Z)
        exact = [(["-mtime", str(qd)], True), (["-mtime", "+%d" % (qd - 1)], True), (["-mtime", "-%d" % (qd + 1)], True), (["-mtime", "+%d" % qd], False),
                 (["-mmin", "+%d" % (qm - 2)], True), (["-mmin", "-%d" % (qm + 3)], True), (["-mmin", "+%d" % (qm + 2)], False),
                 (["-mtime", "106751991167300"], False)] if age // 86400 == (age + 5) // 86400 else []
        for test, want in [(["-mtime", "+0"], True), (["-mmin", "+0"], True), (["-mmin", "-5"], False), (["-mtime", "-1"], False),
                           (["-atime", "+1000"], True)] + exact:
            p = subprocess.run([fw.FIND, "f"] + test, stdout=subprocess.PIPE, stderr=subprocess.DEVNULL, cwd=d, env=xc.ENV, timeout=60)
            ctx.count(("huge-age", tuple(test)), True, "huge-age")
            if (p.stdout == b"f\n") != want or p.returncode != 0:
                ctx.violation("find f %s on a file older than 2^63 seconds: %s, expected %s" % (" ".join(test), "matched" if p.stdout else "no match", "a match" if want else "no match"),
                              {"property": "C15", "kind": "huge-age", "test": test, "matched": bool(p.stdout), "expected": want, "mtime_ns": t})
    finally:
        import shutil
        shutil.rmtree(d, ignore_errors=True)


def replay(ctx, rep):
    run(ctx)
