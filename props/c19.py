"""C19 - xargs exit status is the documented function of its children's outcomes.

(O1) coq/Props/C19.v.  (O2) xargs_main in-process with scripted child outcomes (the hook
replaces process creation but not the classification of the wait status) against the XArgs
model; real children (sh -c 'exit N', kill, missing, not executable) for a sample."""
import os
import stat
import subprocess
import tempfile

from lib import framework as fw
from props import xargs_common as xc
from props import c04

RULE = ("(batching options, input, scripted outcome sequence) cases: outcomes drawn from exit 0 / 1..125 / 126,127 / 255 / signal / "
        "not found / cannot run, fatal outcomes placed first, middle, last and beyond the last invocation; own errors: unterminated quote, "
        "argument too long, bad option value; non-trivial = distinct case with at least two invocations and a non-zero outcome")
ASSUMPTIONS = [
    "std::process::ExitStatus decodes a wait status as POSIX says (the hook fabricates raw statuses with ExitStatusExt::from_raw)",
    "io::ErrorKind::NotFound / PermissionDenied are what spawn reports for a missing / non-executable command (checked with real children)",
]
OUTS = ["e0", "e0", "e0", "e1", "e2", "e125", "e126", "e127", "e255", "s9", "s15", "nf", "cr", "e123", "e124"]


def gen_case(rng):
    c = c04.gen_case(rng)
    c["s"] = None if rng.random() < 0.8 else c["s"]
    c["n"] = rng.choice([1, 1, 2, 3, None])
    c["swap"] = False
    k = rng.randint(0, 8)
    mode = rng.random()
    if mode < 0.3:
        outs = [rng.choice(["e0", "e1", "e7", "e125", "e126", "e127", "e254"]) for _ in range(k)]
    elif mode < 0.4:
        outs = ["e0"] * k
    else:
        outs = [rng.choice(OUTS) for _ in range(k)]
    c["outs"] = outs
    c["quote"] = rng.random() < 0.12    # unterminated quote at the end of the input
    return c


def lines_for(c):
    data, toks = xc.render(c["toks"])
    ierr = False
    if c.get("quote"):
        if data and data[-1:] not in (b" ", b"\n", b"\t"):
            data += b" "
        data += b"'zz"
        ierr = True
    n, L = c04.effective(c)
    return (xc.impl_line(c04.opts_of(c), c["cmd"], data, c["outs"]),
            xc.model_line(n, L, c["s"], c["x"], c["r"], c["cmd"], toks, ierr, c["outs"]), toks, data)


def compare(ctx, cases):
    il, ml, tk = [], [], []
    for c in cases:
        a, b, t, _ = lines_for(c)
        il.append(a); ml.append(b); tk.append(t)
    impl = xc.run_impl(il)
    model = fw.run_lines(fw.FUVM, ml)
    bad = []
    for c, i, m, t in zip(cases, impl, model, tk):
        ic, iinv = xc.decode_impl(i)
        mc, minv = xc.decode_model(m, c["cmd"], t)
        ctx.count((c04.opts_of(c), c["toks"], c["outs"], c["quote"]), len(minv) >= 2 and any(o != "e0" for o in c["outs"]),
                  ["exit=%s" % mc, "invocations=%s" % (len(minv) if len(minv) < 4 else "4+")])
        if (ic, iinv) != (mc, minv):
            bad.append((c, (ic, iinv), (mc, minv)))
    return bad


def report(ctx, bad):
    for c, i, m in bad[:2]:
        def fails(cc):
            a, b, t, _ = lines_for(cc)
            return xc.decode_impl(xc.run_impl([a])[0]) != xc.decode_model(fw.run_lines(fw.FUVM, [b], shards=1)[0], cc["cmd"], t)
        c = dict(c)
        c["toks"] = fw.shrink_list(c["toks"], lambda t: fails(dict(c, toks=t)), max_steps=80)
        c["outs"] = fw.shrink_list(c["outs"], lambda o: fails(dict(c, outs=o)), max_steps=80)
        a, b, t, data = lines_for(c)
        i = xc.decode_impl(xc.run_impl([a])[0])
        m = xc.decode_model(fw.run_lines(fw.FUVM, [b], shards=1)[0], c["cmd"], t)
        ctx.violation("xargs %s, input %r, child outcomes %s: implementation exit %s after %d invocation(s); model exit %s after %d"
                      % (c04.opts_of(c), data, c["outs"], i[0], len(i[1]), m[0], len(m[1])),
                      {"property": "C19", "kind": "correspondence", "options": c04.opts_of(c), "input_hex": fw.hexs(data),
                       "command": [x.decode() for x in c["cmd"]], "outcomes": c["outs"],
                       "implementation": {"exit": i[0], "invocations": len(i[1])},
                       "model_and_spec": {"exit": m[0], "invocations": len(m[1])},
                       "explain": "C19_status_all_ran / C19_first_fatal / C19_input_error fix the model's status; the implementation differs",
                       "case": {k: v for k, v in c.items() if k not in ("toks", "cmd")},
                       "tokens": [[fw.hexs(w), fw.hexs(s)] for w, s in c["toks"]],
                       "total_disagreements": len(bad)})


def e2e(ctx):
    """real children: the status must be the model's for the same outcome sequence"""
    rng = ctx.rng
    n = 60 if ctx.thorough else 14
    bad = []
    with tempfile.TemporaryDirectory(prefix="c19-", dir=fw.BUILD) as td:
        noexec = os.path.join(td, "noexec")
        open(noexec, "w").write("#!/bin/sh\nexit 0\n")
        os.chmod(noexec, 0o644)
        for k in range(n):
            kind = rng.choice(["codes", "codes", "codes", "missing", "noexec", "badopt"])
            if kind == "codes":
                outs = [rng.choice(["e0", "e0", "e1", "e3", "e125", "e255", "kill"]) for _ in range(rng.randint(1, 6))]
                data = b"".join(b"x%d\n" % i for i in range(len(outs)))
                rec = os.path.join(td, "rec%d" % k)
                env = dict(xc.ENV, FUV_RECORD=rec, FUV_EXIT_MAP=",".join("%d:%s" % (i, o[1:] if o != "kill" else "kill") for i, o in enumerate(outs)))
                p = subprocess.run([fw.XARGS, "-n", "1", fw.FUV, "record"], input=data, env=env,
                                   stdout=subprocess.DEVNULL, stderr=subprocess.DEVNULL, timeout=120)
                ninv = sum(1 for _ in open(rec)) if os.path.exists(rec) else 0
                mouts = ["s9" if o == "kill" else o for o in outs]
                toks = [(b"x%d" % i, "h") for i in range(len(outs))]
                m = fw.run_lines(fw.FUVM, [xc.model_line(1, None, None, False, False, [fw.FUV.encode(), b"record"], toks, False, mouts,
                                                         env=env)], shards=1)[0].split(" ")
                exp = (int(m[0]), len(m) - 1)
                got = (p.returncode, ninv)
                desc = "children %s" % outs
            elif kind == "missing":
                p = subprocess.run([fw.XARGS, os.path.join(td, "no-such-command")], input=b"a\n", env=xc.ENV,
                                   stdout=subprocess.DEVNULL, stderr=subprocess.PIPE)
                got, exp, desc = (p.returncode, 0, bool(p.stderr)), (127, 0, True), "command not found (with a diagnostic)"
            elif kind == "noexec":
                p = subprocess.run([fw.XARGS, noexec], input=b"a\n", env=xc.ENV,
                                   stdout=subprocess.DEVNULL, stderr=subprocess.PIPE)
                got, exp, desc = (p.returncode, 0, bool(p.stderr)), (126, 0, True), "command not executable (with a diagnostic)"
            else:
                bad_opt = rng.choice([["-n", "0"], ["-n", "x"], ["-s", "0"], ["-L", "-1"], ["-d", "ab"], ["--nonsense"]])
                p = subprocess.run([fw.XARGS] + bad_opt + ["true"], input=b"a\n", env=xc.ENV,
                                   stdout=subprocess.DEVNULL, stderr=subprocess.PIPE)
                got, exp, desc = (p.returncode, 0, bool(p.stderr)), (1, 0, True), "bad option %s (with a diagnostic)" % bad_opt
            ctx.count(("e2e", kind, desc), True, "e2e-" + kind)
            if got != exp:
                bad.append((desc, got, exp))
    for desc, got, exp in bad[:2]:
        ctx.violation("xargs binary with %s: exit %d after %d invocation(s), expected exit %d after %d" % (desc, got[0], got[1], exp[0], exp[1]),
                      {"property": "C19", "kind": "end-to-end", "what": desc, "exit": got[0], "invocations": got[1],
                       "expected_exit": exp[0], "expected_invocations": exp[1]})


def surroundings(ctx):
    """the exit status is a function of the children's outcomes - not of the signal dispositions xargs inherits (SIGCHLD ignored: the
    kernel would reap the children itself) nor of whether its diagnostics can be written (standard error on a full device)"""
    import signal
    import subprocess
    with tempfile.TemporaryDirectory(prefix="c19s-", dir=fw.BUILD) as td:
        for name, outs, opts, want_rc, want_runs in (("all-ok", [], ["-n1"], 0, 3), ("one-fails", ["0", "3"], ["-n1"], 123, 3), ("urgent", ["0", "255"], ["-n1"], 124, 2),
                                                      ("killed", ["0", "kill"], ["-n1"], 125, 2), ("verbose", [], ["-n1", "-t"], 0, 3),
                                                      ("warning", [], ["-L1", "-n1"], 0, 3)):
            for how in ("sigchld-ignored", "stderr-full", "stderr-closed-pipe"):
                rec = os.path.join(td, "rec")
                if os.path.exists(rec):
                    os.remove(rec)
                env = dict(xc.ENV, FUV_RECORD=rec, FUV_EXIT_MAP=",".join("%d:%s" % (i, o) for i, o in enumerate(outs)))
                kw = {}
                if how == "sigchld-ignored":
                    kw["preexec_fn"] = lambda: signal.signal(signal.SIGCHLD, signal.SIG_IGN)
                    kw["stderr"] = subprocess.DEVNULL
                elif how == "stderr-full":
                    kw["stderr"] = open("/dev/full", "wb")
                else:
                    r, w = os.pipe()
                    os.close(r)
                    kw["stderr"] = w
                try:
                    p = subprocess.run([fw.XARGS] + opts + [fw.FUV, "record"], input=b"a\nb\nc\n", stdout=subprocess.DEVNULL, env=env, timeout=60, **kw)
                finally:
                    if how == "stderr-full":
                        kw["stderr"].close()
                    elif how == "stderr-closed-pipe":
                        os.close(kw["stderr"])
                runs = sum(1 for _ in open(rec)) if os.path.exists(rec) else 0
                ctx.count(("surroundings", name, how), True, "surroundings")
                if (p.returncode, runs) != (want_rc, want_runs):
                    ctx.violation("xargs %s CMD, outcomes %s, %s: exit %d after %d invocation(s); expected %d after %d"
                                  % (" ".join(opts), outs or ["0", "0", "0"], how, p.returncode, runs, want_rc, want_runs),
                                  {"property": "C19", "kind": "surroundings", "options": opts, "outcomes": outs, "condition": how, "exit": p.returncode,
                                   "invocations": runs, "expected_exit": want_rc, "expected_invocations": want_runs})


def default_command(ctx):
    """the command xargs runs when none is given (echo) is an invocation like any other: when it cannot write its line it has failed
    (123, the remaining input is still processed), and no way of failing gives a status outside the documented ones"""
    import subprocess
    for opts in ([], ["-n1"], ["-I{}"], ["-i"], ["-L1"]):
        for how in ("full", "closed-pipe"):
            if how == "full":
                out = open("/dev/full", "wb")
            else:
                r, out = os.pipe()
                os.close(r)
            try:
                p = subprocess.run([fw.XARGS] + opts, input=b"a\nb c\n", stdout=out, stderr=subprocess.PIPE, env=xc.ENV, timeout=60)
            finally:
                out.close() if how == "full" else os.close(out)
            ctx.count(("default-command", tuple(opts), how), True, "default-command")
            # a full device: every echo fails (123); a pipe nobody reads: the first echo is killed by SIGPIPE (125, at once) - what a real echo does
            want = 123 if how == "full" else 125
            if p.returncode != want:
                ctx.violation("xargs %s (no command: echo) with standard output %s: exit %d; expected %d (%s)"
                              % (" ".join(opts), "on a full device" if how == "full" else "a closed pipe", p.returncode, want, p.stderr.decode("utf-8", "replace")[:100]),
                              {"property": "C19", "kind": "default-command", "options": opts, "stdout": how, "exit": p.returncode,
                               "stderr": p.stderr.decode("utf-8", "replace")[:300], "expected_exit": want})


def panic_inventory(ctx):
    """the statuses of xargs are 0, 1 and 123..127: every place in src/xargs that can end in a panic (status 101) instead is listed with
    its reason in audits/panic_sites.allow (regenerated from /repo on every run; C11 does the same for find)"""
    from tools import panic_sites
    sites = panic_sites.scan(subs=("src/xargs",))
    new = panic_sites.unlisted(subs=("src/xargs",))
    ctx.count(("panic-inventory",), True, ["panic-inventory", "sites=%d" % len(sites)])
    for f, fn, text, ln in new[:5]:
        ctx.unshown("%s:%d (fn %s): %s - a place that can panic and is not in audits/panic_sites.allow" % (f, ln, fn, text[:100]),
                    {"property": "C19", "kind": "panic-inventory", "file": f, "line": ln, "function": fn, "text": text,
                     "explain": "the inventory of panic sites is regenerated from /repo on every run; this one is new and no input reaching it was searched for",
                     "new_sites": len(new)})


def run(ctx):
    rng = ctx.rng
    cases = [gen_case(rng) for _ in range(40000 if ctx.thorough else 3000)]
    bad = compare(ctx, cases)
    for c in cases[:5]:
        ctx.sample({"options": c04.opts_of(c), "input": xc.render(c["toks"])[0].decode(), "outcomes": c["outs"], "unterminated_quote": c["quote"]})
    report(ctx, bad)
    e2e(ctx)
    surroundings(ctx)
    default_command(ctx)
    panic_inventory(ctx)


def replay(ctx, rep):
    if rep.get("kind") == "correspondence":
        c = dict(rep["case"])
        c["cmd"] = [x.encode() for x in rep["command"]]
        c["toks"] = [(fw.unhex(w), fw.unhex(s)) for w, s in rep["tokens"]]
        report(ctx, compare(ctx, [c]))
    else:
        run(ctx)
