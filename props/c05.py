"""C05 - xargs input splitting: quoting, -0/-d, independent of read() chunking.

(O1) coq/Props/C05.v.  (O2) the two private readers, reached through the cfg-guarded hook
findutils::xargs::verif::read_args, against the extracted XRead model on the same
(bytes, chunking) pairs; plus the real xargs binary fed through a pipe."""
import itertools
import os
import subprocess
import tempfile

from lib import framework as fw

RULE = ("(byte string, chunking, mode) triples: exhaustive strings over {a,SP,NL,TAB,',\",\\,0xC3,0xA9} up to a length bound x all "
        "compositions into chunks, random longer strings with cuts around 4095/4096/4097, modes ws / -0 / -d NL / -d a; "
        "non-trivial = distinct triple containing at least one separator, quote or backslash byte")
ASSUMPTIONS = [
    "BufReader::read_until (std) is chunk independent; exercised through the hook with caller-chosen chunks, not modelled",
    "a read() returning 0 bytes is end of file (the reader's own assumption)",
    "arguments reach the command through OsString/Command::args unchanged (exercised end to end with the real binary)",
]
ALPHA = [0x61, 0x20, 0x0A, 0x09, 0x27, 0x22, 0x5C, 0xC3, 0xA9]
SPECIAL = {0x20, 0x0A, 0x09, 0x27, 0x22, 0x5C, 0x0C, 0x0D, 0x0B, 0x00}


def compositions(n):
    """all ways to cut a string of length n into non-empty chunks (as lists of lengths)"""
    if n == 0:
        return [[]]
    out = []
    for mask in range(1 << (n - 1)):
        cur, ls = 1, []
        for i in range(n - 1):
            if mask >> i & 1:
                ls.append(cur)
                cur = 1
            else:
                cur += 1
        ls.append(cur)
        out.append(ls)
    return out


def cut(b, lens):
    out, i = [], 0
    for l in lens:
        out.append(b[i:i + l])
        i += l
    return out


def line_for(mode, chunks):
    cs = ",".join(fw.hexs(c) for c in chunks) if chunks else "-"
    if mode in ("ws", "wl"):
        return "xread %s %s" % (mode, cs)
    return "xread bd %d %s" % (mode, cs)


def gen_cases(ctx):
    rng = ctx.rng
    cases = []   # (mode, bytes, lens)
    maxlen = 5 if ctx.thorough else 4
    for n in range(0, maxlen + 1):
        comps = compositions(n)
        for tup in itertools.product(ALPHA, repeat=n):
            b = bytes(tup)
            for lens in comps:
                cases.append(("ws", b, lens))
                if n <= maxlen - 1:
                    cases.append(("wl", b, lens))      # the whole-line reader of -I (same state machine, blanks inside a line kept)
    # byte-delimited modes: shorter exhaustive sweep
    for d in (0, 10, 0x61):
        alpha = [d, 0x62, 0x20, 0x27, 0x5C, 0xC3] if d != 0x20 else [d, 0x62]
        for n in range(0, 5 if ctx.thorough else 4):
            comps = compositions(n)
            for tup in itertools.product(alpha, repeat=n):
                for lens in comps:
                    cases.append((d, bytes(tup), lens))
    # random longer strings, cuts at the buffer edge
    nrand = 4000 if ctx.thorough else 400
    pool = ALPHA + [0x0C, 0x0D, 0x0B, 0x62, 0x00, 0xFF, 0xE2, 0x82, 0xAC]
    for k in range(nrand):
        n = rng.choice([6, 7, 8, 12, 40, 300, 4095, 4096, 4097, 8193, 10000]) if k % 4 == 0 else rng.randint(5, 30)
        weights = [rng.random() for _ in pool]
        b = bytes(rng.choices(pool, weights=weights, k=n))
        lens, left = [], n
        while left > 0:
            l = rng.choice([1, 1, 2, 3, 5, 4095, 4096, 4097, left])
            l = max(1, min(l, left))
            lens.append(l)
            left -= l
        mode = rng.choice(["ws", "ws", "ws", "wl", "wl", 0, 10, 0x20, 0x27])
        cases.append((mode, b, lens))
    if not ctx.thorough:
        # keep the quick tier to about a minute: sample the exhaustive part down deterministically
        if len(cases) > 90000:
            head = [c for c in cases if len(c[1]) <= 3]
            tail = [c for c in cases if len(c[1]) > 3]
            rng.shuffle(tail)
            cases = head + tail[:90000 - len(head)]
    return cases


def compare(ctx, cases):
    lines = [line_for(m, cut(b, lens)) for (m, b, lens) in cases]
    impl = fw.run_lines(fw.FUV, lines)
    model = fw.run_lines(fw.FUVM, lines)
    bad = []
    for c, li, i, m in zip(cases, lines, impl, model):
        mode, b, lens = c
        nontriv = any(x in SPECIAL or x == mode for x in b)
        ctx.count((mode, b, tuple(lens)), nontriv,
                  ["mode=%s" % (mode if mode in ("ws", "wl") else "delim"), "len=%s" % ("0-3" if len(b) <= 3 else "4-6" if len(b) <= 6 else "7+"),
                   "result=%s" % (m.split(" ")[0])])
        if i != m:
            bad.append((c, li, i, m))
    return bad


def shrink(case):
    """smallest (bytes, chunking) still disagreeing"""
    mode, b, lens = case

    def fails(bb, ll):
        li = line_for(mode, cut(bb, ll))
        return fw.run_lines(fw.FUV, [li], shards=1) != fw.run_lines(fw.FUVM, [li], shards=1)
    # first try the flat chunking and 1-byte chunking, then drop bytes
    for ll in ([len(b)] if b else [], [1] * len(b)):
        if fails(b, ll):
            lens = ll
            break
    cur = list(b)
    flat = lens == [len(b)]
    ones = lens == [1] * len(b)
    if flat or ones:
        def still(cand):
            bb = bytes(cand)
            return fails(bb, ([len(bb)] if bb else []) if flat else [1] * len(bb))
        cur = fw.shrink_list(cur, still)
        b = bytes(cur)
        lens = ([len(b)] if b else []) if flat else [1] * len(b)
    return (mode, b, lens)


def report(ctx, bad):
    seen = 0
    for c, li, i, m in bad[:3]:
        mode, b, lens = shrink(c)
        li = line_for(mode, cut(b, lens))
        i = fw.run_lines(fw.FUV, [li], shards=1)[0]
        m = fw.run_lines(fw.FUVM, [li], shards=1)[0]
        ctx.violation("reader disagrees with the proved model on %r chunks %r mode %r: impl %s, model %s" % (b, lens, mode, i, m),
                      {"property": "C05", "kind": "correspondence", "mode": mode, "bytes_hex": fw.hexs(b), "chunk_lengths": lens,
                       "implementation": i, "model_and_spec": m,
                       "explain": "C05_words_exact / C05_delim_verbatim / C05_chunk_independent prove the model's answer is what the property demands for this input; the implementation differs",
                       "reproduce": "echo '%s' | %s   (hook read_args), or pipe the bytes to xargs" % (li, fw.FUV),
                       "total_disagreements": len(bad)})
        seen += 1


def e2e(ctx):
    """the same bytes through the real binary and a pipe, written in several write() sizes"""
    rng = ctx.rng
    n = 150 if ctx.thorough else 25
    pool = [0x61, 0x62, 0x20, 0x0A, 0x09, 0x27, 0x22, 0x5C, 0xC3, 0xA9, 0xFF]
    bad = []
    with tempfile.TemporaryDirectory(prefix="c05-", dir=fw.BUILD) as td:
        for k in range(n):
            b = bytes(rng.choices(pool, k=rng.randint(0, 40)))
            mode = rng.choice(["ws", "ws", 0, 10])
            rec = os.path.join(td, "rec%d" % k)
            args = [fw.XARGS] + ([] if mode == "ws" else ["-0"] if mode == 0 else ["-d", "\\n"]) + [fw.FUV, "record"]
            env = dict(os.environ, FUV_RECORD=rec)
            p = subprocess.Popen(args, stdin=subprocess.PIPE, stdout=subprocess.DEVNULL, stderr=subprocess.DEVNULL, env=env)
            try:
                i = 0
                while i < len(b):
                    l = rng.choice([1, 2, 7, len(b)])
                    p.stdin.write(b[i:i + l])
                    p.stdin.flush()
                    i += l
                p.stdin.close()
            except BrokenPipeError:
                pass
            rc = p.wait(timeout=60)
            got = []
            if os.path.exists(rec):
                for line in open(rec):
                    got += [fw.unhex(x) for x in line.split()[1:]]
            m = fw.run_lines(fw.FUVM, [line_for(mode, [b] if b else [])], shards=1)[0]
            if m == "err":
                exp, exprc = None, 1
            else:
                exp = [fw.unhex(t.split(":")[0]) for t in m.split(" ")[1:]]
                exprc = 0
            ctx.count(("e2e", mode, b), True, "e2e")
            ok = (rc == exprc) and (exp is None or got == exp)
            # NUL cannot be passed in an argv element; only the ws mode can produce one and exec rejects it
            if exp is not None and any(b"\0" in t for t in exp):
                continue
            if not ok:
                bad.append((mode, b, rc, got, exprc, exp))
    for mode, b, rc, got, exprc, exp in bad[:2]:
        ctx.violation("xargs binary delivered %r (exit %d) for input %r, expected %r (exit %d)" % (got, rc, b, exp, exprc),
                      {"property": "C05", "kind": "end-to-end", "mode": mode, "bytes_hex": fw.hexs(b),
                       "delivered": [fw.hexs(x) for x in got], "exit": rc,
                       "expected": None if exp is None else [fw.hexs(x) for x in exp], "expected_exit": exprc,
                       "reproduce": "printf BYTES | %s %s record  with FUV_RECORD set" % (fw.XARGS, fw.FUV)})


def echo_bytes(ctx):
    """ "every other byte reaches the command unchanged" when the command is the built-in echo too: with -0 / -d and no command the
    arguments are written as they are, separated by blanks"""
    rng = ctx.rng
    pool = [0x61, 0x62, 0x27, 0x22, 0x5C, 0xC3, 0xA9, 0xFF, 0xFE, 0x80, 0x09]
    for k in range(30 if ctx.thorough else 8):
        fields = [bytes(rng.choices(pool, k=rng.randint(1, 6))) for _ in range(rng.randint(1, 4))]
        for opt, sep in ((["-0"], b"\0"), (["-d", "\\n"], b"\n")):
            p = subprocess.run([fw.XARGS] + opt, input=sep.join(fields) + sep, stdout=subprocess.PIPE, stderr=subprocess.PIPE, timeout=60)
            ctx.count(("echo", tuple(opt), tuple(fields)), True, "built-in-echo")
            if p.returncode != 0 or p.stdout != b" ".join(fields) + b"\n":
                ctx.violation("xargs %s (no command) wrote %r for the arguments %r (exit %d)" % (" ".join(opt), p.stdout, fields, p.returncode),
                              {"property": "C05", "kind": "built-in-echo", "options": opt, "arguments": [fw.hexs(f) for f in fields],
                               "output": fw.hexs(p.stdout), "expected": fw.hexs(b" ".join(fields) + b"\n"), "exit": p.returncode})
                return


def run(ctx):
    cases = gen_cases(ctx)
    bad = compare(ctx, cases)
    for c in cases[:: max(1, len(cases) // 6)][:6]:
        ctx.sample({"mode": c[0], "bytes_hex": fw.hexs(c[1]), "chunk_lengths": c[2]})
    ctx.cov["exhaustive"] = False
    ctx.notes.append("exhaustive part: all strings of length <= %d over a 9-byte alphabet x all chunkings (ws mode)%s"
                     % (5 if ctx.thorough else 3, "" if ctx.thorough else "; length 4 sampled"))
    report(ctx, bad)
    e2e(ctx)
    echo_bytes(ctx)


def replay(ctx, rep):
    if rep.get("kind") == "correspondence":
        b = fw.unhex(rep["bytes_hex"])
        bad = compare(ctx, [(rep["mode"], b, rep["chunk_lengths"])])
        report(ctx, bad)
    else:
        run(ctx)
