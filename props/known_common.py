"""Scenarios for recorded findings that several properties share (KNOWN_FINDINGS.txt).

Each scenario runs the real binary on the listed input class and compares with what the PROPERTY demands.  While the
implementation still shows the documented behaviour and the finding is listed as `known:` for the property, a
KNOWN-FINDING line is printed; the demanded behaviour passes silently; anything else is a violation."""
import os
import subprocess

from lib import framework as fw
from props import xargs_common as xc


def _judge(ctx, prop, fid, what, ok, documented, detail):
    if ok:
        return
    if documented and ctx.is_known(fid):
        ctx.known_finding(fid, what)
    else:
        ctx.violation("%s: %s" % (what, detail), dict({"property": prop, "kind": "known-class-changed" if ctx.is_known(fid) else fid}, **{"detail": detail}))


def _run(argv, cwd, data=None, timeout=120):
    p = subprocess.run(argv, input=data, stdout=subprocess.PIPE, stderr=subprocess.PIPE, cwd=cwd, env=xc.ENV, timeout=timeout)
    return p.returncode, p.stdout, p.stderr


def argv_not_utf8_find(ctx, prop, base, mode):
    """a command-line argument that is not UTF-8: std::env::args() panics before anything is processed"""
    d = os.path.join(base, b"nu8")
    os.makedirs(os.path.join(d, b"d"), exist_ok=True)
    os.makedirs(os.path.join(d, b"bad\xff"), exist_ok=True)
    open(os.path.join(d, b"d", b"f"), "wb").close()
    open(os.path.join(d, b"bad\xff", b"z"), "wb").close()
    if mode == "starting-point":
        argv = [fw.FIND.encode(), b"d", b"bad\xff", b"-print0"]
        want = b"d\0d/f\0bad\xff\0bad\xff/z\0"
        what = "find d $'bad\\xff' -print0 (a starting point that is not UTF-8) panics: nothing is walked"
    else:
        argv = [fw.FIND.encode(), b"d/f", b"-exec", b"printf", b"%s|", b"a\xffb", b"{}", b";"]
        want = b"a\xffb|d/f|"
        what = "find d/f -exec printf %s| $'a\\xffb' {} ; (an argument template that is not UTF-8) panics: CMD is never run"
    rc, out, err = _run(argv, d)
    ctx.count(("argv-not-utf8", mode), True, "known-finding-scenarios")
    _judge(ctx, prop, "argv-not-utf8", what, rc == 0 and out == want, rc == 101 and b"panicked" in err and out == b"",
           "exit %d, output %r; demanded %r" % (rc, out, want))


def argv_not_utf8_xargs(ctx, prop, base):
    rc, out, err = _run([fw.XARGS.encode(), b"-I{}", b"printf", b"%s|", b"p\xffq", b"{}"], base, data=b"ok\n")
    ctx.count(("argv-not-utf8", "xargs"), True, "known-finding-scenarios")
    _judge(ctx, prop, "argv-not-utf8", "xargs -I{} printf %s| $'p\\xffq' {} (an initial argument that is not UTF-8) panics: nothing is run",
           rc == 0 and out == b"p\xffq|ok|", rc == 101 and b"panicked" in err and out == b"", "exit %d, output %r" % (rc, out))


def files0_not_utf8(ctx, prop, base):
    d = os.path.join(base, b"f0nu8")
    for sub in (b"d", b"bad\xff", b"e"):
        os.makedirs(os.path.join(d, sub), exist_ok=True)
    open(os.path.join(d, b"bad\xff", b"z"), "wb").close()
    open(os.path.join(d, b"L"), "wb").write(b"d\0bad\xff\0e\0")
    rc, out, err = _run([fw.FIND, "-files0-from", "L", "-print0"], d)
    ctx.count(("files0-not-utf8",), True, "known-finding-scenarios")
    _judge(ctx, prop, "files0-not-utf8", "find -files0-from FILE silently drops a name that is not UTF-8 (the directory bad\\xff is never walked, exit 0)",
           rc == 0 and out == b"d\0bad\xff\0bad\xff/z\0e\0", rc == 0 and out == b"d\0e\0", "exit %d, output %r" % (rc, out))


def i_equals(ctx, prop, base):
    rc, out, err = _run([fw.XARGS, "-I=x", "printf", "[%s]", "p=xq", "pxq"], base, data=b"a b\n")
    ctx.count(("I-equals",), True, "known-finding-scenarios")
    _judge(ctx, prop, "I-equals", "xargs -I=x takes x (not =x) for the replacement string: clap strips the '=' of a short option",
           rc == 0 and out == b"[pa bq][pxq]", rc == 0 and out == b"[p=a bq][pa bq]", "exit %d, output %r" % (rc, out))


def deep_tree(base, levels=25, width=200):
    """base/deep/<width x 'd'>/... , one file per level; returns the number of entries"""
    root = os.path.join(base, b"deep")
    os.mkdir(root)
    cwd = os.getcwd()
    try:
        os.chdir(root)
        for _ in range(levels):
            os.mkdir(b"d" * width)
            os.chdir(b"d" * width)
            open(b"f", "wb").close()
    finally:
        os.chdir(cwd)
    return 1 + 2 * levels


def path_max(ctx, prop, base):
    d = os.path.join(base, b"pm")
    os.makedirs(d, exist_ok=True)
    n = deep_tree(d)
    rc, out, err = _run([fw.FIND, "deep", "-print0"], d)
    got = out.count(b"\0")
    ctx.count(("path-max",), True, "known-finding-scenarios")
    _judge(ctx, prop, "path-max", "a tree deeper than PATH_MAX: entries below the first directory whose path exceeds 4095 bytes are not visited "
           "(walkdir opens directories by their full path: ENAMETOOLONG, diagnosed, exit 1)",
           rc == 0 and got == n, rc == 1 and 0 < got < n and b"File name too long" in err, "exit %d, %d of %d entries" % (rc, got, n))


def paren_depth(ctx, prop, base, depth=4000):
    d = os.path.join(base, b"pd")
    os.makedirs(d, exist_ok=True)
    open(os.path.join(d, b"a"), "wb").close()
    argv = [fw.FIND, "a"] + ["("] * depth + ["-print"] + [")"] * depth
    rc, out, err = _run(argv, d)
    ctx.count(("paren-depth",), True, "known-finding-scenarios")
    _judge(ctx, prop, "paren-depth", "parentheses nested %d deep: build_matcher_tree recurses once per '(' with a large frame and overflows the stack" % depth,
           rc == 0 and out == b"a\n", rc < 0 and b"overflowed its stack" in err and out == b"", "exit %d, output %r" % (rc, out))


def unprivileged(base):
    """a prefix that runs a command as an unprivileged user (the checks run as root, which no permission bit stops), or None where that is
    not possible or the directory cannot be reached by that user"""
    import shutil
    sp = shutil.which("setpriv")
    if sp is None or os.geteuid() != 0:
        return None
    pre = [sp, "--reuid=65534", "--regid=65534", "--clear-groups"]
    d = base
    while d.startswith(fw.BUILD.encode() + b"/"):          # the scratch directories are ours: let others pass through them
        os.chmod(d, os.stat(d).st_mode | 0o055)
        d = os.path.dirname(d)
    try:
        ok = subprocess.run(pre + ["/bin/ls", base.decode()], stdout=subprocess.DEVNULL, stderr=subprocess.DEVNULL, timeout=30).returncode == 0
    except OSError:
        ok = False
    return pre if ok else None


def chown_tree(base, uid=65534):
    for root, dirs, files in os.walk(base):
        for n in [root] + [os.path.join(root, f) for f in files]:
            os.lchown(n, uid, uid)
