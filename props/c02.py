"""C02 - find traversal: every in-range entry visited exactly once under -P/-H/-L.

(O1) coq/Props/C02.v.  (O2) find_main in-process on generated trees with symbolic links (to files,
directories inside and outside, ancestors, themselves, nothing, other links), under every follow
mode, depth pair (including mindepth > maxdepth), -depth on/off, one or two starting points,
against the extracted Walk model fed with an independent unfolding of the tree."""
import os

from lib import framework as fw
from lib import fstree
from props import walk_common as wc
from props import known_common as kc
from props import xargs_common as xc

RULE = ("(tree, follow mode, mindepth, maxdepth, -depth, starting points) configurations on random trees (<= 30 entries, depth <= 5, 22% symbolic "
        "links of 10 kinds); non-trivial = distinct configuration whose expected visit sequence has at least 3 entries or contains a diagnosed entry")
ASSUMPTIONS = [
    "the unfolding of symbolic links per follow mode (which link is dangling, which closes a cycle) is computed by lib/fstree.py with os.stat/lstat and validated against the implementation, not proved",
    "readdir order is made deterministic with -sorted (byte-wise name order)",
    "unreadable directories (chmod 000) are not exercised: the checks run as root",
]


def bucket(c, events, ufs):
    kinds = set()
    for uf in ufs:
        for n in uf.nodes.values():
            kinds.add(n.get("kind", "?"))
    b = ["mode=" + c["mode"], "post=%d" % bool(c.get("post")), "roots=%d" % len(c["roots"]),
         "range=%s" % ("empty" if (c.get("mind") or 0) > (c["maxd"] if c.get("maxd") is not None else 10**9) else "bounded" if (c.get("mind") or c.get("maxd") is not None) else "all")]
    b += ["has-" + k for k in kinds if k in ("dangling", "loop", "badlink", "link-to-dir", "missing")]
    return (len(events) >= 3 or any(k == "X" for k, _ in events)), b


def gen_cases(ctx, forest, ntrees, per_tree):
    rng = ctx.rng
    cases = []
    names = []
    other = forest.other_device()
    if other is None:
        ctx.notes.append("no second file system at /dev/shm: -xdev cases have nothing to stop at")
    for k in range(ntrees):
        nm = b"t%d" % k
        spec = fstree.gen_tree(rng)
        if other is not None and rng.random() < 0.5:
            # a link to a directory on another file system, somewhere in the tree: followed under -L, where -xdev stops at it
            dirs = [sp for pth, sp in fstree.all_paths(spec) if sp[0] == "d"]
            rng.choice(dirs)[1][rng.choice([b"xd", b"A0"])] = ("l", other)
        forest.add(nm, spec)
        names.append(nm)
    # starting points that are themselves links / missing
    fstree_links = {b"rl_dir": b"t0", b"rl_file": b"t0/" + (next((n for n, s in forest.trees[b"t0"][1].items() if s[0] == "f"), b"nofile")),
                    b"rl_dang": b"nowhere", b"rl_self": b"rl_self"}
    import os
    for l, tgt in fstree_links.items():
        os.symlink(tgt, os.path.join(forest.dir, l))
        forest.trees[l] = ("l", tgt)
    for k, nm in enumerate(names):
        for _ in range(per_tree):
            mode = rng.choice(["P", "H", "L", "L", "follow", "default"])
            r = rng.random()
            if r < 0.55:
                mind, maxd = None, None
            else:
                mind = rng.choice([None, 0, 1, 2, 3])
                maxd = rng.choice([None, 0, 1, 2, 3, 4])
            roots = [nm]
            r2 = rng.random()
            if r2 < 0.15:
                roots = [nm, rng.choice(names)]
            elif r2 < 0.3:
                roots = [rng.choice(list(fstree_links))] + ([nm] if rng.random() < 0.5 else [])
            elif r2 < 0.36:
                roots = [b"missing_root", nm]
            post = rng.random() < 0.4
            # (-H, -depth and a starting point that is a link to a directory used to be excluded here: the former known finding
            # H-rootlink-depth, repaired by 0b78d01)
            cases.append(dict(treekey=(ctx.seed, k), roots=roots, mode=mode, mind=mind, maxd=maxd, post=post, post_late=rng.choice([None, None, "-depth"]), prune=None,
                              xdev=rng.choice([None, None, "-xdev", "-mount"])))
    return cases


def report(ctx, forest, bad, pid="C02"):
    for c, got, exp in bad[:2]:
        ctx.violation("find %s: exit %s, visited %r; the proved model (every in-range entry once, DFS order): exit %s, %r"
                      % (" ".join(wc.find_args(c)), got[0], got[1].split(b"\0")[:-1], exp[0], exp[1].split(b"\0")[:-1]),
                      {"property": pid, "kind": "correspondence", **wc.describe(forest, c),
                       "case": {k: (v if not isinstance(v, (bytes, list)) else None) for k, v in c.items()},
                       "roots": [r.decode() for r in c["roots"]], "prune": [p.decode() for p in (c.get("prune") or [])],
                       "implementation": {"exit": got[0], "stdout_hex": fw.hexs(got[1]), "stderr": got[2].decode("utf-8", "replace")[:300]},
                       "model_and_spec": {"exit": exp[0], "stdout_hex": fw.hexs(exp[1]), "diagnostics": exp[2]},
                       "explain": "%s theorems prove the model's sequence is the one the property demands; the implementation differs" % pid,
                       "total_disagreements": len(bad)})


def _find(base, args, pre=()):
    import subprocess
    p = subprocess.run(list(pre) + [fw.FIND] + args, stdout=subprocess.PIPE, stderr=subprocess.PIPE, cwd=base, env=xc.ENV, timeout=120)
    return p.returncode, p.stdout.split(b"\0")[:-1], p.stderr


def _expect(ctx, kind, args, got, want, what):
    code, out, err = got
    wcode, wout = want
    ctx.count((kind, tuple(args)), True, kind)
    if (code, out) != (wcode, wout):
        ctx.violation("find %s: visited %s, exit %d; %s: %s, exit %d" % (" ".join(args), [x.decode() for x in out], code, what, [x.decode() for x in wout], wcode),
                      {"property": "C02", "kind": kind, "find_args": args, "visited": [x.decode() for x in out], "exit": code,
                       "expected": [x.decode() for x in wout], "expected_exit": wcode, "stderr": err.decode("utf-8", "replace")[:300]})


def xdev_entries(ctx, forest):
    """-xdev/-mount must not cost an entry: a starting point that is a link which cannot be resolved (under -P it is reported like any
    link), and - as an unprivileged user - directories whose parent may be listed but not searched (reported, then diagnosed)"""
    base = os.path.join(forest.dir, b"xe")
    os.makedirs(os.path.join(base, b"dir"))
    open(os.path.join(base, b"dir", b"f"), "wb").close()
    os.symlink(b"loop", os.path.join(base, b"loop"))
    for args, want in ((["loop", "dir", "-xdev", "-sorted", "-print0"], (0, [b"loop", b"dir", b"dir/f"])),
                       (["-P", "loop", "dir", "-mount", "-depth", "-sorted", "-print0"], (0, [b"loop", b"dir/f", b"dir"])),
                       (["loop", "-xdev", "-maxdepth", "0", "-print0"], (0, [b"loop"]))):
        _expect(ctx, "xdev-entries", args, _find(base, args), want, "every entry is reported with -xdev as without")
    for sub in (b"t/r/sub", b"t/r/sub2"):
        os.makedirs(os.path.join(base, sub))
    for f in (b"t/r/f", b"t/r/sub/in", b"t/after"):
        open(os.path.join(base, f), "wb").close()
    pre = kc.unprivileged(base)
    if pre is None:
        ctx.notes.append("xdev_entries: no unprivileged user available here, the unsearchable-directory scenario was skipped")
        return
    kc.chown_tree(os.path.join(base, b"t"))
    os.chmod(os.path.join(base, b"t", b"r"), 0o444)
    try:
        for args in (["t", "-sorted", "-xdev", "-print0"], ["t", "-sorted", "-print0"]):
            _expect(ctx, "xdev-entries", args, _find(base, args, pre), (1, [b"t", b"t/after", b"t/r", b"t/r/f", b"t/r/sub", b"t/r/sub2"]),
                    "directories that can be listed but not entered are reported and diagnosed")
    finally:
        os.chmod(os.path.join(base, b"t", b"r"), 0o755)


def late_cycle(ctx, forest):
    """-L: a link to a directory above the starting point leads back into it: the directory that closes the cycle is diagnosed, not
    walked a second time - also when -maxdepth ends the walk inside the second lap"""
    base = os.path.join(forest.dir, b"lc")
    os.makedirs(os.path.join(base, b"top", b"r"))
    open(os.path.join(base, b"top", b"r", b"f"), "wb").close()
    os.symlink(b"..", os.path.join(base, b"top", b"r", b"up"))
    for args, want in ((["-L", "top/r", "-sorted", "-print0"], (1, [b"top/r", b"top/r/f", b"top/r/up"])),
                       (["-L", "top/r", "-sorted", "-maxdepth", "2", "-print0"], (1, [b"top/r", b"top/r/f", b"top/r/up"])),
                       (["-L", "top/r", "-sorted", "-depth", "-print0"], (1, [b"top/r/f", b"top/r/up", b"top/r"])),
                       (["-L", "top/r", "-sorted", "-maxdepth", "1", "-print0"], (0, [b"top/r", b"top/r/f", b"top/r/up"]))):
        _expect(ctx, "late-cycle", args, _find(base, args), want, "no entry is evaluated twice and the cycle is diagnosed")


def unreadable_directory(ctx, forest):
    """a directory that cannot be read (unprivileged user, mode 000 / 311): it is an in-range entry like any other, reading it gives one
    diagnostic - none at the depth bound, where nothing is read - and siblings and later starting points are still processed.  The
    unfolding is computed as that user (so that listing the directory fails for the reference as it does for find) and walked by the model."""
    import json
    import subprocess
    import sys
    base = os.path.join(forest.dir, b"ur")
    for sub in (b"t/locked/deep", b"t/open", b"t/wx", b"u"):
        os.makedirs(os.path.join(base, sub))
    for f in (b"t/locked/in", b"t/open/in", b"t/wx/in", b"t/z", b"u/f"):
        open(os.path.join(base, f), "wb").close()
    pre = kc.unprivileged(base)
    if pre is None:
        ctx.notes.append("unreadable_directory: no unprivileged user available here, scenario skipped")
        return
    kc.chown_tree(base)
    os.chmod(os.path.join(base, b"t", b"locked"), 0)
    os.chmod(os.path.join(base, b"t", b"wx"), 0o311)
    code_py = ("import sys, json; sys.path.insert(0, %r); from lib import fstree; t, uf = fstree.unfold(sys.argv[1].encode(), sys.argv[2]); "
               "print(json.dumps([t, {str(k): v.get('path', b'').decode() for k, v in uf.nodes.items()}]))" % fw.VERIF)
    try:
        for roots, extra, mind, maxd, post in (([b"t", b"u"], [], 0, 1000, 0), ([b"t"], ["-depth"], 0, 1000, 1), ([b"t"], ["-maxdepth", "1"], 0, 1, 0),
                                               ([b"t", b"u"], ["-mindepth", "2"], 2, 1000, 0), ([b"t"], ["-maxdepth", "2", "-depth"], 0, 2, 1)):
            exp_out, exp_diag = [], 0
            for r in roots:
                q = subprocess.run(list(pre) + [sys.executable, "-c", code_py, r.decode(), "P"], stdout=subprocess.PIPE, stderr=subprocess.PIPE, cwd=base, timeout=60)
                if q.returncode != 0:
                    ctx.notes.append("unreadable_directory: the unfolding could not be computed as the unprivileged user: %s" % q.stderr.decode()[-200:])
                    return
                tree, paths = json.loads(q.stdout)
                m = fw.run_lines(fw.FUVM, ["walk %d %d %d ~ %s" % (mind, maxd, post, tree)], shards=1)[0]
                for ev in ([] if m == "~" else m.split(" ")):
                    ident = ev[1:].split(":")[0]
                    last = "0" if ident == "r" else ident.split(".")[-1]
                    if ev[0] == "X":
                        exp_diag += 1
                    else:
                        exp_out.append(paths[last].encode())
            args = [r.decode() for r in roots] + ["-sorted"] + extra + ["-print0"]
            code, out, err = _find(base, args, pre)
            ndiag = len([l for l in err.split(b"\n") if l.startswith(b"Error")])
            ctx.count(("unreadable-directory", tuple(args)), True, "unreadable-directory")
            if (code, out, ndiag) != (1 if exp_diag else 0, exp_out, exp_diag):
                ctx.violation("find %s as an unprivileged user (t/locked mode 000, t/wx mode 311): exit %d, visited %s, %d diagnostic(s); the model on the unfolding that user sees: exit %d, %s, %d"
                              % (" ".join(args), code, [x.decode() for x in out], ndiag, 1 if exp_diag else 0, [x.decode() for x in exp_out], exp_diag),
                              {"property": "C02", "kind": "unreadable-directory", "find_args": args, "exit": code, "visited": [x.decode() for x in out],
                               "diagnostics": ndiag, "expected": [x.decode() for x in exp_out], "expected_diagnostics": exp_diag, "stderr": err.decode("utf-8", "replace")[:300]})
    finally:
        os.chmod(os.path.join(base, b"t", b"locked"), 0o755)
        os.chmod(os.path.join(base, b"t", b"wx"), 0o755)


def follow_unopenable(ctx, forest):
    """known finding L-unopenable-link: under -L a link to a directory that cannot be opened is not visited (walkdir opens the target to
    look for a loop and reports the failure without a path)"""
    base = os.path.join(forest.dir, b"fu")
    for sub in (b"t/locked", b"t/open"):
        os.makedirs(os.path.join(base, sub))
    for f in (b"t/locked/in", b"t/open/in", b"t/z"):
        open(os.path.join(base, f), "wb").close()
    os.symlink(b"locked", os.path.join(base, b"t", b"l"))
    pre = kc.unprivileged(base)
    if pre is None:
        ctx.notes.append("follow_unopenable: no unprivileged user available here, scenario skipped")
        return
    kc.chown_tree(os.path.join(base, b"t"))
    os.chmod(os.path.join(base, b"t", b"locked"), 0)
    try:
        args = ["-L", "t", "-sorted", "-maxdepth", "1", "-print0"]
        code, out, err = _find(base, args, pre)
    finally:
        os.chmod(os.path.join(base, b"t", b"locked"), 0o755)
    want = [b"t", b"t/l", b"t/locked", b"t/open", b"t/z"]
    ctx.count(("L-unopenable-link",), True, "known-finding-scenarios")
    kc._judge(ctx, "C02", "L-unopenable-link", "find -L t -maxdepth 1 as an unprivileged user, t/l -> a directory that cannot be opened: t/l is not visited, "
              "the diagnostic names no file, exit 1 (nothing needed opening)", (code, out) == (0, want),
              code == 1 and out == [x for x in want if x != b"t/l"] and b"Permission denied" in err, "exit %d, visited %s" % (code, [x.decode() for x in out]))


def run(ctx):
    forest = wc.Forest("c02-")
    try:
        cases = gen_cases(ctx, forest, 250 if ctx.thorough else 30, 24 if ctx.thorough else 10)
        bad = wc.run_cases(ctx, forest, cases, bucket)
        for c in cases[:4]:
            ctx.sample(wc.describe(forest, c))
        report(ctx, forest, bad)
        kc.path_max(ctx, "C02", forest.dir)
        xdev_entries(ctx, forest)
        late_cycle(ctx, forest)
        follow_unopenable(ctx, forest)
        unreadable_directory(ctx, forest)
    finally:
        forest.close()


def replay(ctx, rep, pid="C02", bucket_fn=None):
    if rep.get("kind") != "correspondence":
        return run(ctx)
    forest = wc.Forest("c02r-")
    try:
        import os
        c = dict(rep["case"])
        c["roots"] = [r.encode() for r in rep["roots"]]
        c["prune"] = [p.encode() for p in rep["prune"]] or None
        c["treekey"] = "replay"
        def remap(sp):
            # the directory on the other file system has a new name in every run
            if sp[0] == "l" and sp[1].startswith(b"/dev/shm/fuv-xdev-"):
                return ("l", forest.other_device() or sp[1])
            if sp[0] == "d":
                return ("d", {k: remap(v) for k, v in sp[1].items()})
            return sp
        for r, spec in rep["trees"].items():
            s = remap(wc.spec_from_json(spec))
            if s[0] == "l":
                os.symlink(s[1], os.path.join(forest.dir, r.encode()))
                forest.trees[r.encode()] = s
            else:
                forest.add(r.encode(), s)
        # link targets of link roots may need t0
        bad = wc.run_cases(ctx, forest, [c], bucket_fn or bucket)
        report(ctx, forest, bad, pid)
    finally:
        forest.close()
