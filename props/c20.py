"""C20 - xargs -I: one run per input line, every occurrence replaced by the whole line.

(O1) coq/Props/C20.v.  (O2) xargs_main in-process (recorder hook) against the extracted
XArgs / XReplace models: which mode is in force (normalize), the batches, and the rewritten argv."""
from lib import framework as fw
from props import xargs_common as xc
from props import known_common as kc

RULE = ("(option order over -I R / --replace[=R] / -i / -n k / -L k, initial arguments with 0..3 occurrences of R, input lines with blanks "
        "and R itself, empty lines, empty input) cases; non-trivial = distinct case with a replace option and at least one input line")
ASSUMPTIONS = [
    "the substitution is leftmost non-overlapping replacement on bytes (replace_all in src/xargs/mod.rs, modelled by XReplace.replace_all and compared on every case, lines that are not UTF-8 included)",
    "clap reports option positions through indices_of; only the relative order of the last occurrences is used",
    "lines are free of quotes, backslashes and leading blanks (the property's own restriction)",
]
RS = [b"{}", b"{}", b"_", b"%%", b"ab", "é".encode(), b"{", b"-x"]
WORDS = [b"a", b"b", b"foo", b"x-y", b"{}", b"_", b"ab", b"%%", "é".encode(), b"{", b"}", b"\xffz", b"a\xfe", b"-x"]


def gen_case(rng):
    R = rng.choice(RS)
    optkinds = []
    r_form = rng.choice(["I", "I", "I", "long=", "long", "i"])
    if r_form in ("long", "i"):
        R = b"{}"
    optkinds.append("R")
    if rng.random() < 0.45:
        optkinds.append("n")
    if rng.random() < 0.35:
        optkinds.append("L")
    if rng.random() < 0.1:
        optkinds.remove("R")
        if not optkinds:
            optkinds.append("n")
    # (a repeated -I/--replace is a clap usage error in this implementation; the property does not speak about it)
    rng.shuffle(optkinds)
    n = rng.choice([1, 1, 2, 3])
    L = rng.choice([1, 2])
    opts, pos, i = [], {}, 0
    occ = [(k, False) for k in optkinds]
    if rng.random() < 0.2:
        # the same option once more, earlier, with another value: the last occurrence is the one that counts
        k = rng.choice(optkinds)
        occ.insert(rng.randint(0, occ.index((k, False))), (k, True))
    for k, earlier in occ:
        if k == "R":
            if earlier:
                o = ["-I", rng.choice([x for x in RS if x != R]).decode()]
            else:
                o = {"I": ["-I", R.decode()], "long=": ["--replace=" + R.decode()], "long": ["--replace"], "i": ["-i"]}[r_form]
        elif k == "n":
            o = ["-n", str(n + 1 if earlier else n)]
        else:
            o = ["-L", str(L + 1 if earlier else L)]
        opts += o
        pos[k] = i
        i += 1
    if rng.random() < 0.3:
        opts.append("-r")
    nlines = rng.choice([0, 0, 1, 2, 3, 5])
    lines = []
    for _ in range(nlines):
        if rng.random() < 0.12:
            lines.append([])
        else:
            ws = [rng.choice(WORDS) if rng.random() < 0.8 else R for _ in range(rng.randint(1, 4))]
            # blanks at the end of a line belong to the line ("the entire line"); kept away from -L, where a trailing blank
            # continues the logical line (C04's subject)
            if "L" not in optkinds and rng.random() < 0.3:
                ws[-1] = ws[-1] + rng.choice([b" ", b"\t", b"  ", b" \t"])
            lines.append(ws)
    final_nl = rng.random() < 0.8
    init = []
    for _ in range(rng.randint(0, 4)):
        parts = [rng.choice([b"", b"x", b"-o", b"pre", R, R, b"/"]) for _ in range(rng.randint(1, 4))]
        init.append(b"".join(parts))
    return dict(R=R, opts=opts, pos=pos, n=n if "n" in optkinds else None, L=L if "L" in optkinds else None,
                repl="R" in optkinds, r="-r" in opts, lines=lines, final_nl=final_nl, cmd=[b"cmd"] + init)


def input_of(c):
    data = b"\n".join(b" ".join(ws) for ws in c["lines"])
    if c["lines"] and c["final_nl"]:
        data += b"\n"
    return data


def tokens(c, repl):
    if repl:
        return [(b" ".join(ws), "h") for ws in c["lines"] if ws]
    toks = []
    for li, ws in enumerate(c["lines"]):
        for k, w in enumerate(ws):
            w = w.rstrip(b" \t")
            last_line = li == len(c["lines"]) - 1
            hard = k == len(ws) - 1 and (not last_line or c["final_nl"])
            toks.append((w, "h" if hard else "s"))
    return toks


def evaluate(ctx, cases):
    f = lambda v: "-" if v is None else str(v)
    norm_lines = ["xnorm %s %s %d %s %s %s" % (f(c["n"]), f(c["L"]), int(c["repl"]), f(c["pos"].get("n")), f(c["pos"].get("L")), f(c["pos"].get("R")))
                  for c in cases]
    norms = fw.run_lines(fw.FUVM, norm_lines)
    mlines, toks_all, eff = [], [], []
    for c, nm in zip(cases, norms):
        n2, L2, r2 = nm.split(" ")
        n2 = None if n2 == "-" else int(n2)
        L2 = None if L2 == "-" else int(L2)
        r2 = r2 == "1"
        t = tokens(c, r2)
        toks_all.append(t)
        eff.append((n2, L2, r2))
        mlines.append(xc.model_line(n2, L2, None, False, c["r"], c["cmd"], t, False, [], replace=r2, repl_R=c["R"]))
    models = fw.run_lines(fw.FUVM, mlines)
    # rewritten argv for replace mode, from the XReplace model
    repl_req, repl_idx = [], {}
    expected = []
    for ci, (c, m, t, e) in enumerate(zip(cases, models, toks_all, eff)):
        parts = m.split(" ")
        code = int(parts[0])
        inv = []
        for p in parts[1:]:
            ids = [] if p == "~" else [int(i) for i in p.split(",")]
            if e[2]:
                key = (ci, ids[0])
                repl_idx[key] = len(repl_req)
                repl_req.append("xrepl %s %s %s" % (fw.hexs(c["R"]), fw.hexs(t[ids[0]][0]), xc.hexlist(c["cmd"])))
                inv.append(key)
            else:
                inv.append(list(c["cmd"]) + [t[i][0] for i in ids])
        expected.append((code, inv))
    repl_out = fw.run_lines(fw.FUVM, repl_req)
    final = []
    for code, inv in expected:
        inv2 = []
        for x in inv:
            if isinstance(x, tuple):
                inv2.append([fw.unhex(a) for a in repl_out[repl_idx[x]].split(",")])
            else:
                inv2.append(x)
        final.append((code, inv2))
    impl = xc.run_impl([xc.impl_line(c["opts"], c["cmd"], input_of(c), []) for c in cases])
    bad = []
    for c, i, exp, e in zip(cases, impl, final, eff):
        got = xc.decode_impl(i)
        nl = sum(1 for ws in c["lines"] if ws)
        ctx.count((c["opts"], c["cmd"], c["lines"], c["final_nl"]), c["repl"] and nl >= 1,
                  ["mode=%s" % ("replace" if e[2] else "n" if e[0] else "L" if e[1] else "plain"), "lines=%s" % (nl if nl < 3 else "3+"),
                   "options=%d" % len(c["pos"])])
        if got != exp:
            bad.append((c, got, exp))
    return bad


def report(ctx, bad):
    for c, got, exp in bad[:2]:
        def fails(cc):
            b = evaluate(fw.Ctx("C20", "quick", 0), [cc])
            return bool(b)
        c = dict(c)
        c["lines"] = fw.shrink_list(c["lines"], lambda l: fails(dict(c, lines=l)), max_steps=40)
        init = fw.shrink_list(c["cmd"][1:], lambda l: fails(dict(c, cmd=[c["cmd"][0]] + l)), max_steps=40)
        c["cmd"] = [c["cmd"][0]] + init
        b = evaluate(fw.Ctx("C20", "quick", 0), [c])
        if b:
            _, got, exp = b[0]
        ctx.violation("xargs %s %s on input %r: implementation exit %s runs %s; model exit %s runs %s"
                      % (c["opts"], c["cmd"], input_of(c), got[0], got[1], exp[0], exp[1]),
                      {"property": "C20", "kind": "correspondence", "options": c["opts"], "command": [fw.hexs(x) for x in c["cmd"]],
                       "input_hex": fw.hexs(input_of(c)),
                       "implementation": {"exit": got[0], "invocations": [[fw.hexs(a) for a in i] for i in got[1]]},
                       "model_and_spec": {"exit": exp[0], "invocations": [[fw.hexs(a) for a in i] for i in exp[1]]},
                       "explain": "C20 theorems fix the mode, one run per line, the substitution and the empty-input rule for the model; the implementation differs",
                       "case": {"R": fw.hexs(c["R"]), "pos": c["pos"], "n": c["n"], "L": c["L"], "repl": c["repl"], "r": c["r"], "final_nl": c["final_nl"],
                                "lines": [[fw.hexs(w) for w in ws] for ws in c["lines"]]},
                       "total_disagreements": len(bad)})


def run(ctx):
    rng = ctx.rng
    cases = [gen_case(rng) for _ in range(30000 if ctx.thorough else 2500)]
    # the empty-input cases of every option form, always
    for form in (["-I", "{}"], ["--replace"], ["-i"], ["-I", "_", "-n", "1"], ["-n", "2", "-I", "{}"], ["-I", "{}", "-r"]):
        cases.append(dict(R=b"_" if "_" in form else b"{}", opts=form, pos={"R": form.index(form[0]) if form[0] != "-n" else 1, **({"n": 0 if form[0] == "-n" else 1} if "-n" in form else {})},
                          n=int(form[form.index("-n") + 1]) if "-n" in form else None, L=None, repl=True, r="-r" in form,
                          lines=[], final_nl=False, cmd=[b"cmd", b"x{}y", b"_"]))
    bad = evaluate(ctx, cases)
    no_command(ctx)
    import tempfile, shutil, os
    os.makedirs(os.path.join(fw.BUILD, "tmp"), exist_ok=True)
    kd = tempfile.mkdtemp(prefix="c20-", dir=os.path.join(fw.BUILD, "tmp"))
    try:
        kc.argv_not_utf8_xargs(ctx, "C20", kd)
        kc.i_equals(ctx, "C20", kd)
    finally:
        shutil.rmtree(kd, ignore_errors=True)
    for c in cases[:5]:
        ctx.sample({"options": c["opts"], "command": [x.decode("utf-8", "replace") for x in c["cmd"]], "input": input_of(c).decode("utf-8", "replace")})
    report(ctx, bad)


def no_command(ctx):
    """-I without a command: the default echo gets no initial argument in which anything could be replaced, and nothing is appended -
    one empty line per input line (real binary: the default echo writes to standard output itself)"""
    import subprocess
    for form in (["-I", "{}"], ["-i"], ["--replace"], ["-I", "_", "-r"]):
        for data, nlines in ((b"a b\nc\n", 2), (b"", 0), (b"x\n\ny y y", 2)):
            p = subprocess.run([fw.XARGS] + form, input=data, stdout=subprocess.PIPE, stderr=subprocess.DEVNULL, env=xc.ENV, timeout=60)
            ctx.count(("no-command", tuple(form), data), True, "no-command")
            if p.stdout != b"\n" * nlines or p.returncode != 0:
                ctx.violation("xargs %s (no command) on %r: exit %d, output %r; expected %d empty line(s): nothing is appended in replace mode"
                              % (" ".join(form), data, p.returncode, p.stdout, nlines),
                              {"property": "C20", "kind": "no-command", "options": form, "input": fw.hexs(data), "exit": p.returncode, "stdout": fw.hexs(p.stdout)})


def replay(ctx, rep):
    if rep.get("kind") == "correspondence":
        k = rep["case"]
        c = dict(R=fw.unhex(k["R"]), opts=rep["options"], pos=k["pos"], n=k["n"], L=k["L"], repl=k["repl"], r=k["r"],
                 final_nl=k["final_nl"], lines=[[fw.unhex(w) for w in ws] for ws in k["lines"]], cmd=[fw.unhex(x) for x in rep["command"]])
        report(ctx, evaluate(ctx, [c]))
    else:
        run(ctx)
