"""C20 - xargs -I: one run per input line, every occurrence replaced by the whole line.

(O1) coq/Props/C20.v.  (O2) xargs_main in-process (recorder hook) against the extracted
XArgs / XReplace models: which mode is in force (normalize), the batches, and the rewritten argv."""
import os

from lib import framework as fw
from props import xargs_common as xc
from props import known_common as kc

RULE = ("(option sequences, repetitions included, over -I R / --replace[=R] / -i / -n k / -L k, initial arguments with 0..3 occurrences of R, input lines with blanks "
        "and R itself, empty lines, empty input) cases; non-trivial = distinct case with a replace option and at least one input line")
ASSUMPTIONS = [
    "the substitution is leftmost non-overlapping replacement on bytes (replace_all in src/xargs/mod.rs, modelled by XReplace.replace_all and compared on every case, lines that are not UTF-8 included)",
    "clap reports every occurrence of -n/-L/-I/-i with its position (ArgAction::Append, indices_of); batch_mode folds them in that order",
    "lines are free of quotes, backslashes and leading blanks (the property's own restriction)",
]
RS = [b"{}", b"{}", b"_", b"%%", b"ab", "é".encode(), b"{", b"-x"]
WORDS = [b"a", b"b", b"foo", b"x-y", b"{}", b"_", b"ab", b"%%", "é".encode(), b"{", b"}", b"\xffz", b"a\xfe", b"-x"]


def gen_case(rng):
    R = rng.choice(RS)
    r_form = rng.choice(["I", "I", "I", "long=", "long", "i"])
    if r_form in ("long", "i"):
        R = b"{}"
    kinds = ["R"]
    if rng.random() < 0.45:
        kinds.append("n")
    if rng.random() < 0.35:
        kinds.append("L")
    if rng.random() < 0.1:
        kinds.remove("R")
        if not kinds:
            kinds.append("n")
    rng.shuffle(kinds)
    # further occurrences of any of the three, anywhere: they are applied in the order given
    for _ in range(rng.choice([0, 0, 0, 1, 1, 2, 3])):
        kinds.insert(rng.randint(0, len(kinds)), rng.choice(["R", "n", "n", "L"]))
    last_r = max([k for k, x in enumerate(kinds) if x == "R"], default=None)
    opts, seq = [], []
    for k, kind in enumerate(kinds):
        if kind == "R":
            if k != last_r:
                opts += ["-I", rng.choice([x for x in RS if x != R]).decode()]
            else:
                opts += {"I": ["-I", R.decode()], "long=": ["--replace=" + R.decode()], "long": ["--replace"], "i": ["-i"]}[r_form]
            seq.append("I")
        elif kind == "n":
            v = rng.choice([1, 1, 1, 2, 3])
            opts += rng.choice([["-n", str(v)], ["-n%d" % v], ["--max-args=%d" % v]])
            seq.append("n%d" % v)
        else:
            v = rng.choice([1, 2])
            opts += rng.choice([["-L", str(v)], ["-L%d" % v], ["--max-lines", str(v)]])
            seq.append("L%d" % v)
    if rng.random() < 0.3:
        opts.append("-r")
    nlines = rng.choice([0, 0, 1, 2, 3, 5])
    lines = []
    for _ in range(nlines):
        if rng.random() < 0.12:
            lines.append([])
        else:
            ws = [rng.choice(WORDS) if rng.random() < 0.8 else R for _ in range(rng.randint(1, 4))]
            # blanks at the end of a line belong to the line ("the entire line"); kept away from -L, where a trailing blank
            # continues the logical line (C04's subject)
            if "L" not in kinds and rng.random() < 0.3:
                ws[-1] = ws[-1] + rng.choice([b" ", b"\t", b"  ", b" \t"])
            lines.append(ws)
    final_nl = rng.random() < 0.8
    init = []
    for _ in range(rng.randint(0, 4)):
        parts = [rng.choice([b"", b"x", b"-o", b"pre", R, R, b"/"]) for _ in range(rng.randint(1, 4))]
        init.append(b"".join(parts))
    # the command word is run as written, also when the replacement string occurs in it
    word = rng.choice([b"cmd", b"cmd", b"cmd", R + b"c", b"c" + R + b"d" + R])
    if word.startswith(b"-"):
        word = b"c" + word              # (a first word beginning with a hyphen is an option of xargs, not the command)
    # -s: with -I it limits the command line after the line has been put in (C06_substituted_meets_s): values around that size
    smax = None
    if rng.random() < 0.3:
        line0 = b" ".join(next((ws for ws in lines if ws), [b"x"]))
        sub = len(word) + 1 + sum(len(a.replace(R, line0)) + 1 for a in init)
        smax = max(1, rng.choice([sub + d for d in (-6, -2, -1, 0, 1, 2, 9)] + [sum(len(a) + 1 for a in [word] + init) + d for d in (0, 1, 3)] + [4000]))
        opts += rng.choice([["-s", str(smax)], ["-s%d" % smax], ["--max-chars=%d" % smax]])
    return dict(R=R, opts=opts, seq=seq, r="-r" in opts, lines=lines, final_nl=final_nl, cmd=[word] + init, s=smax)


def input_of(c):
    data = b"\n".join(b" ".join(ws) for ws in c["lines"])
    if c["lines"] and c["final_nl"]:
        data += b"\n"
    return data


def tokens(c, repl):
    if repl:
        return [(b" ".join(ws), "h") for ws in c["lines"] if ws]
    toks = []
    for li, ws in enumerate(c["lines"]):
        for k, w in enumerate(ws):
            w = w.rstrip(b" \t")
            last_line = li == len(c["lines"]) - 1
            hard = k == len(ws) - 1 and (not last_line or c["final_nl"])
            toks.append((w, "h" if hard else "s"))
    return toks


def evaluate(ctx, cases):
    f = lambda v: "-" if v is None else str(v)
    norm_lines = ["xnorm %s" % (",".join(c["seq"]) or "~") for c in cases]
    norms = fw.run_lines(fw.FUVM, norm_lines)
    mlines, toks_all, eff = [], [], []
    for c, nm in zip(cases, norms):
        n2, L2, r2 = nm.split(" ")
        n2 = None if n2 == "-" else int(n2)
        L2 = None if L2 == "-" else int(L2)
        r2 = r2 == "1"
        t = tokens(c, r2)
        toks_all.append(t)
        eff.append((n2, L2, r2))
        mlines.append(xc.model_line(n2, L2, c.get("s"), False, c["r"], c["cmd"], t, False, [], replace=r2, repl_R=c["R"]))
    models = fw.run_lines(fw.FUVM, mlines)
    # rewritten argv for replace mode, from the XReplace model
    repl_req, repl_idx = [], {}
    expected = []
    for ci, (c, m, t, e) in enumerate(zip(cases, models, toks_all, eff)):
        parts = m.split(" ")
        code = int(parts[0])
        inv = []
        for p in parts[1:]:
            ids = [] if p == "~" else [int(i) for i in p.split(",")]
            if e[2]:
                key = (ci, ids[0])
                repl_idx[key] = len(repl_req)
                repl_req.append("xrepl %s %s %s" % (fw.hexs(c["R"]), fw.hexs(t[ids[0]][0]), xc.hexlist(c["cmd"])))
                inv.append(key)
            else:
                inv.append(list(c["cmd"]) + [t[i][0] for i in ids])
        expected.append((code, inv))
    repl_out = fw.run_lines(fw.FUVM, repl_req)
    final = []
    for code, inv in expected:
        inv2 = []
        for x in inv:
            if isinstance(x, tuple):
                inv2.append([fw.unhex(a) for a in repl_out[repl_idx[x]].split(",")])
            else:
                inv2.append(x)
        final.append((code, inv2))
    impl = xc.run_impl([xc.impl_line(c["opts"], c["cmd"], input_of(c), []) for c in cases])
    bad = []
    for c, i, exp, e in zip(cases, impl, final, eff):
        got = xc.decode_impl(i)
        nl = sum(1 for ws in c["lines"] if ws)
        ctx.count((c["opts"], c["cmd"], c["lines"], c["final_nl"]), e[2] and nl >= 1,
                  ["mode=%s" % ("replace" if e[2] else "n" if e[0] else "L" if e[1] else "plain"), "lines=%s" % (nl if nl < 3 else "3+"),
                   "options=%s" % (len(c["seq"]) if len(c["seq"]) < 4 else "4+")])
        if got != exp:
            bad.append((c, got, exp))
    return bad


def report(ctx, bad):
    for c, got, exp in bad[:2]:
        def fails(cc):
            b = evaluate(fw.Ctx("C20", "quick", 0), [cc])
            return bool(b)
        c = dict(c)
        c["lines"] = fw.shrink_list(c["lines"], lambda l: fails(dict(c, lines=l)), max_steps=40)
        init = fw.shrink_list(c["cmd"][1:], lambda l: fails(dict(c, cmd=[c["cmd"][0]] + l)), max_steps=40)
        c["cmd"] = [c["cmd"][0]] + init
        b = evaluate(fw.Ctx("C20", "quick", 0), [c])
        if b:
            _, got, exp = b[0]
        ctx.violation("xargs %s %s on input %r: implementation exit %s runs %s; model exit %s runs %s"
                      % (c["opts"], c["cmd"], input_of(c), got[0], got[1], exp[0], exp[1]),
                      {"property": "C20", "kind": "correspondence", "options": c["opts"], "command": [fw.hexs(x) for x in c["cmd"]],
                       "input_hex": fw.hexs(input_of(c)),
                       "implementation": {"exit": got[0], "invocations": [[fw.hexs(a) for a in i] for i in got[1]]},
                       "model_and_spec": {"exit": exp[0], "invocations": [[fw.hexs(a) for a in i] for i in exp[1]]},
                       "explain": "C20 theorems fix the mode, one run per line, the substitution and the empty-input rule for the model; the implementation differs",
                       "case": {"R": fw.hexs(c["R"]), "seq": c["seq"], "s": c.get("s"), "r": c["r"], "final_nl": c["final_nl"],
                                "lines": [[fw.hexs(w) for w in ws] for ws in c["lines"]]},
                       "total_disagreements": len(bad)})


def run(ctx):
    rng = ctx.rng
    cases = [gen_case(rng) for _ in range(30000 if ctx.thorough else 2500)]
    # the empty-input cases of every option form, always
    for form, seq in (((["-I", "{}"]), ["I"]), (["--replace"], ["I"]), (["-i"], ["I"]), (["-I", "_", "-n", "1"], ["I", "n1"]), (["-n", "2", "-I", "{}"], ["n2", "I"]),
                      (["-I", "{}", "-r"], ["I"]), (["-L", "1", "-I", "{}", "-n", "1"], ["L1", "I", "n1"]), (["-I", "{}", "-n", "2", "-n", "1"], ["I", "n2", "n1"])):
        for lines in ([], [[b"a", b"b"], [b"c"]]):
            cases.append(dict(R=b"_" if "_" in form else b"{}", opts=form, seq=seq, r="-r" in form, lines=lines, final_nl=bool(lines), cmd=[b"cmd", b"x{}y", b"_"]))
    bad = evaluate(ctx, cases)
    no_command(ctx)
    quoted_lines(ctx)
    runs_when_read(ctx)
    long_template(ctx)
    import tempfile, shutil, os
    os.makedirs(os.path.join(fw.BUILD, "tmp"), exist_ok=True)
    kd = tempfile.mkdtemp(prefix="c20-", dir=os.path.join(fw.BUILD, "tmp"))
    try:
        kc.argv_not_utf8_xargs(ctx, "C20", kd)
        kc.i_equals(ctx, "C20", kd)
    finally:
        shutil.rmtree(kd, ignore_errors=True)
    for c in cases[:5]:
        ctx.sample({"options": c["opts"], "command": [x.decode("utf-8", "replace") for x in c["cmd"]], "input": input_of(c).decode("utf-8", "replace")})
    report(ctx, bad)


def quoted_lines(ctx):
    """outside the property's stated domain but inside xargs' input rules (C05, C19): with -I the lines are read with quotes and
    backslashes processed and leading blanks skipped - so an unterminated quote is an input error (exit 1) under -I too"""
    import subprocess
    import tempfile
    import os
    with tempfile.TemporaryDirectory(prefix="c20q-", dir=fw.BUILD) as td:
        for data, want_rc, want in ((b"'a b'  c\n  x y  \n\n\\ z\n", 0, [b"<a b  c>", b"<x y  >", b"< z>"]),
                                    (b'"abc\n', 1, []), (b"ok\nit's\n", 1, [b"<ok>"]), (b"a\\\nb\n", 0, [b"<a\nb>"]),
                                    # a line is run when it has been read: the lines before an input error have been run
                                    (b"a\nb\nit's\nd\n", 1, [b"<a>", b"<b>"]), (b'a\n"\n', 1, [b"<a>"]),
                                    # a quoted string lies within its line
                                    (b"x\n'a\nb'\n", 1, [b"<x>"])):
            rec = os.path.join(td, "rec")
            if os.path.exists(rec):
                os.remove(rec)
            p = subprocess.run([fw.XARGS, "-I{}", fw.FUV, "record", "<{}>"], input=data, stdout=subprocess.DEVNULL, stderr=subprocess.DEVNULL,
                               env=dict(xc.ENV, FUV_RECORD=rec), timeout=60)
            got = [fw.unhex(line.split()[1]) for line in open(rec)] if os.path.exists(rec) else []
            ctx.count(("quoted-lines", data), True, "quoted-lines")
            if p.returncode != want_rc or (want is not None and got != want):
                ctx.violation("xargs -I{} CMD '<{}>' on %r: exit %d, arguments %r; expected exit %d, %r" % (data, p.returncode, got, want_rc, want),
                              {"property": "C20", "kind": "quoted-lines", "input": fw.hexs(data), "exit": p.returncode, "arguments": [fw.hexs(g) for g in got],
                               "expected_exit": want_rc, "expected": None if want is None else [fw.hexs(w) for w in want]})


def runs_when_read(ctx):
    """the command for a line is run when the line has been read, not when the next one arrives: a producer that waits for the effect of
    line 1 before it sends line 2 is not stuck"""
    import subprocess
    import tempfile
    import time
    import os
    with tempfile.TemporaryDirectory(prefix="c20w-", dir=fw.BUILD) as td:
        p = subprocess.Popen([fw.XARGS, "-I{}", "sh", "-c", "touch done.{}"], stdin=subprocess.PIPE, stdout=subprocess.DEVNULL, stderr=subprocess.DEVNULL,
                             cwd=td, env=xc.ENV)
        p.stdin.write(b"a\n")
        p.stdin.flush()
        seen = False
        for _ in range(50):
            if os.path.exists(os.path.join(td, "done.a")):
                seen = True
                break
            time.sleep(0.1)
        p.stdin.write(b"b\n")
        p.stdin.close()
        rc = p.wait(timeout=60)
        ctx.count(("runs-when-read",), True, "runs-when-read")
        if not seen or rc != 0 or not os.path.exists(os.path.join(td, "done.b")):
            ctx.violation("xargs -I{} sh -c 'touch done.{}': five seconds after the line 'a' was written (and before the next line) done.a %s; exit %d"
                          % ("exists" if seen else "does not exist: the line is held back until the next one has been read", rc),
                          {"property": "C20", "kind": "runs-when-read", "first_line_run_before_second_written": seen, "exit": rc})


def long_template(ctx):
    """a template that is long only through its occurrences of a long replacement string: it is not run as written, so it is not to be
    held against the limits as written - neither before any input is read nor when a line is added; what is run (a few hundred short
    arguments) is far within every limit.  The sizes sit in the head-room xargs keeps below ARG_MAX."""
    import subprocess
    R = "r" * 5000
    arg_max = os.sysconf("SC_ARG_MAX")
    env = {"PATH": "/usr/bin:/bin"}
    n = (arg_max - 5000) // 5001 - 1               # xargs itself can just be started with this many
    for count, data, want in ((n, b"a\nb\n", b"%d a\n%d b\n" % (n, n)), (n - 1, b"l" * 3000 + b"\nb\n", b"%d 3000\n%d 1\n" % (n - 1, n - 1))):
        argv = [fw.XARGS, "-I", R, "/bin/sh", "-c", 'echo "$# ${#1}"' if data.startswith(b"l") else 'echo "$# $1"', "sh"] + [R] * count
        try:
            p = subprocess.run(argv, input=data, stdout=subprocess.PIPE, stderr=subprocess.PIPE, env=env, timeout=120)
        except OSError as e:
            ctx.count(("long-template", count, "not-started"), False, "long-template-not-started")
            ctx.log["long_template_skipped"] = str(e)
            continue
        ctx.count(("long-template", count), True, "long-template")
        if p.returncode != 0 or p.stdout != want:
            ctx.violation("xargs -I R CMD R x%d (R of 5000 bytes) on %d input bytes: exit %d, output %r, stderr %r; expected %r: the command line that is run is short"
                          % (count, len(data), p.returncode, p.stdout[:60], p.stderr[:100], want),
                          {"property": "C20", "kind": "long-template", "occurrences": count, "replace_len": 5000, "input": fw.hexs(data), "exit": p.returncode,
                           "stdout": fw.hexs(p.stdout[:200]), "stderr": p.stderr.decode("utf-8", "replace")[:200]})


def no_command(ctx):
    """-I without a command: the default echo gets no initial argument in which anything could be replaced, and nothing is appended -
    one empty line per input line (real binary: the default echo writes to standard output itself)"""
    import subprocess
    for form in (["-I", "{}"], ["-i"], ["--replace"], ["-I", "_", "-r"]):
        for data, nlines in ((b"a b\nc\n", 2), (b"", 0), (b"x\n\ny y y", 2)):
            p = subprocess.run([fw.XARGS] + form, input=data, stdout=subprocess.PIPE, stderr=subprocess.DEVNULL, env=xc.ENV, timeout=60)
            ctx.count(("no-command", tuple(form), data), True, "no-command")
            if p.stdout != b"\n" * nlines or p.returncode != 0:
                ctx.violation("xargs %s (no command) on %r: exit %d, output %r; expected %d empty line(s): nothing is appended in replace mode"
                              % (" ".join(form), data, p.returncode, p.stdout, nlines),
                              {"property": "C20", "kind": "no-command", "options": form, "input": fw.hexs(data), "exit": p.returncode, "stdout": fw.hexs(p.stdout)})


def replay(ctx, rep):
    if rep.get("kind") == "correspondence":
        k = rep["case"]
        c = dict(R=fw.unhex(k["R"]), opts=rep["options"], seq=k["seq"], s=k.get("s"), r=k["r"],
                 final_nl=k["final_nl"], lines=[[fw.unhex(w) for w in ws] for ws in k["lines"]], cmd=[fw.unhex(x) for x in rep["command"]])
        report(ctx, evaluate(ctx, [c]))
    else:
        run(ctx)
