"""C12 - find -name/-path/-lname (and -i forms) equal POSIX fnmatch on the whole string.

(O1) coq/Props/C12.v (engine half).  (O2) the glob translation and matcher reached through the
cfg-guarded hook (glob_to_regex text and Pattern::matches) against the extracted Glob model on
exhaustive short patterns x subjects; glibc fnmatch(3) as the executable reference on the guarded
domain; find -name/-iname/-path/-lname end to end on files named after the subjects."""
import ctypes
import itertools
import os
import re
import tempfile

from lib import framework as fw
from props import walk_common as wc
from props import xargs_common as xc

RULE = ("(pattern, subject, caseless) triples: all patterns up to a length bound over {a b * ? [ ] ! - \\ . ^} x all subjects up to a bound over "
        "{a b - . [ ] ! \\ ^ / NL}, random longer patterns with ranges and [:classes:]; non-trivial = distinct triple whose pattern has a "
        "wildcard, bracket or escape")
ASSUMPTIONS = [
    "Oniguruma's reading of the regex text (posix-basic syntax) is modelled (Glob.parse_bre, cc_parse) and compared on every case",
    "glibc fnmatch(3) without flags is the executable reference for the guarded domain: brackets well formed or stray, no backslash or leading ^ inside brackets, no collating symbols / equivalence classes; non-ASCII case folding is outside",
]
PA = ["a", "b", "*", "?", "[", "]", "!", "-", "\\", ".", "^"]
SA = ["a", "b", "-", ".", "[", "]", "!", "\\", "^", "/", "\n"]
libc = ctypes.CDLL("libc.so.6")
FNM_CASEFOLD = 1 << 4


def cps(s):
    return ".".join(str(ord(c)) for c in s) if s else "-"


POSIX_CLASSES = {
    "alpha": lambda c: c.isascii() and c.isalpha(), "digit": lambda c: c in "0123456789", "alnum": lambda c: c.isascii() and c.isalnum(),
    "upper": lambda c: c.isascii() and c.isupper(), "lower": lambda c: c.isascii() and c.islower(), "space": lambda c: c in " \t\n\v\f\r",
    "blank": lambda c: c in " \t", "punct": lambda c: c.isascii() and c.isprintable() and not c.isalnum() and c != " ",
    "print": lambda c: " " <= c <= "~", "graph": lambda c: "!" <= c <= "~", "cntrl": lambda c: c < " " or c == "\x7f",
    "xdigit": lambda c: c in "0123456789abcdefABCDEF"}
ASCII_ONLY = ("digit", "punct", "xdigit", "print", "graph", "cntrl", "blank")


def posix_pieces(p):
    """the pattern read strictly by the POSIX text (XCU 2.13 with XBD 9.3.5): a list of ("lit", c) | ("any",) | ("star",) |
    ("set", neg, members) - or None when it can match nothing (final backslash) - or "unknown" where this reference does not decide
    (collating symbols, equivalence classes, a backslash or an odd range inside a bracket)"""
    out, i, n = [], 0, len(p)
    while i < n:
        c = p[i]
        if c == "\\":
            if i + 1 >= n:
                return None
            out.append(("lit", p[i + 1]))
            i += 2
        elif c == "?":
            out.append(("any",))
            i += 1
        elif c == "*":
            out.append(("star",))
            i += 1
        elif c == "[":
            j = i + 1
            neg = j < n and p[j] in "!^"
            if neg:
                j += 1
            members, first, ok = [], True, None
            k = j
            while k < n:
                ch = p[k]
                if ch == "]" and not first:
                    ok = True
                    break
                first = False
                if ch == "\\":
                    return "unknown"
                if ch == "[" and k + 1 < n and p[k + 1] in ".=:":
                    if p[k + 1] != ":":
                        return "unknown"
                    e = p.find(":]", k + 2)
                    if e < 0 or p[k + 2:e] not in POSIX_CLASSES:
                        ok = False               # no bracket expression here: the "[" stands for itself
                        break
                    members.append(("class", p[k + 2:e]))
                    k = e + 2
                    if k < n and p[k] == "-" and k + 1 < n and p[k + 1] != "]":
                        return "unknown"
                    continue
                if k + 2 < n and p[k + 1] == "-" and p[k + 2] != "]":
                    lo, hi = ch, p[k + 2]
                    if hi == "[" or lo > hi or hi == "\\":
                        return "unknown"
                    members.append(("range", lo, hi))
                    k += 3
                    if k < n and p[k] == "-" and k + 1 < n and p[k + 1] != "]":
                        return "unknown"
                    continue
                members.append(("char", ch))
                k += 1
            if ok:
                out.append(("set", neg, members))
                i = k + 1
            else:
                out.append(("lit", "["))
                i += 1
        else:
            out.append(("lit", c))
            i += 1
    return out


def piece_ok(pc, c):
    if pc[0] == "lit":
        return c == pc[1]
    if pc[0] == "any":
        return True
    hit = False
    for m in pc[2]:
        if m[0] == "char":
            hit = hit or c == m[1]
        elif m[0] == "range":
            hit = hit or m[1] <= c <= m[2]
        else:
            if not c.isascii() and m[1] not in ASCII_ONLY:
                return None                       # what a locale counts as alphabetic beyond ASCII is not this reference's business
            hit = hit or POSIX_CLASSES[m[1]](c)
    return hit != pc[1]


def posix_fnmatch(pieces, s):
    """True / False, or None where a class on a character beyond ASCII would decide"""
    reach = {0}
    for c_i in range(len(s) + 1):
        # close under stars
        changed = True
        while changed:
            changed = False
            for st in list(reach):
                if st < len(pieces) and pieces[st][0] == "star" and st + 1 not in reach:
                    reach.add(st + 1)
                    changed = True
        if c_i == len(s):
            break
        nxt = set()
        for st in reach:
            if st >= len(pieces):
                continue
            if pieces[st][0] == "star":
                nxt.add(st)
            else:
                r = piece_ok(pieces[st], s[c_i])
                if r is None:
                    return None
                if r:
                    nxt.add(st + 1)
        reach = nxt
    return len(pieces) in reach


def same_case_class(a, b):
    return any(x <= a <= y and x <= b <= y for x, y in (("a", "z"), ("A", "Z"), ("0", "9")))


def guarded(p):
    """inside the domain on which the property fixes the answer (see ASSUMPTIONS)"""
    i, n = 0, len(p)
    while i < n:
        c = p[i]
        if c == "\\":
            i += 2
            continue
        if c == "[":
            j = i + 1
            if j < n and p[j] in "!^":
                if p[j] == "^":
                    return False
                j += 1
            if j < n and p[j] == "]":
                j += 1
            k = j
            closed = False
            while k < n:
                if p[k] == "\\":
                    return False            # backslash inside a bracket, closed or not: glibc is not the reference
                if p[k] == "[" and k + 1 < n and p[k + 1] in ".=:":
                    if p[k + 1] != ":":
                        return False
                    e = p.find(":]", k + 2)
                    if e < 0 or p[k + 2:e] not in POSIX_CLASSES:
                        return False            # ill-formed or not a POSIX class name: the strict reference below decides
                    k = e + 2
                    continue
                if p[k] == "]":
                    closed = True
                    break
                k += 1
            if closed:
                body = p[j:k]
                # ranges must be well formed: no "a-b-c", no reversed range, no range ending in a class
                t = 0
                while t < len(body):
                    if body[t] == "[" and body[t + 1:t + 2] == ":":
                        t = body.find(":]", t) + 2
                        if t < len(body) and body[t] == "-" and t + 1 < len(body):
                            return False
                        continue
                    if t + 2 < len(body) and body[t + 1] == "-":
                        lo, hi = body[t], body[t + 2]
                        if hi == "[" or lo > hi:
                            return False
                        t += 3
                        if t < len(body) and body[t] == "-" and t + 1 < len(body):
                            return False
                        continue
                    t += 1
                i = k + 1
                continue
            # stray "[": literal; glibc is not used as reference for these (the model is)
            return False
        i += 1
    return True


def gen(ctx):
    rng = ctx.rng
    pats = []
    plen = 4 if ctx.thorough else 3
    for n in range(0, plen + 1):
        for tup in itertools.product(PA, repeat=n):
            pats.append("".join(tup))
    extra = 40000 if ctx.thorough else 3000
    pieces = ["a", "b", "A", "*", "?", "[ab]", "[!ab]", "[a-b]", "[]a]", "[!]]", "[[:alpha:]]", "[[:digit:][:upper:]]", "[a-b.]", "[", "]", "!",
              "\\*", "\\?", "\\[", "\\\\", "\\a", ".", "^", "$", "(", "+", "{", "|", "[--.]", "[!-]", "[a-]", "[.-a]", "\\",
              "[[:", ":]", "[:", "[[:]", "[[:a]", "[^]a]", "[^a]", "[[:digit:]]", "[![:digit:]]", "[[:punct:]]", "[[:word:]]", "[[:alpha:]", "[[:a:b]", "[[:a:\u00e9]", ":", "x"]
    for _ in range(extra):
        pats.append("".join(rng.choice(pieces) for _ in range(rng.randint(1, 6))))
    for _ in range(extra // 3):
        pats.append("".join(rng.choice(PA) for _ in range(rng.randint(plen + 1, 7))))
    subs = []
    slen = 3 if ctx.thorough else 2
    for n in range(0, slen + 1):
        for tup in itertools.product(SA, repeat=n):
            subs.append("".join(tup))
    subs += [":", "[:", ":]", "[:]", "[]", ":x]", "[:x]", "[a", "[\u00e9", "3", "\u0663", "\uff13", "$", "w", "[:a]", "a]", "ab]", "[a:b]", "x[:]abc"]
    sa2 = SA + ["A", "B", "0", "$", "(", "+", ":"]
    for _ in range(300):
        subs.append("".join(rng.choice(sa2) for _ in range(rng.randint(slen + 1, 7))))
    return pats, subs


def run(ctx):
    pats, subs = gen(ctx)
    cases = []
    for p in pats:
        cases.append((p, 0))
        if any(c.isalpha() for c in p) and ctx.rng.random() < 0.5:
            cases.append((p, 1))
    sub_hex = ",".join(fw.hexs(s.encode()) for s in subs)
    sub_cps = ",".join(cps(s) for s in subs)
    il = ["glob %s %d %s" % (fw.hexs(p.encode()), ci, sub_hex) for p, ci in cases]
    ml = ["glob %d %s %s" % (ci, cps(p), sub_cps) for p, ci in cases]
    impl = fw.run_lines(fw.FUV, il)
    model = fw.run_lines(fw.FUVM, ml)
    bad, ref_bad = [], []
    subs_b = [s.encode() for s in subs]
    for (p, ci), i, m in zip(cases, impl, model):
        mt, mcodes = m.split(" ")
        if mt == "unsup":
            ctx.count((p, ci, "unsup"), False, ["model-has-no-reading"])
            continue
        if i == "panic":
            itext, ibits = "panic", ""
        else:
            itext, ibits = (i.split(" ") + [""])[:2]
        mtext = "none" if mt == "never" else fw.hexs("".join(chr(int(x)) for x in mt.split(".")).encode()) if mt != "-" else "-"
        nontriv = any(c in p for c in "*?[\\")
        g = guarded(p)
        for k, s in enumerate(subs):
            ctx.cov["evaluations"] += 1
        ctx.count((p, ci), nontriv, ["caseless=%d" % ci, "guarded=%d" % g, "len=%s" % (len(p) if len(p) < 5 else "5+")])
        mexp = "panic" if "2" in mcodes else mcodes
        if itext == "panic":
            # whatever the model says about the text: the test has a value for every pattern
            bad.append((p, ci, "the implementation panicked", itext, mtext))
            continue
        if itext != (mtext if "2" not in mcodes else "panic"):
            bad.append((p, ci, "regex text", itext, mtext))
            continue
        # the model's classes are the ASCII ones; which characters beyond ASCII a locale counts as alphabetic etc. is left open
        locale_class = any("[:%s:]" % nm in p for nm in POSIX_CLASSES if nm not in ("digit", "punct"))
        diff = [k for k in range(len(subs)) if ibits[k:k + 1] != mcodes[k] and not (locale_class and not subs[k].isascii())] if "2" not in mcodes else []
        if diff:
            k = diff[0]
            bad.append((p, ci, subs[k], ibits[k:k + 1], mcodes[k]))
            continue
        if ci and ("[:" in p or any(not same_case_class(a, b) for a, b in re.findall(r"(.)-(.)", p))):
            # how a class folds, and what a range means whose end points are not both lower-case letters, both capitals or both digits
            # ("[.-a]": glibc folds the end points, the engine asks whether some case variant of the subject lies in the range as written),
            # are not fixed by the property
            g = False
        if g and itext != "panic":
            pb = p.encode()
            fl = FNM_CASEFOLD if ci else 0
            for k, sb in enumerate(subs_b):
                if any(c > 127 for c in sb):
                    continue                  # glibc falls back to bytes there ("??" matches one two-byte character)
                r = "1" if libc.fnmatch(pb, sb, fl) == 0 else "0"
                if r != ibits[k]:
                    ref_bad.append((p, ci, subs[k], ibits[k], r))
                    break
        elif not ci and itext != "panic" and len(ibits) == len(subs):
            # outside glibc's domain: the strict reading of the POSIX text decides (an ill-formed "[:" ... leaves the "[" literal); glibc
            # reads some of these as one bracket, which is accepted as the other defensible reading - but only for the pattern as a whole
            pieces = posix_pieces(p)
            if pieces != "unknown":
                strict = [False if pieces is None else posix_fnmatch(pieces, sx) for sx in subs]
                ks = [k for k in range(len(subs)) if strict[k] is not None]
                dis = [k for k in ks if ibits[k] != ("1" if strict[k] else "0")]
                if dis:
                    pb = p.encode()
                    gl = [k for k in ks if subs[k].isascii() and ibits[k] != ("1" if libc.fnmatch(pb, subs_b[k], 0) == 0 else "0")]
                    if gl:
                        k = dis[0]
                        ref_bad.append((p, ci, subs[k], ibits[k], "1" if strict[k] else "0"))
                ctx.count(("strict", p), True, "strict-posix-reference")
    ctx.cov["evaluations"] -= len(cases)  # ctx.count already added one per pattern
    for p, ci, s, a, b in bad[:3]:
        ctx.violation("glob %r (caseless=%d) on %r: implementation %s, model %s" % (p, ci, s, a, b),
                      {"property": "C12", "kind": "correspondence", "pattern": p, "caseless": ci, "subject_or_aspect": s,
                       "implementation": a, "model": b,
                       "explain": "the hook's glob_to_regex text / Pattern::matches verdict differs from the Glob model whose engine half is proved equal to fnmatch",
                       "total_disagreements": len(bad)})
    for p, ci, s, a, b in ref_bad[:3]:
        ctx.violation("-%sname %r on %r: implementation %s, POSIX fnmatch %s" % ("i" if ci else "", p, s, a, b),
                      {"property": "C12", "kind": "reference", "pattern": p, "caseless": ci, "subject": s, "implementation": a,
                       "fnmatch": b, "reproduce": "touch SUBJECT; find . -%sname PATTERN" % ("i" if ci else ""),
                       "total_disagreements": len(ref_bad)})
    ctx.sample({"pattern": cases[len(cases) // 2][0], "subjects": subs[:8]})
    e2e(ctx)
    e2e_roots(ctx)


def glob_escape(t):
    return "".join("\\" + c if c in "*?[\\" else c for c in t)


def e2e_roots(ctx):
    """-name / -iname on the starting point itself, spelled in every way: the subject is the last component of the path as
    spelled (model Paths.name_subject, C12_name_subject_*)"""
    rng = ctx.rng
    os.makedirs(os.path.join(fw.BUILD, "tmp"), exist_ok=True)
    d = tempfile.mkdtemp(prefix="c12r-", dir=os.path.join(fw.BUILD, "tmp"))
    try:
        os.makedirs(os.path.join(d, "r", "Sub"))
        open(os.path.join(d, "r", "f.x"), "wb").close()
        os.symlink("r", os.path.join(d, "lr"))
        roots = [".", "./", "..", "../", "r", "r/", "r//", "r/.", "r/..", "./r/./", "r/Sub/..", "r/Sub/", ".//r", "/", "//", "///", d + "/r", d + "/r/",
                 "r/f.x", "lr", "lr/", "lr/.", "r/./Sub", "r//Sub//"]
        subjects = fw.run_lines(fw.FUVM, ["paths name_subject %s" % fw.hexs(r.encode()) for r in roots], shards=1)
        cands = [".", "..", "r", "Sub", "sub", "/", "*/*", "?*/", "./", "r/", "f.x", "lr", "*", "[.]", "??", "F.X"]
        bad = []
        lines, meta = [], []
        for r, subj in zip(roots, subjects):
            subj = fw.unhex(subj).decode()
            for mode in ("-P", "-H", "-L"):
                pats = [glob_escape(subj)] + rng.sample(cands, 5 if not ctx.thorough else len(cands))
                for pat in pats:
                    for flag, ci in (("-name", 0), ("-iname", 1)):
                        args = [mode, r, "-maxdepth", "0", flag, pat, "-print0"]
                        lines.append("find - %s %s" % (fw.hexs(d.encode()), xc.hexlist([a.encode() for a in args])))
                        meta.append((r, subj, mode, flag, ci, pat))
        outs = xc.run_impl(lines)
        for (r, subj, mode, flag, ci, pat), o in zip(meta, outs):
            code, out, err = wc.decode_find(o)
            got = out != b""
            exp = libc.fnmatch(pat.encode(), subj.encode(), FNM_CASEFOLD if ci else 0) == 0
            ctx.count(("e2e-root", r, mode, flag, pat), True, ["e2e-root" + flag, "root-spelling=%s" % (r if not r.startswith(d) else "ABS" + r[len(d):])])
            if got != exp or code != 0:
                bad.append((r, subj, mode, flag, pat, code, got, exp))
        for r, subj, mode, flag, pat, code, got, exp in bad[:2]:
            ctx.violation("find %s %r -maxdepth 0 %s %r: exit %s, matched=%s; the subject is %r (last component as spelled), fnmatch says %s"
                          % (mode, r, flag, pat, code, got, subj, exp),
                          {"property": "C12", "kind": "name-subject", "mode": mode, "starting_point": r, "test": flag, "pattern": pat, "exit": code,
                           "implementation_matched": got, "model_subject": subj, "fnmatch": exp,
                           "explain": "C12_name_subject_*: -name tests the last component of the path as spelled (trailing slashes ignored, '.' and '..' count)"})
    finally:
        import shutil
        shutil.rmtree(d, ignore_errors=True)


def e2e(ctx):
    """find -name / -iname / -path / -lname on real entries"""
    rng = ctx.rng
    os.makedirs(os.path.join(fw.BUILD, "tmp"), exist_ok=True)
    d = tempfile.mkdtemp(prefix="c12-", dir=os.path.join(fw.BUILD, "tmp"))
    try:
        names = ["a", "b", "ab", "a.b", ".a", "a]", "[a", "a-b", "!a", "A", "aB", "a\nb", "^a", "a\\b", "*", "?", "[ab]", "a b",
                 # the symbols POSIX counts as punctuation but Unicode does not; names on which a backtracking matcher gives up
                 "x=y", "x$y", "x+y", "x^y", "x|y", "x~y", "x<y", "x>y", "x`y", "x!y", "xzy", "a" * 60, "aaaaaab" + "a" * 100]
        os.mkdir(os.path.join(d, "r"))
        for n in names:
            open(os.path.join(d, "r", n), "wb").close()
        os.mkdir(os.path.join(d, "r", "sub"))
        open(os.path.join(d, "r", "sub", "ab"), "wb").close()
        targets = ["a", "../x/ab", "a*", "/abs/olute", ".hidden", "sub/ab", "[a", "nowhere\n"]
        for k, t in enumerate(targets):
            os.symlink(t, os.path.join(d, "r", "L%d" % k))
        entries = [("r", None)] + [("r/" + n, None) for n in sorted(names + ["sub"])] + [("r/sub/ab", None)] + \
                  [("r/L%d" % k, t) for k, t in enumerate(targets)]
        pats = ["*", "a*", "*b", "?", "??", "[ab]", "[!a]*", "a.b", "a?b", ".*", "*.*", "\\*", "\\?", "[[]a", "a]", "[a", "a\\", "*\n*", "r/*", "r/*/ab",
                "*/ab", "r*b", "*a*", "[[:upper:]]*", "L?", "../*", "/*", "*[!a-z]", "!a", "^a", "a\\\\b", "[]a]*", "[a-]*", "sub/*", "*e", "now*"]
        n = len(pats) if ctx.thorough else 18
        bad = []
        always = ["x[[:punct:]]y", "x[![:punct:]]y", "*a*a*a*a*a*a*b", "*a*a*a*a*a*b*", "*a*a*a*a*a*a*a*a*a"]
        for p in rng.sample(pats, n) + always:
            for flag, ci, subj in (("-name", 0, "base"), ("-iname", 1, "base"), ("-path", 0, "path"), ("-ipath", 1, "path"), ("-lname", 0, "link"), ("-ilname", 1, "link")):
                args = ["r", flag, p, "-print0"]
                line = "find - %s %s" % (fw.hexs(d.encode()), xc.hexlist([a.encode() for a in args]))
                code, out, err = wc.decode_find(xc.run_impl([line])[0])
                got = set(out.split(b"\0")[:-1])
                exp = set()
                for path, tgt in entries:
                    if subj == "base":
                        s = path.rsplit("/", 1)[-1]
                    elif subj == "path":
                        s = path
                    else:
                        if tgt is None:
                            continue
                        s = tgt
                    if not guarded(p):
                        continue
                    if libc.fnmatch(p.encode(), s.encode(), FNM_CASEFOLD if ci else 0) == 0:
                        exp.add(path.encode())
                ctx.count(("e2e", flag, p), True, "e2e" + flag)
                if ci and "[" in p:
                    continue        # case folding of ranges and classes is left open by the property (see ASSUMPTIONS)
                if guarded(p) and (got != exp or code != 0):
                    bad.append((flag, p, code, got, exp))
        for flag, p, code, got, exp in bad[:2]:
            ctx.violation("find r %s %r: exit %s matched %s, fnmatch says %s" % (flag, p, code, sorted(got), sorted(exp)),
                          {"property": "C12", "kind": "end-to-end", "test": flag, "pattern": p, "exit": code,
                           "implementation": sorted(x.decode() for x in got), "fnmatch": sorted(x.decode() for x in exp)})
    finally:
        import shutil
        shutil.rmtree(d, ignore_errors=True)


def replay(ctx, rep):
    run(ctx)
