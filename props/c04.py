"""C04 - xargs batching: order-preserving, lossless, within -n/-L/-s, maximal.

(O1) coq/Props/C04.v.  (O2) xargs_main run in-process (recorder executor hook) against the
extracted XArgs model on generated (options, initial arguments, input) triples with lengths
placed around every active limit; plus the real binary with a recorder program."""
import os
import subprocess
import tempfile

from lib import framework as fw
from props import xargs_common as xc

RULE = ("(options -n/-L/-s/-x/-r, command + initial arguments, token sequence with soft/hard/trailing-blank separators) cases; -s chosen at "
        "partial sums of the argument costs -1/0/+1 (including too small for the command, for one argument); non-trivial = distinct case "
        "with at least two arguments and at least one limit in force")
ASSUMPTIONS = [
    "the tokens of the generated inputs are those proved by C05_words_exact (words free of blanks, quotes, backslashes)",
    "argv of an invocation = command + initial arguments + the batch (Command::args; checked by the recorder, not modelled)",
    "sysconf(_SC_ARG_MAX) and the environment of the run are read by the harness the same way the code reads them",
]
SEPS = [b" ", b" ", b"\n", b"\n", b"  ", b" \n", b"\t", b"\n\n", b" \n \n"]


def gen_case(rng):
    ntok = rng.choice([0, 0, 1, 2, 3, 4, 5, 6, 8, 12, 25, 40])
    lens = rng.choice([[1], [1, 2, 3], [3], [1, 9], [2, 5, 30]])
    toks = []
    for i in range(ntok):
        w = bytes(rng.choice(b"abcdefgh") for _ in range(rng.choice(lens)))
        toks.append((w, rng.choice(SEPS)))
    if toks and rng.random() < 0.3:
        toks[-1] = (toks[-1][0], b"")
    cmd = [b"cmd"] + [bytes(rng.choice(b"xyz") for _ in range(rng.randint(0, 4))) for _ in range(rng.randint(0, 3))]
    base = sum(len(c) + 1 for c in cmd)
    costs = [len(w) + 1 for w, _ in toks]
    n = rng.choice([None, None, 1, 2, 3, max(1, ntok), max(1, ntok - 1)])
    L = rng.choice([None, None, None, 1, 2, 3])
    s = None
    if rng.random() < 0.7:
        sums, acc = [0], 0
        for c in costs:
            acc += c
            sums.append(acc)
        pick = rng.choice(sums + [max(costs) if costs else 0, min(costs) if costs else 0])
        s = max(1, base + pick + rng.choice([-1, 0, 0, 1, 1, 2]))
        if rng.random() < 0.08:
            s = max(1, base + rng.choice([-2, -1, 0]))
    x = rng.random() < 0.35
    r = rng.random() < 0.4
    return dict(n=n, L=L, s=s, x=x, r=r, cmd=cmd, toks=toks, quote=rng.random() < 0.06)


def opts_of(c):
    o = []
    # order of -n / -L matters to normalize_options when both are given: the last one wins
    pair = [("-n", c["n"]), ("-L", c["L"])]
    if c.get("swap"):
        pair.reverse()
    for k, v in pair:
        if v is not None:
            o += [k, str(v)]
    if c["s"] is not None:
        o += ["-s", str(c["s"])]
    if c["x"]:
        o.append("-x")
    if c["r"]:
        o.append("-r")
    return o


def effective(c):
    """normalize_options for -n and -L both given: the later one wins (tables checked in C20)"""
    n, L = c["n"], c["L"]
    if n is not None and L is not None:
        if c.get("swap"):   # -L first, -n last
            L = None
        else:
            n = None
    return n, L


def lines_for(c):
    data, toks = xc.render(c["toks"])
    n, L = effective(c)
    ierr = False
    if c.get("quote"):
        # an unterminated quote behind the arguments: whole batches only, the one being collected is not run
        # (C04_input_error_runs_whole_batches; pinned by the repository's xargs_unterminated_quote)
        if data and data[-1:] not in (b" ", b"\n", b"\t"):
            data += b" "
        data += b"'zz"
        ierr = True
    return (xc.impl_line(opts_of(c), c["cmd"], data, []),
            xc.model_line(n, L, c["s"], c["x"], c["r"], c["cmd"], toks, ierr, []), toks)


def compare(ctx, cases):
    il, ml, tk = [], [], []
    for c in cases:
        a, b, t = lines_for(c)
        il.append(a)
        ml.append(b)
        tk.append(t)
    impl = xc.run_impl(il)
    model = fw.run_lines(fw.FUVM, ml)
    bad = []
    for c, i, m, t in zip(cases, impl, model, tk):
        ic, iinv = xc.decode_impl(i)
        mc, minv = xc.decode_model(m, c["cmd"], t)
        limits = sum(v is not None for v in (c["n"], c["L"], c["s"]))
        ctx.count((opts_of(c), c["cmd"], c["toks"], bool(c.get("quote"))), len(t) >= 2 and limits >= 1,
                  ["args=%s" % ("0" if not t else "1" if len(t) == 1 else "2-6" if len(t) <= 6 else "7+"),
                   "limits=%d" % limits, "input-error=%d" % bool(c.get("quote")), "exit=%s" % mc, "batches=%s" % (len(minv) if len(minv) < 3 else "3+")])
        if (ic, iinv) != (mc, minv):
            bad.append((c, (ic, iinv), (mc, minv)))
    return bad


def disagree(c):
    a, b, t = lines_for(c)
    i = xc.decode_impl(xc.run_impl([a])[0])
    m = xc.decode_model(fw.run_lines(fw.FUVM, [b], shards=1)[0], c["cmd"], t)
    return i != m, i, m


def shrink(c):
    c = dict(c)

    def still(toks):
        d = dict(c, toks=toks)
        return disagree(d)[0]
    c["toks"] = fw.shrink_list(c["toks"], still, max_steps=120)
    for k in ("n", "L", "s"):
        d = dict(c)
        d[k] = None
        if disagree(d)[0]:
            c = d
    for k in ("x", "r"):
        d = dict(c)
        d[k] = False
        if disagree(d)[0]:
            c = d
    return c


def report(ctx, bad):
    for c, i, m in bad[:2]:
        c = shrink(c)
        _, i, m = disagree(c)
        data, toks = xc.render(c["toks"])
        ctx.violation("xargs %s %s on input %r: implementation exit %s invocations %s; model (proved greedy batching) exit %s invocations %s"
                      % (" ".join(opts_of(c)), c["cmd"], data, i[0], i[1], m[0], m[1]),
                      {"property": "C04", "kind": "correspondence", "options": opts_of(c),
                       "command": [x.decode() for x in c["cmd"]], "input_hex": fw.hexs(data),
                       "implementation": {"exit": i[0], "invocations": [[fw.hexs(a) for a in inv] for inv in i[1]]},
                       "model_and_spec": {"exit": m[0], "invocations": [[fw.hexs(a) for a in inv] for inv in m[1]]},
                       "explain": "C04_batching/C04_invocations_are_batches prove the model's batches are the lossless, ordered, within-limits, maximal ones; the implementation differs",
                       "reproduce": "printf INPUT | xargs %s %s   (with a recorder as command)" % (" ".join(opts_of(c)), " ".join(x.decode() for x in c["cmd"])),
                       "case": {k: (v if not isinstance(v, list) else None) for k, v in c.items()},
                       "tokens": [[fw.hexs(w), fw.hexs(s)] for w, s in c["toks"]],
                       "total_disagreements": len(bad)})


def e2e(ctx):
    rng = ctx.rng
    n = 120 if ctx.thorough else 20
    bad = []
    with tempfile.TemporaryDirectory(prefix="c04-", dir=fw.BUILD) as td:
        for k in range(n):
            c = gen_case(rng)
            c["cmd"] = [fw.FUV.encode(), b"record"] + c["cmd"][1:]
            if c["s"] is not None:   # the longer command name changes the base cost
                c["s"] += len(fw.FUV) + 1 + 7 - 4
            data, toks = xc.render(c["toks"])
            rec = os.path.join(td, "rec%d" % k)
            env = dict(xc.ENV, FUV_RECORD=rec)
            p = subprocess.run([fw.XARGS] + opts_of(c) + [x.decode() for x in c["cmd"]], input=data,
                               stdout=subprocess.DEVNULL, stderr=subprocess.DEVNULL, env=env, timeout=120)
            got = []
            if os.path.exists(rec):
                for line in open(rec):
                    got.append([fw.unhex(x) for x in line.split()[1:]])
            n_, L_ = effective(c)
            env_model = dict(xc.ENV, FUV_RECORD=rec)
            m = fw.run_lines(fw.FUVM, [xc.model_line(n_, L_, c["s"], c["x"], c["r"], c["cmd"], toks, False, [], env=env_model)], shards=1)[0]
            mc, minv = xc.decode_model(m, c["cmd"], toks)
            minv = [inv[2:] for inv in minv]   # the recorder logs its own arguments (after "record")
            ctx.count(("e2e", opts_of(c), c["toks"]), len(toks) >= 2, "e2e")
            if (p.returncode, got) != (mc, minv):
                bad.append((c, p.returncode, got, mc, minv, data))
    for c, rc, got, mc, minv, data in bad[:2]:
        ctx.violation("xargs binary: %s on %r gave exit %d %r, expected %d %r" % (opts_of(c), data, rc, got, mc, minv),
                      {"property": "C04", "kind": "end-to-end", "options": opts_of(c), "input_hex": fw.hexs(data),
                       "exit": rc, "invocations": [[fw.hexs(a) for a in i] for i in got],
                       "expected_exit": mc, "expected_invocations": [[fw.hexs(a) for a in i] for i in minv]})


def line_continuation(ctx):
    """-L: "a line ending in a blank continues on the next line" - also when that blank is quoted by a backslash and so belongs to the
    argument; a blank inside quotes before the newline does not continue the line (the line then ends in the quote)"""
    with tempfile.TemporaryDirectory(prefix="c04l-", dir=fw.BUILD) as td:
        for data, want in ((b"a\\ \nb\nc\n", [[b"a ", b"b"], [b"c"]]), (b"a\\\t\nb\nc\n", [[b"a\t", b"b"], [b"c"]]), (b"a \nb\nc\n", [[b"a", b"b"], [b"c"]]),
                           (b"'a '\nb\nc\n", [[b"a "], [b"b"], [b"c"]]), (b"a\\ x\nb\n", [[b"a x"], [b"b"]]), (b"a\\ \n\nb\nc\n", [[b"a ", b"b"], [b"c"]]),
                           (b"a\\\n\nb\nc\n", [[b"a\n"], [b"b"], [b"c"]])):
            rec = os.path.join(td, "rec")
            if os.path.exists(rec):
                os.remove(rec)
            p = subprocess.run([fw.XARGS, "-L", "1", fw.FUV, "record"], input=data, stdout=subprocess.DEVNULL, stderr=subprocess.DEVNULL,
                               env=dict(xc.ENV, FUV_RECORD=rec), timeout=60)
            got = [[fw.unhex(x) for x in line.split()[1:]] for line in open(rec)] if os.path.exists(rec) else []
            ctx.count(("line-continuation", data), True, "line-continuation")
            if got != want or p.returncode != 0:
                ctx.violation("xargs -L 1 on %r: invocations %r (exit %d), expected %r" % (data, got, p.returncode, want),
                              {"property": "C04", "kind": "line-continuation", "input_hex": fw.hexs(data), "exit": p.returncode,
                               "invocations": [[fw.hexs(a) for a in i] for i in got], "expected": [[fw.hexs(a) for a in i] for i in want]})


def run(ctx):
    rng = ctx.rng
    ncases = 60000 if ctx.thorough else 4000
    cases = []
    for k in range(ncases):
        c = gen_case(rng)
        c["swap"] = rng.random() < 0.5
        cases.append(c)
    bad = compare(ctx, cases)
    for c in cases[:5]:
        ctx.sample({"options": opts_of(c), "command": [x.decode() for x in c["cmd"]], "input": xc.render(c["toks"])[0].decode()})
    report(ctx, bad)
    e2e(ctx)
    line_continuation(ctx)


def replay(ctx, rep):
    if rep.get("kind") == "correspondence":
        c = dict(rep["case"])
        c["cmd"] = [x.encode() for x in rep["command"]]
        c["toks"] = [(fw.unhex(w), fw.unhex(s)) for w, s in rep["tokens"]]
        report(ctx, compare(ctx, [c]))
    else:
        run(ctx)
