"""C18 - find starting points: processed in order, spelled as given, isolated on error.

(O1) coq/Props/C18.v.  (O2) find_main in-process with lists of starting points (existing, missing,
duplicated, every spelling variant) and -files0-from lists (names starting with '-', containing
newlines, empty names, with and without the final NUL), against the Paths/Walk models."""
import os

from lib import framework as fw
from props import walk_common as wc
from props import xargs_common as xc
from props import names_common as nc
from props import known_common as kc

RULE = ("(list of starting points or -files0-from file) cases: 1-4 points drawn from existing trees in 9 spellings, missing paths, duplicates; files0 lists "
        "with hostile names, empty names, optional final NUL; default '.'; non-trivial = distinct case with at least two starting points or a files0 list")
ASSUMPTIONS = [
    "the visit sequence below each starting point is C02's subject; here each tree's expected listing is its sorted pre-order",
    "-files0-from - (standard input) is not exercised in-process; the file form is",
]


def expected_for(forest, roots):
    """(stdout, any_error) for find ROOTS -sorted -print0"""
    out, err = b"", False
    for root, base in roots:
        if base is None:
            err = True
            continue
        for names in nc.listing(forest.trees[base]):
            out += nc.join_ref(root, list(names)) + b"\0"
    return out, err


def run(ctx):
    rng = ctx.rng
    forest = wc.Forest("c18-")
    try:
        bases = []
        for k in range(6):
            nm = b"s%d" % k
            forest.add(nm, nc.gen_nasty_tree(rng, max_nodes=6, max_depth=2))
            bases.append(nm)
        # names that cannot be operands
        for nm in (b"-dash", b"nl\nx", b"!", b"("):
            forest.add(nm, ("d", {b"in": ("f", 0)}))
        cases = []
        n = 3000 if ctx.thorough else 300
        for _ in range(n):
            kind = rng.choice(["operands", "operands", "files0", "files0", "default"])
            k = rng.choice([1, 2, 2, 3, 4])
            roots = []
            for _ in range(k):
                r = rng.random()
                if r < 0.2:
                    roots.append((rng.choice([b"missing", b"./nope/x", b"s0/none"]), None))
                else:
                    b = rng.choice(bases)
                    roots.append((nc.spelled(rng, forest.dir, b), b))
            if kind == "operands":
                args = [r for r, _ in roots] + [b"-sorted", b"-print0"]
                exp_roots, diag = roots, False
                if rng.random() < 0.15:
                    # an empty depth range selects nothing, but a starting point that cannot be examined is still diagnosed
                    args = [r for r, _ in roots] + [b"-mindepth", b"2", b"-maxdepth", b"1", b"-sorted", b"-print0"]
                    cases.append(dict(kind=kind, args=args, roots=exp_roots, diag=diag, data=None, empty_range=True))
                    continue
            elif kind == "files0":
                extra = []
                if rng.random() < 0.5:
                    for nm in rng.sample([b"-dash", b"nl\nx", b"!", b"("], 2):
                        extra.append((nm, nm))
                rs = roots + extra
                rng.shuffle(rs)
                fields = [r for r, _ in rs]
                diag = False
                if rng.random() < 0.3:
                    fields.insert(rng.randint(0, len(fields)), b"")
                    diag = True
                data = b"\0".join(fields) + (b"\0" if rng.random() < 0.6 else b"")
                # reference reading of the property: NUL-separated names, an optional final NUL, empty names diagnosed
                fs = data.split(b"\0")
                if fs and fs[-1] == b"":
                    fs.pop()
                diag = any(f == b"" for f in fs)
                fn = os.path.join(forest.dir, b"list%d" % len(cases))
                open(fn, "wb").write(data)
                args = [b"-files0-from", fn, b"-sorted", b"-print0"]
                exp_roots = rs
                cases.append(dict(kind=kind, args=args, roots=exp_roots, diag=diag, data=data))
                continue
            else:
                args = [b"-sorted", b"-maxdepth", b"0", b"-print0"]
                exp_roots, diag = None, False
            cases.append(dict(kind=kind, args=args, roots=exp_roots, diag=diag, data=None))
        il = [nc.find_line(forest.dir, c["args"]) for c in cases]
        impl = xc.run_impl(il)
        # model: operand scan and files0 splitting
        ml = []
        for c in cases:
            if c["kind"] == "files0":
                ml.append("paths files0 %s" % fw.hexs(c["data"]))
            else:
                ml.append("paths starts %s" % xc.hexlist(c["args"]))
        mout = fw.run_lines(fw.FUVM, ml)
        bad = []
        for c, i, m in zip(cases, impl, mout):
            code, out, err = wc.decode_find(i)
            if c["kind"] == "default":
                mroots = [fw.unhex(x) for x in m.split(" ")[0].split(",")]
                exp_out, exp_err = b".\0", False
                ok_model = mroots == [b"."]
            elif c["kind"] == "operands":
                mroots = [fw.unhex(x) for x in m.split(" ")[0].split(",")]
                ok_model = mroots == [r for r, _ in c["roots"]]
                exp_out, exp_err = expected_for(forest, c["roots"])
                if c.get("empty_range"):
                    exp_out = b""
            else:
                names, dflag = m.split(" ")
                mroots = [] if names == "~" else [fw.unhex(x) for x in names.split(",")]
                ok_model = mroots == [r for r, _ in c["roots"]] and (dflag == "1") == c["diag"]
                exp_out, exp_err = expected_for(forest, c["roots"])
            ctx.count((c["kind"], tuple(c["args"]), c["data"]), c["kind"] == "files0" or (c["roots"] and len(c["roots"]) >= 2),
                      ["kind=" + c["kind"], "error=%d" % exp_err, "diag=%d" % c["diag"]])
            # the statement fixes the status for starting points that cannot be examined, not for a diagnosed empty name (0 here, pinned by
            # the repository's test files0_pipe_double_nul; 1 in GNU): with an empty name in the list only the error case is constrained
            code_ok = (code != 0) if exp_err else (code in (0, 1) if c["diag"] else code == 0)
            ok = ok_model and out == exp_out and code_ok and (bool(err) == (exp_err or c["diag"]))
            if not ok:
                bad.append((c, code, out, err, exp_out, exp_err, ok_model))
        kc.argv_not_utf8_find(ctx, "C18", forest.dir, "starting-point")
        kc.files0_not_utf8(ctx, "C18", forest.dir)
        operands_besides_the_list(ctx, forest)
        ctx.sample({"kind": cases[0]["kind"], "args": [a.decode("utf-8", "replace") for a in cases[0]["args"]]})
        for c, code, out, err, exp_out, exp_err, ok_model in bad[:3]:
            ctx.violation("find %s%s: exit %s, output %r; expected %s %r%s"
                          % ([a.decode("utf-8", "replace") for a in c["args"]], " (list %r)" % c["data"] if c["data"] is not None else "", code,
                             out[:200], "non-zero" if exp_err else 0, exp_out[:200], "" if ok_model else " [model of the operand scan disagrees with the reference]"),
                          {"property": "C18", "kind": "correspondence", "case": c["kind"], "find_args": [fw.hexs(a) for a in c["args"]],
                           "files0_data_hex": fw.hexs(c["data"]) if c["data"] is not None else None,
                           "implementation": {"exit": code, "stdout_hex": fw.hexs(out), "stderr": err.decode("utf-8", "replace")[:200]},
                           "expected": {"nonzero_exit": exp_err, "stdout_hex": fw.hexs(exp_out), "diagnostic": exp_err or c["diag"]},
                           "total_disagreements": len(bad)})
    finally:
        forest.close()


def operands_besides_the_list(ctx, forest):
    """a starting point given on the command line is never silently dropped: besides -files0-from it is refused (as GNU does), whether it
    is spelled "." or anything else; without operands the list alone is walked (no default ".")"""
    d = os.path.join(forest.dir, b"fl")
    os.makedirs(os.path.join(d, b"a"))
    with open(os.path.join(d, b"list"), "wb") as f:
        f.write(b"a\0")
    for ops, want_rc, want_out in (([b"."], 1, b""), ([b"a"], 1, b""), ([b"./"], 1, b""), ([], 0, b"a\0")):
        line = nc.find_line(d, ops + [b"-files0-from", b"list", b"-print0"])
        code, out, err = wc.decode_find(xc.run_impl([line])[0])
        ctx.count(("operands-besides-list", tuple(ops)), True, "operands-besides-list")
        if (code, out) != (want_rc, want_out):
            ctx.violation("find %s -files0-from list -print0 (list: a): exit %s, printed %r; expected exit %d, %r"
                          % (b" ".join(ops).decode(), code, out, want_rc, want_out),
                          {"property": "C18", "kind": "operands-besides-list", "operands": [o.decode() for o in ops], "exit": str(code),
                           "stdout": out.decode("utf-8", "replace"), "stderr": err.decode("utf-8", "replace")[:200]})


def replay(ctx, rep):
    run(ctx)
