#!/bin/sh
# The repository's own test suite in a worktree (default /tmp/fixwork): prints every failing test of EVERY test binary and
# exits 0 only when the failing set is exactly the two tests that fail in this sandbox for reasons of its own (run as root).
# Written after a repair (e7c0224) went in with `xargs_unterminated_quote` failing: only the first "test result" line had
# been read.  Use this before every fix: commit is merged.
W=${1:-/tmp/fixwork}
cd "$W" || exit 2
CARGO_NET_OFFLINE=true cargo test --offline --workspace --no-fail-fast 2>&1 > /tmp/repo_tests.$$.log
grep -E '^test .* \.\.\. FAILED' /tmp/repo_tests.$$.log | sed 's/^test //; s/ \.\.\. FAILED//' | sort -u > /tmp/repo_tests.$$.failed
grep -E '^test result' /tmp/repo_tests.$$.log
echo "failing:"; cat /tmp/repo_tests.$$.failed
printf '%s\n' find::matchers::tests::get_or_create_file_test find::tests::test_no_permission_file_error | sort -u > /tmp/repo_tests.$$.known
if cmp -s /tmp/repo_tests.$$.failed /tmp/repo_tests.$$.known && grep -q '^test result' /tmp/repo_tests.$$.log; then
  echo "OK: only the two sandbox failures"; rc=0
else
  echo "NOT OK: failing set differs from the two sandbox failures"; rc=1
fi
git -C "$W" checkout -q -- test_data 2>/dev/null
rm -f /tmp/repo_tests.$$.*
exit $rc
