"""Table translator (DESIGN.md 3.3): re-derives table-shaped code from /repo's Rust source and
writes coq/Generated/Tables.v; the proofs in coq/Proofs/TablesOk.v are then re-checked."""
import os
import re
import sys

sys.path.insert(0, os.path.dirname(os.path.dirname(os.path.abspath(__file__))))
from lib import framework as fw


def regenerate(ctx=None):
    # filled in as tables are added; the generated file is only rewritten when its content changes
    return []


if __name__ == "__main__":
    print(regenerate())
