"""Table translator (DESIGN.md 3.3): re-derives table-shaped code (match arms mapping strings to
constants) from /repo's Rust source on every run and writes coq/Generated/Tables.v.  The models
import these definitions; coq/Proofs/TablesOk.v proves each equals what the theorems need, so a
changed arm breaks a proof obligation even when no generated input reaches it."""
import os
import re
import sys

sys.path.insert(0, os.path.dirname(os.path.dirname(os.path.abspath(__file__))))
from lib import framework as fw

FILETYPES = ["Regular", "Directory", "Symlink", "BlockDevice", "CharDevice", "Fifo", "Socket"]
DIRECTIVES = ["AccessTime(TimeFormat::Ctime)", "AccessTime(<spec>)", "Blocks{large_blocks:false}", "ChangeTime(TimeFormat::Ctime)",
              "ChangeTime(<spec>)", "Depth", "Device", "Basename", "Filesystem", "Group{as_name:true}", "Group{as_name:false}",
              "Dirname", "StartingPoint", "Blocks{large_blocks:true}", "Inode", "SymlinkTarget",
              "Permissions(PermissionsFormat::Octal)", "Permissions(PermissionsFormat::Symbolic)", "HardlinkCount",
              "Path{strip_starting_point:false}", "Path{strip_starting_point:true}", "Size", "Sparseness",
              "ModificationTime(TimeFormat::Ctime)", "ModificationTime(<spec>)", "User{as_name:true}", "User{as_name:false}",
              "Type{follow_links:false}", "Type{follow_links:true}"]


def rust_char(lit):
    """value of a Rust char / 1-char string literal body"""
    if lit.startswith("\\x"):
        return int(lit[2:], 16)
    esc = {"\\n": 10, "\\r": 13, "\\t": 9, "\\0": 0, "\\\\": 92, "\\'": 39, '\\"': 34}
    if lit in esc:
        return esc[lit]
    return ord(lit)


def func_body(src, header):
    i = src.find(header)
    if i < 0:
        return None
    j = src.find("{", i)
    depth, k = 0, j
    while k < len(src):
        if src[k] == "{":
            depth += 1
        elif src[k] == "}":
            depth -= 1
            if depth == 0:
                return src[j:k + 1]
        k += 1
    return None


def extract(repo):
    miss = []
    T = {}
    rd = lambda p: open(os.path.join(repo, p)).read()
    # ---- -size units
    try:
        s = rd("src/find/matchers/size.rs")
        fs = func_body(s, "fn from_str(s: &str)")
        units = {}
        for m in re.finditer(r'((?:"[^"]*"\s*\|\s*)*"[^"]*")\s*=>\s*Self::(\w+)', fs):
            for lit in re.findall(r'"([^"]*)"', m.group(1)):
                units[lit] = m.group(2)
        sh = func_body(s, "fn byte_size_to_unit_size")
        shifts = {m.group(1): int(m.group(2)) for m in re.finditer(r"Unit::(\w+)\s*=>\s*(\d+)", sh)}
        T["size_units"] = sorted((k, shifts[v]) for k, v in units.items())
        if not T["size_units"]:
            raise ValueError
    except Exception:
        miss.append("size_units")
    # ---- -type letters
    try:
        s = rd("src/find/matchers/type_matcher.rs")
        b = func_body(s, "fn parse(type_string: &str)")
        T["type_letters"] = sorted((m.group(1), FILETYPES.index(m.group(2)) if m.group(2) in FILETYPES else 99)
                                   for m in re.finditer(r'"(\w)"\s*=>\s*FileType::(\w+)', b))
        if not T["type_letters"]:
            raise ValueError
    except Exception:
        miss.append("type_letters")
    # ---- -printf escapes and directives
    try:
        s = rd("src/find/matchers/printf.rs")
        b = func_body(s, "fn parse_escape_sequence")
        T["printf_escapes"] = sorted((rust_char(m.group(1)), rust_char(m.group(2)))
                                     for m in re.finditer(r"'((?:\\.|[^'\\]))'\s*=>\s*\"((?:\\x[0-9A-Fa-f]{2}|\\.|[^\"\\]))\"", b))
        b = func_body(s, "fn parse_format_specifier")
        ds = []
        for m in re.finditer(r"'(\w)'\s*=>\s*FormatDirective::(\w+)\s*((?:\{[^}]*\}|\([^;]*?\)(?=,\n))?)", b):
            name = m.group(2) + re.sub(r",(?=\})", "", re.sub(r"\s", "", m.group(3)))
            name = re.sub(r"\(self\.parse_time_specifier\(first\)\?\)", "(<spec>)", name)
            ds.append((ord(m.group(1)), DIRECTIVES.index(name) if name in DIRECTIVES else 99))
        T["printf_directives"] = sorted(ds)
        if not T["printf_escapes"] or not T["printf_directives"]:
            raise ValueError
    except Exception:
        miss.append("printf")
    # ---- xargs exit statuses
    try:
        s = rd("src/xargs/mod.rs")
        b = func_body(s, "pub fn xargs_main")
        arms = {}
        for m in re.finditer(r"(?:Ok\(CommandResult::(\w+)\)|CommandExecutionError::(\w+)(?:\s*\{[^}]*\}|\([^)]*\))?)\s*=>\s*(\d+)", b):
            arms[m.group(1) or m.group(2)] = int(m.group(3))
        order = ["Success", "Failure", "UrgentlyFailed", "Killed", "CannotRun", "NotFound", "Unknown"]
        T["xargs_status"] = [arms[k] for k in order]
    except Exception:
        miss.append("xargs_status")
    # ---- the primaries of build_matcher_tree: names, operand count, kind (0 test/option, 1 action, 2 -quit, 3 -prune)
    try:
        src = rd("src/find/matchers/mod.rs")
        i = src.index("let possible_submatcher = match args[i] {")
        body = src[i:]
        arms = re.split(r'\n(?=            (?:"[^\n]*=>|_ =>))', body)
        # matcher types whose has_side_effects() returns true
        action_types = set()
        mdir = os.path.join(repo, "src/find/matchers")
        for fn in os.listdir(mdir):
            if not fn.endswith(".rs"):
                continue
            txt = open(os.path.join(mdir, fn)).read()
            for m in re.finditer(r"impl Matcher for (\w+) \{", txt):
                blk = func_body(txt[m.start():], "impl Matcher for " + m.group(1))
                if blk and re.search(r"fn has_side_effects\(&self\) -> bool \{\s*true\s*\}", blk):
                    action_types.add(m.group(1))
        specials = {"-not", "!", "-and", "-a", "-or", "-o", ",", "(", ")", "-exec", "-execdir", "-help", "--help", "-version", "--version"}
        prims, found_special, exec_action = [], set(), 0
        for k_arm in range(1, len(arms)):
            a = arms[k_arm]
            m = re.match(r'\s*((?:"[^"]*"\s*\|?\s*)+)=>', a)
            if not m:
                continue
            if arms[k_arm - 1].rstrip().endswith("#[cfg(not(unix))]"):
                continue            # the variant for other platforms
            names = re.findall(r'"([^"]*)"', m.group(1))
            g = re.search(r"i >= args\.len\(\) - (\d+)", a) or re.search(r"i \+ (\d+) >= args\.len\(\)", a)
            ar = int(g.group(1)) if g else 0
            arm_body = a[m.end():]
            # only up to the end of this arm (the last arm is followed by the rest of the function)
            types = set(re.findall(r"\b([A-Z]\w+)(?:::new|\.into_box|\s*\{)", arm_body[:3000]))
            kind = 2 if "QuitMatcher" in arm_body[:400] else 3 if "PruneMatcher" in arm_body[:400] else 1 if types & action_types else 0
            for n in names:
                if n in specials:
                    found_special.add(n)
                    if n == "-exec":
                        exec_action = 1 if {"SingleExecMatcher", "MultiExecMatcher"} <= action_types else 0
                else:
                    prims.append((n, ar, kind))
        T["primaries"] = sorted(prims)
        T["specials"] = sorted(found_special)
        T["exec_action"] = exec_action
        if len(prims) < 40:
            raise ValueError
    except Exception:
        miss.append("primaries")
    # ---- the character class names the glob translator and the -regex validator know
    try:
        g = rd("src/find/matchers/glob.rs")
        g = g[g.index("fn extract_bracket_expr"):]          # (the body holds an unbalanced "{" inside a string: not func_body)
        g = g[:g.index("\nfn ", 1)]
        i = g.index("if delim == ':'")
        arm = g[i:g.index("_ => return None", i)]
        T["glob_classes"] = sorted(set(re.findall(r'"([a-z]+)"', arm)))
        r = func_body(rd("src/find/matchers/regex.rs"), "fn check_classes")
        m = re.search(r"matches!\(\s*name,(.*?)\)\s*\{", r, re.S)
        T["regex_classes"] = sorted(set(re.findall(r'"([a-z]+)"', m.group(1))))
        if len(T["glob_classes"]) < 5 or len(T["regex_classes"]) < 5:
            raise ValueError
    except Exception:
        miss.append("class_names")
    return T, miss


def coq_str(s):
    return "[" + "; ".join(str(ord(c)) for c in s) + "]"


def render(T):
    out = ["(* GENERATED by tools/extract_tables.py from /repo's source - do not edit. *)",
           "From Coq Require Import List NArith.", "Import ListNotations.", ""]
    out.append("(* -size: suffix (as character codes) -> bits to shift *)")
    out.append("Definition size_units : list (list nat * N) := [" + "; ".join("(%s, %d%%N)" % (coq_str(k), v) for k, v in T["size_units"]) + "].")
    out.append("(* -type / -xtype: letter -> file type (0 Regular 1 Directory 2 Symlink 3 BlockDevice 4 CharDevice 5 Fifo 6 Socket) *)")
    out.append("Definition type_letters : list (nat * nat) := [" + "; ".join("(%d, %d)" % (ord(k), v) for k, v in T["type_letters"]) + "].")
    out.append("(* -printf: escape letter -> character *)")
    out.append("Definition printf_escapes : list (nat * nat) := [" + "; ".join("(%d, %d)" % kv for kv in T["printf_escapes"]) + "].")
    out.append("(* -printf: directive letter -> directive (index into tools/extract_tables.py DIRECTIVES) *)")
    out.append("Definition printf_directives : list (nat * nat) := [" + "; ".join("(%d, %d)" % kv for kv in T["printf_directives"]) + "].")
    out.append("(* xargs_main: Success Failure UrgentlyFailed Killed CannotRun NotFound Unknown *)")
    out.append("Definition xargs_status : list N := [" + "; ".join("%d%%N" % v for v in T["xargs_status"]) + "].")
    out.append("(* build_matcher_tree: primary name -> (number of operands, kind: 0 test/option, 1 action, 2 -quit, 3 -prune) *)")
    out.append("Definition primaries : list (list nat * (nat * nat)) := [\n  " +
               ";\n  ".join("(%s, (%d, %d))" % (coq_str(n), a, k) for n, a, k in T["primaries"]) + "].")
    out.append("(* tokens handled structurally by the parser: operators, parentheses, -exec/-execdir, -help/-version *)")
    out.append("Definition special_names : list (list nat) := [" + "; ".join(coq_str(n) for n in T["specials"]) + "].")
    out.append("Definition exec_is_action : bool := %s." % ("true" if T["exec_action"] else "false"))
    out.append("(* the names accepted between [: and :] by extract_bracket_expr (glob.rs) and by check_classes (regex.rs) *)")
    out.append("Definition glob_class_names : list (list nat) := [" + "; ".join(coq_str(n) for n in T["glob_classes"]) + "].")
    out.append("Definition regex_class_names : list (list nat) := [" + "; ".join(coq_str(n) for n in T["regex_classes"]) + "].")
    return "\n".join(out) + "\n"


def regenerate(ctx=None):
    path = os.path.join(fw.COQ, "Generated", "Tables.v")
    committed = os.path.join(fw.COQ, "Generated", "Tables.committed")
    T, miss = extract(fw.REPO)
    if miss:
        # anchor not found (refactor): fall back to the committed table; the tie is then (O2) alone
        if ctx is not None:
            ctx.notes.append("translator_miss: " + ",".join(miss))
        new = open(committed).read() if os.path.exists(committed) else None
    else:
        new = render(T)
    if new is not None:
        with fw.Lock("coq"):
            old = open(path).read() if os.path.exists(path) else None
            if old != new:
                open(path, "w").write(new)
    return miss


def diff_tables(a, b):
    la, lb = open(a).read().splitlines(), open(b).read().splitlines()
    return "; ".join("%s  =>  %s" % (y[:160], x[:160]) for x, y in zip(la, lb) if x != y)[:600]


if __name__ == "__main__":
    T, miss = extract(fw.REPO)
    print(render(T))
    print("miss:", miss)
    if "--commit" in sys.argv:
        open(os.path.join(fw.COQ, "Generated", "Tables.committed"), "w").write(render(T))
        regenerate()
