#!/usr/bin/env python3
"""Re-run the checks against a stored seeded change: tools/seed_recheck.py <seed-id> [history note]"""
import json, os, re, subprocess, sys
V = os.path.dirname(os.path.dirname(os.path.abspath(__file__)))
sid = sys.argv[1]
d = os.path.join(V, "seeded", sid)
m = json.load(open(os.path.join(d, "meta.json")))
props = list(m.get("checks", {}).keys()) or [m["property"]]
assert subprocess.run("git -C /repo status --porcelain --untracked-files=no", shell=True, capture_output=True).stdout.strip() == b""
subprocess.run("git -C /repo apply %s/patch.diff" % d, shell=True, check=True)
# the evidence files committed in /verif describe runs on /repo itself: what the runs below write is put back afterwards
import shutil, tempfile
evidence_backup = tempfile.mkdtemp(prefix="evidence-backup-")
for p_ in props:
    f_ = os.path.join(V, "evidence", p_ + ".json")
    if os.path.exists(f_):
        shutil.copy(f_, evidence_backup)
try:
    for p in props:
        r = subprocess.run("python3 check.py %s --tier quick" % p, shell=True, cwd=V, capture_output=True, timeout=3000)
        o = r.stdout.decode("utf-8", "replace")
        viol = re.findall(r"^VIOLATION .*$", o, re.M)
        m["checks"][p] = {"exit": r.returncode, "violations": len(viol), "first": None, "no_failing_input_found": any("no-failing-input-found" in v for v in viol)}
        m["ran"].append("re-run after strengthening: git -C /repo apply patch.diff; python3 check.py %s --tier quick -> exit %d, %d VIOLATION line(s)" % (p, r.returncode, len(viol)))
finally:
    subprocess.run("git -C /repo checkout -- .", shell=True)
    for f_ in os.listdir(evidence_backup):
        shutil.copy(os.path.join(evidence_backup, f_), os.path.join(V, "evidence", f_))
    shutil.rmtree(evidence_backup, ignore_errors=True)
m["caught_by"] = [p for p, r in m["checks"].items() if r["exit"] == 1]
if len(sys.argv) > 2:
    m["history"] = sys.argv[2]
json.dump(m, open(os.path.join(d, "meta.json"), "w"), indent=1)
print(sid, m["caught_by"])
