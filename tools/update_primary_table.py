#!/usr/bin/env python3
"""After /repo's build_matcher_tree gained or lost a primary ON PURPOSE (a repair): regenerate the tables, make them the committed
ones, and restate the pinned table in Proofs/TablesOk.v (primaries_ok) and Props/C11.v (C11_primary_table).  The restated
theorems are then what the next run proves - review the diff."""
import os, re, subprocess, sys
V = os.path.dirname(os.path.dirname(os.path.abspath(__file__)))
subprocess.run([sys.executable, os.path.join(V, "tools", "extract_tables.py"), "--commit"], stdout=subprocess.DEVNULL, check=True)
t = open(os.path.join(V, "coq", "Generated", "Tables.v")).read()
entries = re.findall(r"\(\[[0-9; ]*\], \(\d+, \d+\)\)", re.search(r"Definition primaries[^:]*:[^=]*:=\s*\[(.*?)\]\.", t, re.S).group(1))
for path, head in (("coq/Proofs/TablesOk.v", r"(Lemma primaries_ok : primaries = \[\n)"), ("coq/Props/C11.v", r"(Theorem C11_primary_table : primaries = \[\n)")):
    p = os.path.join(V, path)
    s = open(p).read()
    m = re.search(head + r"(.*?)(\]\.)", s, re.S)
    s = s[:m.start()] + m.group(1) + ";\n".join("  " + e for e in entries) + m.group(3) + s[m.end():]
    open(p, "w").write(s)
print(len(entries), "primaries")
