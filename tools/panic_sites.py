#!/usr/bin/env python3
"""Inventory of the places in /repo's find and xargs (non-test code) that can end in a panic by construction:
unwrap/expect, panic!/unreachable!/unimplemented!/todo!/assert!, and the print macros (which panic when the stream cannot be written).
tools/panic_sites.py            -> prints the current sites (file|function|normalised text)
tools/panic_sites.py --update   -> rewrites audits/panic_sites.allow, keeping the reasons already given
C11 ("never by a panic") compares the current sites with audits/panic_sites.allow on every run: a site that is not listed there has
not been looked at, so the property is no longer shown to hold (reported with the site as the replay, no-failing-input-found)."""
import os
import re
import sys

V = os.path.dirname(os.path.dirname(os.path.abspath(__file__)))
REPO = "/repo"
ALLOW = os.path.join(V, "audits", "panic_sites.allow")
PAT = re.compile(r"\.unwrap\(\)|\.expect\(|\bpanic!|\bunreachable!|\bprintln!|\bprint!\(|\beprintln!|\beprint!\(|\bunimplemented!|\btodo!|\bassert(?:_eq|_ne)?!")
FN = re.compile(r"^\s*(?:pub(?:\([a-z]+\))?\s+)?(?:const\s+)?(?:unsafe\s+)?fn\s+(\w+)")


def scan(repo=REPO, subs=("src/find", "src/xargs")):
    out = []
    for sub in subs:
        for root, _, files in os.walk(os.path.join(repo, sub)):
            for f in sorted(files):
                if not f.endswith(".rs"):
                    continue
                p = os.path.join(root, f)
                txt = open(p, encoding="utf-8", errors="replace").read()
                i = txt.find("#[cfg(test)]")
                body = txt if i < 0 else txt[:i]
                fn = "-"
                for ln, line in enumerate(body.split("\n"), 1):
                    m = FN.match(line)
                    if m:
                        fn = m.group(1)
                    s = line.strip()
                    if s.startswith("//"):
                        continue
                    code = re.sub(r'"(?:[^"\\]|\\.)*"', '""', s)     # what is inside string literals does not count
                    if PAT.search(code):
                        out.append((os.path.relpath(p, repo), fn, re.sub(r"\s+", " ", s), ln))
    return out


def load_allow():
    """key -> [reasons], one per listed occurrence"""
    allow = {}
    if os.path.exists(ALLOW):
        for line in open(ALLOW, encoding="utf-8"):
            if line.startswith("#") or not line.strip():
                continue
            parts = line.rstrip("\n").split(" | ")
            if len(parts) >= 4:
                allow.setdefault((parts[0], parts[1], parts[2]), []).append(parts[3])
    return allow


def unlisted(repo=REPO, subs=("src/find", "src/xargs")):
    """the sites that are not listed (a second occurrence of a listed text in the same function counts as a new site)"""
    left = {k: len(v) for k, v in load_allow().items()}
    out = []
    for s in scan(repo, subs):
        k = (s[0], s[1], s[2])
        if left.get(k, 0) > 0:
            left[k] -= 1
        else:
            out.append(s)
    return out


if __name__ == "__main__":
    sites = scan()
    if "--update" in sys.argv:
        allow = load_allow()
        with open(ALLOW, "w", encoding="utf-8") as f:
            f.write("# file | function | text | why it cannot be reached with a failing value (see tools/panic_sites.py)\n")
            for s in sites:
                rs = allow.get((s[0], s[1], s[2]), [])
                f.write(" | ".join([s[0], s[1], s[2], rs.pop(0) if rs else "TODO"]) + "\n")
        print(len(sites), "sites")
    else:
        for s in sites:
            print("%s:%d | %s | %s" % (s[0], s[3], s[1], s[2]))
