#!/usr/bin/env python3
"""Regenerates MANIFEST.json from the table below (kept in one place so it stays valid)."""
import json, os
V = os.path.dirname(os.path.dirname(os.path.abspath(__file__)))
CLAIMED = {
 "C05": dict(
   text="Machine-checked Coq theorems about a hand-written executable model of the two xargs argument readers (chunk independence for every chunking; the reader returns exactly the unquoted words for every well-formed input; unterminated quote = error; -0/-d = non-empty fields verbatim), tied to /repo by a correspondence check that runs the extracted model and the real readers (through the cfg-guarded hook, and the real binary through a pipe) on the same (bytes, chunking) pairs. A proof is the right level because the property quantifies over all byte strings and all chunkings.",
   note="Trusted: Coq kernel, ExtrOcamlBasic extraction + OCaml driver, the Python/Rust correspondence harness, std's BufReader::read_until (exercised, not modelled). The model is hand-written from src/xargs/mod.rs and validated differentially on every run.",
   technique="Coq proof (induction over chunks/bytes) + model-vs-implementation differential correspondence",
   design="5 C05"),
 "C04": dict(
   text="Coq theorems about an executable model of the xargs limiter chain and process_input (interleaved with executions): the run factors into pure batching followed by execution; the batches are lossless, ordered, within all of -n/-L/-s/system limits simultaneously, greedy-maximal, with the empty-input and too-large rules, for every argument sequence and option combination. Tied to /repo by running xargs_main in-process (recorder hook) and the real binary against the extracted model.",
   note="Trusted: Coq kernel, extraction, harness; Command::args/argv composition and the reader (C05) are exercised, not part of these theorems.",
   technique="Coq proof (generic greedy-loop invariant + limiter-chain refinement) + differential correspondence",
   design="5 C04"),
 "C19": dict(
   text="Coq theorems over the same xargs model: with no fatal child outcome all batches run and the status is 0 iff all exited 0, else 123; the first fatal outcome (255, signal, cannot run, not found) stops the run at once with 124/125/126/127 and exactly that many invocations; own errors give 1. For every finite outcome sequence. Tied to /repo by scripted outcomes through the executor hook and by real children.",
   note="Trusted: Coq kernel, extraction, harness; std's ExitStatus decoding and spawn error kinds are exercised with real children, not modelled.",
   technique="Coq proof (induction over outcome sequences) + differential correspondence",
   design="5 C19"),
 "C20": dict(
   text="Coq theorems: -I forces one argument per run, so the runs are the input lines in order; str::replace's model replaces every leftmost non-overlapping occurrence and leaves all other text (declarative relation Repl); nothing appended; empty input runs nothing with status 0; with -I/-n/-L all given the last one is in force. Tied to /repo by in-process runs over option orders, replacement strings and lines.",
   note="Trusted: Coq kernel, extraction, harness; clap's option indices and std's str::replace are modelled and compared on every case.",
   technique="Coq proof + differential correspondence",
   design="5 C20"),
 "C02": dict(
   text="Coq theorems about a field-by-field transcription of walkdir 2.5's IntoIter stack machine driven by process_dir: for every tree, depth bound and order the walk equals the recursive DFS, which without -prune is exactly the in-range entries of the complete listing, each once; an empty depth range yields nothing; unreadable/cyclic entries are diagnosed without losing siblings. Tied to /repo by in-process find runs on generated link-rich trees under every follow mode against the extracted model fed with an independent unfolding.",
   note="Trusted: Coq kernel, extraction, harness, lib/fstree.py's unfolding of links per follow mode (validated, not proved); walkdir's loop check, descriptor recycling and same_file_system are not modelled; unreadable directories not exercised (root).",
   technique="Coq proof (stack-machine = DFS refinement, nested induction over trees) + differential correspondence",
   design="5 C02"),
 "C03": dict(
   text="Coq theorems over the same walk model: default order = pre-order DFS, -depth = post-order DFS, -prune removes exactly the entries strictly below a pruned in-range directory (filter characterisation), and is a no-op under -depth. Tied to /repo by in-process runs with name-chosen prune sets, both orders and depth bounds; -delete's implied -depth checked on twin trees. One known finding (walkdir: -H root symlink with -depth).",
   note="Trusted as C02. Known finding H-rootlink-depth is excluded from generation and checked by a dedicated witness.",
   technique="Coq proof + differential correspondence",
   design="5 C03"),
 "C01": dict(
   text="Coq theorems about a token-level transcription of build_matcher_tree (three nested builders, recursion on '(' as an explicit frame stack) and of the And/Or/List/Not evaluation loops: every sentence of the find grammar is accepted and the tree built has the value, complete evaluation trace and quit/prune flags of the textbook evaluation (completeness); everything accepted is a sentence (soundness); the default -print wrapper is added iff no token is an action; nothing is evaluated after -quit, for this or any later entry or starting point. Tied to /repo by in-process find runs on generated sentences and near-sentences against the extracted builder+evaluator+walk model.",
   note="Trusted: Coq kernel, extraction, harness; truth of individual tests is an oracle computed by the harness; argv-level parsing of operands is C11's.",
   technique="Coq proof (mutual induction over the grammar; token-stream invariant with ghost frames) + differential correspondence",
   design="5 C01"),
 "C14": dict(
   text="Coq theorems about a transcription of the operand parser, ComparableValue::matches/imatches and byte_size_to_unit_size, with the unit table regenerated from size.rs on every run: N/+N/-N mean =, >, <; exactly one of the three holds for every value; monotonicity; the operand is read as sign + decimal value + suffix with 64-bit overflow rejected; the measured size is the byte size divided by the unit rounded up (-size -1k only empty files, -size 1M sizes 1..2^20). Tied to /repo by in-process find runs on sparse files at every unit boundary up to 5 GiB, link counts, inode numbers and owner ids.",
   note="Trusted: Coq kernel, extraction, harness, the table translator (tools/extract_tables.py; a located table that differs breaks Proofs/TablesOk.v), stat fields via os.lstat.",
   technique="Coq proof (arithmetic; table regenerated from source) + differential correspondence",
   design="5 C14"),
 "C15": dict(
   text="Coq theorems over the same Numeric model: for timestamps not in the future the measured age is the number of complete periods (86400 s or 60 s) in now - timestamp at nanosecond resolution, compared as in C14; -newer/-newerXY are strict comparisons. Which timestamps are compared (entry's X, reference's Y) is tied to /repo by in-process runs with an injected clock on files whose a/m times are set with utimensat and all nine XY combinations.",
   note="Trusted: Coq kernel, extraction, harness; SystemTime/duration_since arithmetic is modelled in Z nanoseconds; -daystart and birth time not covered.",
   technique="Coq proof (integer division facts) + differential correspondence with injected clock",
   design="5 C15"),
 "C12": dict(
   text="Coq theorems for both halves. Engine: since repair 7a55db0 a glob is matched piece by piece over the set of positions the pieces so far can reach (no backtracking); the model [nfa] is proved equal to whole-string fnmatch for every sequence of one-character tests and '*' and every subject, no bound on lengths or stars (GlobNFA.v). The former engine (one regular expression, first-match backtracking plus full-length test) is kept as a theorem about complete backtracking; the real engine's retry limit made it panic, which is what the repair removed. Parser: for every well-formed structured glob (ordinary and escaped characters, ?, *, bracket expressions of characters, ranges and named classes other than [:punct:], optionally negated) the translation writes the expected regex pieces and the engine's reading of them is the glob's meaning, so glob_match (show g) s = fnmatch (sem g) s; a final unescaped backslash matches nothing and a final lone '[' is literal. -name tests the last component of the path as spelled (Paths.name_subject, three theorems). Outside the well-formed fragment (']' or '-' as list members, unclosed brackets in the middle, [:punct:] which the translation spells out, collating symbols) the executable model is validated on every run against the implementation (regex text and verdict through the hook) and against glibc fnmatch on the guarded domain, exhaustively over short patterns x subjects.",
   note="Oniguruma's reading of a one-character regex piece is a model (validated against the real engine on every run). The irregular bracket forms are validated, not proved. glibc fnmatch is the executable reference where the property fixes the answer (no backslash/leading ^ in brackets, no collating symbols; case folding of ranges/classes left open).",
   technique="Coq proof (engine: invariant of the reachable-position set; parser: induction over structured globs) + exhaustive small-domain differential correspondence",
   design="5 C12"),
 "C07": dict(
   text="Coq theorems: the printed path is the starting point as given followed by the names joined by single '/' (none added after a trailing '/'), and a stream of paths each followed by its delimiter is read back by the byte-delimited reader as exactly those paths, in order, for every chunking; with C04's losslessness every path reaches the command exactly once. Tied to /repo by in-process -print0/-print on trees of hostile names under nine spellings of the starting point and by real find | xargs -0 pipelines with a recorder.",
   note="Trusted: Coq kernel, extraction, harness; to_string_lossy (identity on valid UTF-8), the pipe and Command::args are exercised, not modelled.",
   technique="Coq proof (round trip by induction) + differential correspondence + real pipelines",
   design="5 C07"),
 "C09": dict(
   text="Coq theorems: split(\"{}\") at parse time followed by join(path) per file is textual substitution of every occurrence; argv has one element per template whatever the path contains; templates without {} are unchanged. -execdir's ./basename and working directory are an executable model over PathModel, compared with std::path on every run. Tied to /repo by the real find binary running a recorder child on hostile names, with children exiting 0/1/255/killed/missing (truth of the action, find's exit status unaffected).",
   note="Trusted: Coq kernel, extraction, harness; Command/argv fidelity observed by the recorder; std::path modelled (PathModel) and compared.",
   technique="Coq proof + end-to-end correspondence with a recorder child",
   design="5 C09"),
 "C18": dict(
   text="Coq theorems: operands before the expression are the starting points in order, exactly as spelled, '.' when there are none; every reported path has its starting point as a literal prefix; without -quit the result is the per-root results in order (roots independent); -files0-from returns exactly the NUL-separated names with or without the final NUL, empty names diagnosed and skipped. Tied to /repo by in-process runs over lists of existing/missing/duplicated starting points in every spelling and files0 lists with hostile and empty names.",
   note="Trusted: Coq kernel, extraction, harness; the visit sequence below a root is C02's; -files0-from - (stdin) not exercised.",
   technique="Coq proof + differential correspondence",
   design="5 C18"),
 "C06": dict(
   text="Coq theorem relative to a kernel model (Linux bprm_stack_limits/copy_strings: every string <= 128 KiB, strings + 8 bytes per argv/envp pointer within max(min(stack/4, 6 MiB), 128 KiB)): every batch the xargs limiter chain admits is a command line that model accepts, for every argument count and size, environment and stack limit; an oversize argument is never admitted and ends the run with status 1; the pinned limiter (no pointer accounting) is refuted by 400 000 one-byte arguments. The kernel model is validated on every run by real execve probes; the real xargs runs up to 600 000 arguments under several stack limits with every argument delivered and the model's batch sizes.",
   note="Partial by construction: the kernel rule is a validated model, not verified. Trusted: Coq kernel, harness, getconf ARG_MAX = sysconf in the child's setting.",
   technique="Coq proof relative to a probe-validated kernel model + real execve boundary probes + large end-to-end runs",
   design="5 C06"),
 "C08": dict(
   text="Coq theorem about a transcription of MultiExecMatcher with argmax's accounting and process_dir's current_dir bookkeeping: for every entry sequence (each path fitting alone) nothing is pending at the end (also after -quit), the appended arguments concatenated are exactly the reached entries in visit order, every invocation is within argmax's budget (hence accepted by the kernel model), every -execdir invocation holds entries of one directory and runs there, and the exit status is non-zero iff an invocation failed. Tied to /repo by the real binary with a recorder child on trees of thousands of long paths under reduced stack limits (several batches), tests before the action, -quit, failing invocations.",
   note="Trusted: Coq kernel, extraction, harness; argmax modelled from its source; kernel rule as C06.",
   technique="Coq proof (loop invariant over the entry sequence) + end-to-end correspondence with a recorder child",
   design="5 C08"),
 "C10": dict(
   text="Coq theorem: folding DeleteMatcher (remove_file for non-directories and links, rmdir succeeding iff every listed child was removed) over the -depth visit sequence removes exactly the reference set - the matched entries, a directory only once everything below it is gone - in depth-first order, and nothing unmatched, for every tree and predicate. Tied to /repo by in-process runs on throw-away trees with links inside and outside, full before/after snapshots of the sandbox and of a decoy directory, exit status, and the printed sequence against -depth EXPR -print on a twin tree.",
   note="Trusted: Coq kernel, extraction, harness; unlink/rmdir semantics; -P only for the decoy check.",
   technique="Coq proof (nested induction with a freshness invariant) + snapshot-based correspondence",
   design="5 C10"),
 "C13": dict(
   text="Coq theorems about a transcription of WalkEntry::from_walkdir / metadata / file_type and Follow::metadata over an operating-system oracle (lstat record and stat result): the record every test sees is lstat under -P, stat (lstat for dangling links) under -L, and under -H stat for starting points only; -xtype makes the opposite choice; -lname applies only where the link itself is the entry; -perm MODE / -MODE / /MODE as statements about the twelve permission bits; the -type letter table regenerated from the source. Tied to /repo by in-process runs on every creatable file type, links to each, dangling and looping links, hard links, sampled modes (octal and symbolic), chown'ed files, under -P/-H/-L at depth 0 and 1.",
   note="Trusted: Coq kernel, extraction, harness, os.lstat/os.stat as the records; uucore::mode's symbolic parser exercised not modelled; block/char devices not created.",
   technique="Coq proof (finite case analysis over an OS oracle; bit-level lemmas) + differential correspondence",
   design="5 C13"),
 "C17": dict(
   text="Coq theorem: a derivative-based matcher decides exactly the inductively defined language of a pattern (whole string, every alternative), for all patterns and strings; -regextype is positional (nearest preceding one, emacs by default). The repaired implementation (pattern matched as (P)$ with a full-length test) is compared on every run with that verified oracle: random pattern ASTs with alternation, repetition, intervals and brackets printed in each supported syntax, on a tree of paths over the same alphabet, with -iregex, and -regextype placed before, between and inside parentheses.",
   note="Partial by construction: Oniguruma is not modelled; the Coq side contributes the verified oracle and the scoping rule. Trusted: Coq kernel, extraction, harness, the per-syntax printers in props/c17.py.",
   technique="Coq proof (Brzozowski derivatives = denotational language) used as a verified oracle + differential correspondence",
   design="5 C17"),
 "C16": dict(
   text="Coq theorems about a transcription of FormatStringParser and Printf::print with escape and directive tables regenerated from printf.rs: for every format string of the documented language (verbatim characters incl. multi-byte, the escapes, \\NNN, \\c, %%, directives with optional '-' and width) the output is the reference rendering - each escape its character, each directive its padded value, everything else verbatim, nothing appended; padding is blanks only, on the documented side, at least WIDTH characters, never truncating. The path-valued directives are an executable model over PathModel compared with the implementation for every spelling of the starting point; numeric directives come from the record C13 selects. One known finding (%H below a starting point spelled with a trailing slash).",
   note="Trusted: Coq kernel, extraction, harness, table translator; directive values are oracles of the renderer theorem (validated separately); time/user-name directives not covered.",
   technique="Coq proof (parse-of-print = reference rendering, by induction with a literal accumulator) + differential correspondence",
   design="5 C16"),
 "C11": dict(
   text="Coq theorems about the argv-level layer of build_matcher_tree over the table of primaries regenerated from the source (operand counts, kinds, action flags): whatever is accepted is lexically valid and a sentence of the expression grammar (composition with C01's soundness); unknown primaries, missing operands, invalid operands, -exec without terminator, dangling operators, '!' without operand, unbalanced and empty parentheses are rejected. The model has no panic outcome; that the implementation never panics or hangs, and that a rejected command line has no effect, is established on every run by the correspondence check: thousands of argument vectors (sentences and mutations over the full vocabulary, operands from valid values, near-misses and arbitrary strings) in-process under catch_unwind with sandbox snapshots, the real binary for a sample, and actions on entries with unknown owners or removed by an earlier action. One known finding (-newerXY recognised by an unanchored pattern).",
   note="Partial: panic/hang freedom is exercised, not proved. Operand validators inside dependencies (Oniguruma, uucore::mode, passwd/group lookups, chrono) are oracles answered by the dependencies themselves or the OS; -fprint* create their target at parse time (as GNU find does).",
   technique="Coq proof (lexer lemmas + C01 soundness; tables regenerated from source) + differential correspondence under catch_unwind",
   design="5 C11"),
}
ALL = ["C%02d" % i for i in range(1, 21)]
def main():
    checks = []
    for pid in ALL:
        if pid not in CLAIMED: continue
        c = CLAIMED[pid]
        checks.append({
            "property_id": pid,
            "quick_cmd": "python3 check.py %s --tier quick" % pid,
            "thorough_cmd": "python3 check.py %s --tier thorough" % pid,
            "evidence_file": "/verif/evidence/%s.json" % pid,
            "replay_cmd_template": "python3 check.py %s --replay {path}" % pid,
            "engine": "coq-model-correspondence",
            "level_claimed": {"category": "proof", "text": c["text"], "design_ref": "DESIGN.md section " + c["design"]},
            "level_note": c["note"],
            "technique": c["technique"],
        })
    m = {
      "version": 1,
      "setup_cmd": "make -C /verif setup",
      "hooks": {
        "guard": "uutils_findutils_verif",
        "enable": "RUSTFLAGS='--cfg uutils_findutils_verif' cargo build --offline (harness/ depends on /repo by path)",
        "baseline_off_cmd": "cd /repo && cargo nextest run --workspace --no-fail-fast --tool-config-file pb:/w/lib/nextest.toml --profile pb --test-threads 8 --offline || cargo test --workspace --no-fail-fast --offline",
        "source_commits": ["c70f986", "c063cd3", "efa1c21", "bb32859", "bf808dc", "b238943", "ba430f1"],
        "add_only": True,
      },
      "engines": [{"name": "coq-model-correspondence", "path": "/verif/check.py",
                   "serves_properties": sorted(CLAIMED),
                   "kind_free_text": "Coq 8.16.1 theorems over hand-written executable models (coq/), extracted to OCaml and compared with the implementation built from /repo's working tree (harness/), plus a table translator (tools/extract_tables.py)"}],
      "checks": checks,
      "not_applicable": [{"property_id": p, "reason": "check not built yet (work in progress; the design in DESIGN.md covers it)"} for p in ALL if p not in CLAIMED],
      "notes": "See DESIGN.md. Known findings: KNOWN_FINDINGS.jsonl. Genuine defects repaired by 'fix:' commits in /repo are listed there as fixed.",
    }
    json.dump(m, open(os.path.join(V, "MANIFEST.json"), "w"), indent=1)
    print("MANIFEST.json: %d checks" % len(checks))
if __name__ == "__main__":
    main()
