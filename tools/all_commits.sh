#!/bin/sh
# usage: git -C /repo worktree add --detach /tmp/allcommits b4c751e; tools/all_commits.sh; result in /tmp/allcommits.log
cd /tmp/allcommits || exit 1
: > /tmp/allcommits.log
for c in $(git -C /repo rev-list --reverse b4c751e..main); do
  git checkout -q --detach $c 2>/dev/null || { echo "$c checkout-failed" >> /tmp/allcommits.log; continue; }
  out=$(CARGO_NET_OFFLINE=true nice cargo test --offline --workspace --no-fail-fast -j 6 2>&1)
  fails=$(printf '%s\n' "$out" | grep -E '^test .* \.\.\. FAILED' | sed 's/^test //; s/ \.\.\. FAILED//' | sort -u | tr '\n' ' ')
  nres=$(printf '%s\n' "$out" | grep -c '^test result')
  echo "$(git log -1 --format=%h) results=$nres failing: $fails" >> /tmp/allcommits.log
  git checkout -q -- . 2>/dev/null; git clean -fdq test_data 2>/dev/null
done
echo DONE >> /tmp/allcommits.log
