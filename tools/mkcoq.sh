#!/bin/sh
# regenerate coq/_CoqProject and coq/Makefile from the files present
cd "$(dirname "$0")/../coq" || exit 1
{ echo "-R . FU"; find Base Model Spec Proofs Props Generated -name '*.v' | sort; } > _CoqProject.new
if ! cmp -s _CoqProject.new _CoqProject || [ ! -f Makefile ]; then
  mv _CoqProject.new _CoqProject; rm -f .Makefile.d
  coq_makefile -f _CoqProject -o Makefile > /dev/null
else rm -f _CoqProject.new; fi
