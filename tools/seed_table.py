#!/usr/bin/env python3
"""Rewrites the seeded-changes table in DESIGN.md from seeded/*/meta.json."""
import glob, json, os, re
V = os.path.dirname(os.path.dirname(os.path.abspath(__file__)))
rows = []
for f in sorted(glob.glob(os.path.join(V, "seeded", "*", "meta.json"))):
    m = json.load(open(f))
    notes = m.get("needs_to_manifest", "")
    first = next((l.strip("# *").strip() for l in notes.splitlines() if l.strip() and not l.startswith("```")), "")
    need = ""
    mm = re.search(r"(?:needed to manifest|What is needed to manifest|Needed to manifest|What it needs to manifest)\**:?\**\s*(.*)", notes, re.I | re.S)
    if mm:
        need = " ".join(mm.group(1).split())[:260]
    caught = ", ".join(m.get("caught_by", [])) or "**missed**"
    hist = m.get("history", "")
    rows.append("| `%s` | %s | %s | %s | %s%s |" % (m["seed"], m["property"], first[:110].replace("|", "/"), need.replace("|", "/"), caught, (" (" + hist + ")") if hist else ""))
table = "| seeded change (seeded/<id>/) | property | what it is | what it needs to manifest | caught by (quick tier) |\n|---|---|---|---|---|\n" + "\n".join(rows)
p = os.path.join(V, "DESIGN.md")
s = open(p).read()
if "SEEDED_TABLE_PLACEHOLDER" in s:
    s = s.replace("SEEDED_TABLE_PLACEHOLDER", "<!-- seeded-table-begin -->\n" + table + "\n<!-- seeded-table-end -->")
else:
    s = re.sub(r"<!-- seeded-table-begin -->.*?<!-- seeded-table-end -->", lambda _: "<!-- seeded-table-begin -->\n" + table + "\n<!-- seeded-table-end -->", s, flags=re.S)
open(p, "w").write(s)
print(len(rows), "rows")
