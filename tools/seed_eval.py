#!/usr/bin/env python3
"""Confirm a seeded change and run the checks against it.
usage: tools/seed_eval.py <seed-id> <property> <worktree> [extra properties to run...]
Steps: (1) in the worktree: demo passes without the patch and fails with it; the repository's own tests give the
same failures with and without; (2) apply the patch to /repo, run check.py for the property (and extras), undo;
(3) write seeded/<seed-id>/{patch.diff,demo.sh,notes.md,meta.json}."""
import json
import os
import re
import shutil
import subprocess
import sys

V = os.path.dirname(os.path.dirname(os.path.abspath(__file__)))


def sh(cmd, cwd=None, timeout=3000):
    p = subprocess.run(cmd, shell=True, cwd=cwd, stdout=subprocess.PIPE, stderr=subprocess.STDOUT, timeout=timeout)
    return p.returncode, p.stdout.decode("utf-8", "replace")


def failing_tests(wt):
    rc, out = sh("cargo test --workspace --no-fail-fast --offline -j 6 2>&1", cwd=wt)
    fails = sorted(set(re.findall(r"^test (\S+) \.\.\. FAILED", out, re.M)))
    passed = sum(int(x) for x in re.findall(r"test result: \w+\. (\d+) passed", out))
    sh("git clean -fdq test_data", cwd=wt)
    return fails, passed


def main():
    sid, prop, wt = sys.argv[1:4]
    extra = sys.argv[4:]
    out = os.path.join(wt, "out")
    patch = os.path.join(out, "patch.diff")
    demo = os.path.join(out, "demo.sh")
    meta = {"seed": sid, "property": prop, "ran": []}
    # the patch as the worktree has it
    rc, diff = sh("git diff -- . ':(exclude)out'", cwd=wt)
    open(patch, "w").write(diff)
    # (1) without / with
    sh("git checkout -- src Cargo.toml tests", cwd=wt)      # (git stash is shared between worktrees: not used)
    rc, o = sh("cargo build --offline 2>&1 | tail -2", cwd=wt)
    rc0, o0 = sh("bash %s %s/target/debug" % (demo, wt), cwd=wt, timeout=600)
    fails0, passed0 = failing_tests(wt)
    rc, o = sh("git apply %s" % patch, cwd=wt)
    assert rc == 0, o
    rc, o = sh("cargo build --offline 2>&1 | tail -2", cwd=wt)
    rc1, o1 = sh("bash %s %s/target/debug" % (demo, wt), cwd=wt, timeout=600)
    fails1, passed1 = failing_tests(wt)
    meta["demo_exit_without_patch"] = rc0
    meta["demo_exit_with_patch"] = rc1
    meta["tests_failing_without"] = fails0
    meta["tests_failing_with"] = fails1
    meta["tests_passed_without_with"] = [passed0, passed1]
    meta["confirmed"] = (rc0 == 0 and rc1 == 1 and fails0 == fails1 and passed0 == passed1)
    meta["ran"].append("in %s: demo.sh without the patch (exit %d) and with it (exit %d); cargo test --workspace --no-fail-fast --offline both ways "
                       "(%d/%d passed, failing: %s / %s)" % (wt, rc0, rc1, passed0, passed1, fails0, fails1))
    # (2) the checks (one seed at a time in /repo: several evaluations may run their worktree phase concurrently)
    import fcntl
    lockf = open("/tmp/seed-eval.lock", "w")
    fcntl.flock(lockf, fcntl.LOCK_EX)
    rc, o = sh("git -C /repo status --porcelain --untracked-files=no")
    assert o.strip() == "", "/repo is not clean: " + o
    rc, o = sh("git -C /repo apply %s" % patch)
    assert rc == 0, o
    results = {}
    # the evidence files committed in /verif describe runs on /repo itself: what the runs below write is put back afterwards
    import tempfile
    evidence_backup = tempfile.mkdtemp(prefix="evidence-backup-")
    for p in [prop] + extra:
        f_ = os.path.join(V, "evidence", p + ".json")
        if os.path.exists(f_):
            shutil.copy(f_, evidence_backup)
    try:
        for p in [prop] + extra:
            rc, o = sh("python3 check.py %s --tier quick" % p, cwd=V, timeout=3000)
            viol = re.findall(r"^VIOLATION .*$", o, re.M)
            summ = [l for l in o.splitlines() if l.startswith("  -> ")][:2]
            results[p] = {"exit": rc, "violations": len(viol), "first": summ[0][:400] if summ else None,
                          "no_failing_input_found": any("no-failing-input-found" in v for v in viol)}
            meta["ran"].append("git -C /repo apply patch.diff; python3 check.py %s --tier quick -> exit %d, %d VIOLATION line(s)" % (p, rc, len(viol)))
    finally:
        sh("git -C /repo checkout -- .")
        for f_ in os.listdir(evidence_backup):
            shutil.copy(os.path.join(evidence_backup, f_), os.path.join(V, "evidence", f_))
        shutil.rmtree(evidence_backup, ignore_errors=True)
        fcntl.flock(lockf, fcntl.LOCK_UN)
    meta["checks"] = results
    meta["caught_by"] = [p for p, r in results.items() if r["exit"] == 1]
    d = os.path.join(V, "seeded", sid)
    os.makedirs(d, exist_ok=True)
    shutil.copy(patch, os.path.join(d, "patch.diff"))
    shutil.copy(demo, os.path.join(d, "demo.sh"))
    if os.path.exists(os.path.join(out, "notes.md")):
        shutil.copy(os.path.join(out, "notes.md"), os.path.join(d, "notes.md"))
        meta["needs_to_manifest"] = open(os.path.join(out, "notes.md")).read()[:1500]
    json.dump(meta, open(os.path.join(d, "meta.json"), "w"), indent=1)
    print(json.dumps({k: meta[k] for k in ("seed", "confirmed", "demo_exit_without_patch", "demo_exit_with_patch", "caught_by")}, indent=None))
    for p, r in results.items():
        print(" ", p, r)


if __name__ == "__main__":
    main()
