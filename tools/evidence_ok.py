#!/usr/bin/env python3
"""Before committing /verif: every evidence file must come from a green run on /repo itself (no violations recorded, /repo clean)."""
import glob, json, os, subprocess, sys
V = os.path.dirname(os.path.dirname(os.path.abspath(__file__)))
bad = [f for f in sorted(glob.glob(os.path.join(V, "evidence", "C*.json"))) if json.load(open(f)).get("violations")]
dirty = subprocess.run("git -C /repo status --porcelain --untracked-files=no", shell=True, capture_output=True).stdout.strip()
if bad or dirty:
    print("NOT OK:", bad, dirty.decode())
    sys.exit(1)
print("evidence ok (%d files), /repo clean" % len(glob.glob(os.path.join(V, "evidence", "C*.json"))))
