#!/usr/bin/env python3
"""Store a seeded change re-written for the current /repo (after a repair changed the lines it touched):
tools/seed_rebase.py <seed-id> <new patch> <scratch worktree at /repo's HEAD>
Confirms in the worktree that the demo still passes without and fails with the change and that the repository's tests
fail the same tests both ways; keeps the original as patch.orig.diff; then re-runs the checks (seed_recheck)."""
import json, os, re, shutil, subprocess, sys
V = os.path.dirname(os.path.dirname(os.path.abspath(__file__)))
sid, new, wt = sys.argv[1:4]
d = os.path.join(V, "seeded", sid)
def sh(c, cwd=wt, timeout=3000):
    p = subprocess.run(c, shell=True, cwd=cwd, stdout=subprocess.PIPE, stderr=subprocess.STDOUT, timeout=timeout)
    return p.returncode, p.stdout.decode("utf-8", "replace")
def tests():
    rc, out = sh("cargo test --workspace --no-fail-fast --offline -j 8 2>&1")
    sh("git clean -fdq test_data")
    return sorted(set(re.findall(r"^test (\S+) \.\.\. FAILED", out, re.M)) - {"find::matchers::tests::get_or_create_file_test"})
sh("git checkout -- .")
head = sh("git rev-parse --short HEAD")[1].strip()
sh("cargo build --offline -j 8")
rc0, _ = sh("bash %s/demo.sh %s/target/debug" % (d, wt), timeout=600)
f0 = tests()
rc, o = sh("git apply %s" % new); assert rc == 0, o
sh("cargo build --offline -j 8")
rc1, _ = sh("bash %s/demo.sh %s/target/debug" % (d, wt), timeout=600)
f1 = tests()
sh("git checkout -- .")
assert rc0 == 0 and rc1 == 1 and f0 == f1, (rc0, rc1, f0, f1)
m = json.load(open(os.path.join(d, "meta.json")))
if not os.path.exists(os.path.join(d, "patch.orig.diff")):
    shutil.copy(os.path.join(d, "patch.diff"), os.path.join(d, "patch.orig.diff"))
shutil.copy(new, os.path.join(d, "patch.diff"))
m["rebased_onto"] = head
m["ran"].append("re-written for /repo %s (a repair changed the lines it touched; original kept as patch.orig.diff): in %s demo.sh exit %d without / %d with; "
                "cargo test failing sets equal (%s)" % (head, wt, rc0, rc1, f0))
json.dump(m, open(os.path.join(d, "meta.json"), "w"), indent=1)
print(sid, "rebased onto", head)
