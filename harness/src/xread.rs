use crate::util::{chunks, hex};
use findutils::xargs::verif::{read_args, read_lines};

pub fn handle(words: &[&str]) -> String {
    let result = match words {
        ["ws", cs] => read_args(None, chunks(cs)),
        ["wl", cs] => read_lines(chunks(cs)),
        ["bd", d, cs] => read_args(Some(d.parse::<u8>().unwrap()), chunks(cs)),
        _ => return "badcase".to_string(),
    };
    match result {
        Err(_) => "err".to_string(),
        Ok(v) => {
            let mut s = String::from("ok");
            for (t, h) in v {
                s.push(' ');
                s.push_str(&hex(&t));
                s.push_str(if h { ":1" } else { ":0" });
            }
            s
        }
    }
}
