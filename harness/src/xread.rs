use crate::util::{chunks, hex};
use findutils::xargs::verif::read_args;

pub fn handle(words: &[&str]) -> String {
    let (delim, cs) = match words {
        ["ws", cs] => (None, chunks(cs)),
        ["bd", d, cs] => (Some(d.parse::<u8>().unwrap()), chunks(cs)),
        _ => return "badcase".to_string(),
    };
    match read_args(delim, cs) {
        Err(_) => "err".to_string(),
        Ok(v) => {
            let mut s = String::from("ok");
            for (t, h) in v {
                s.push(' ');
                s.push_str(&hex(&t));
                s.push_str(if h { ":1" } else { ":0" });
            }
            s
        }
    }
}
