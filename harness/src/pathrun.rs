//! `path OP A [B]`: the std::path operations the code relies on, for the PathModel correspondence.
use crate::util::{hex, unhex};
use std::ffi::OsString;
use std::os::unix::ffi::{OsStrExt, OsStringExt};
use std::path::Path;

pub fn handle(words: &[&str]) -> String {
    let a = OsString::from_vec(unhex(words.get(1).copied().unwrap_or("-")));
    let b = OsString::from_vec(unhex(words.get(2).copied().unwrap_or("-")));
    let pa = Path::new(&a);
    let opt = |p: Option<&std::ffi::OsStr>| p.map(|x| hex(x.as_bytes())).unwrap_or_else(|| "none".into());
    match words.first().copied() {
        Some("parent") => opt(pa.parent().map(Path::as_os_str)),
        Some("file_name") => opt(pa.file_name()),
        Some("join") => hex(pa.join(Path::new(&b)).as_os_str().as_bytes()),
        Some("strip_prefix") => opt(pa.strip_prefix(Path::new(&b)).ok().map(Path::as_os_str)),
        _ => "badcase".into(),
    }
}
