pub fn unhex(s: &str) -> Vec<u8> {
    if s == "-" {
        return vec![];
    }
    let b = s.as_bytes();
    (0..b.len() / 2)
        .map(|i| u8::from_str_radix(std::str::from_utf8(&b[2 * i..2 * i + 2]).unwrap(), 16).unwrap())
        .collect()
}

pub fn hex(b: &[u8]) -> String {
    if b.is_empty() {
        return "-".to_string();
    }
    b.iter().map(|c| format!("{c:02x}")).collect()
}

pub fn chunks(s: &str) -> Vec<Vec<u8>> {
    if s == "-" {
        return vec![];
    }
    s.split(',').map(unhex).collect()
}
