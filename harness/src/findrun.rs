//! `find NOW CWD ARGS`: find_main in-process with captured output.
//! NOW: "-" (real clock) or seconds[.nanos] since the epoch; CWD: "-" or hex path; ARGS: "~" or
//! comma-separated hex strings (without argv[0]).
//! Result: "<exit> <stdout hex> <stderr hex, first 600 bytes> <number of stderr lines beginning with Error>" or "panic <stdout hex> <stderr hex>".
use crate::util::{hex, unhex};
use findutils::find::{find_main, Dependencies};
use std::cell::RefCell;
use std::io::{Read, Seek, SeekFrom, Write};
use std::os::unix::io::AsRawFd;
use std::time::{Duration, SystemTime};

struct Deps {
    out: RefCell<Vec<u8>>,
    now: SystemTime,
}

impl Dependencies for Deps {
    fn get_output(&self) -> &RefCell<dyn Write> {
        &self.out
    }
    fn now(&self) -> SystemTime {
        self.now
    }
}

thread_local! {
    static ERRFILE: RefCell<Option<std::fs::File>> = const { RefCell::new(None) };
}

/// Redirect fd 2 to a scratch file once per process so that diagnostics can be read back.
fn stderr_file() -> u64 {
    ERRFILE.with(|e| {
        let mut e = e.borrow_mut();
        if e.is_none() {
            let path = crate::xrun::scratch("stderr");
            let f = std::fs::OpenOptions::new()
                .create(true)
                .truncate(true)
                .read(true)
                .write(true)
                .open(&path)
                .unwrap();
            let _ = std::fs::remove_file(&path);
            unsafe { libc::dup2(f.as_raw_fd(), 2) };
            *e = Some(f);
        }
        e.as_mut().unwrap().seek(SeekFrom::End(0)).unwrap()
    })
}

/// what was written to standard error since `pos`: the first 600 bytes, and the number of lines that begin with "Error" or "Failed to"
fn stderr_since(pos: u64) -> (Vec<u8>, usize) {
    ERRFILE.with(|e| {
        let mut e = e.borrow_mut();
        let f = e.as_mut().unwrap();
        let mut buf = vec![];
        f.seek(SeekFrom::Start(pos)).unwrap();
        let _ = f.read_to_end(&mut buf);
        f.seek(SeekFrom::End(0)).unwrap();
        let diagnostics = buf.split(|&b| b == b'\n').filter(|l| l.starts_with(b"Error") || l.starts_with(b"Failed to")).count();
        buf.truncate(600);
        (buf, diagnostics)
    })
}

pub fn handle(words: &[&str]) -> String {
    let [now, cwd, args] = words else {
        return "badcase".into();
    };
    let now = if *now == "-" {
        SystemTime::now()
    } else {
        let (s, n) = now.split_once('.').unwrap_or((now, "0"));
        SystemTime::UNIX_EPOCH + Duration::new(s.parse().unwrap(), n.parse().unwrap())
    };
    if *cwd != "-" {
        use std::os::unix::ffi::OsStringExt;
        let p = std::ffi::OsString::from_vec(unhex(cwd));
        if std::env::set_current_dir(&p).is_err() {
            return "badcwd".into();
        }
    }
    let mut argv: Vec<String> = vec!["find".into()];
    for a in crate::xrun::list(args) {
        match String::from_utf8(a) {
            Ok(s) => argv.push(s),
            Err(_) => return "badutf8".into(),
        }
    }
    let deps = Deps {
        out: RefCell::new(vec![]),
        now,
    };
    let pos = stderr_file();
    let refs: Vec<&str> = argv.iter().map(String::as_str).collect();
    let code = std::panic::catch_unwind(std::panic::AssertUnwindSafe(|| find_main(&refs, &deps)));
    let (err, diagnostics) = stderr_since(pos);
    let out = match deps.out.try_borrow() {
        Ok(o) => hex(&o),
        Err(_) => "-".into(),
    };
    match code {
        Ok(c) => format!("{} {} {} {}", c, out, hex(&err), diagnostics),
        Err(_) => format!("panic {} {}", out, hex(&err)),
    }
}
