//! Oracles from the dependencies themselves (not from findutils code): does Oniguruma accept a
//! pattern under a syntax, does uucore's mode parser accept a mode string.
use crate::util::unhex;
use onig::{Regex, RegexOptions, Syntax};

pub fn handle(words: &[&str]) -> String {
    match words {
        ["regex", ty, pat] => {
            let Ok(p) = String::from_utf8(unhex(pat)) else { return "0".into() };
            let syntax = match *ty {
                "emacs" => Syntax::emacs(),
                "grep" => Syntax::grep(),
                "posix-extended" => Syntax::posix_extended(),
                _ => Syntax::posix_basic(),
            };
            if Regex::with_options(&p, RegexOptions::REGEX_OPTION_NONE, syntax).is_ok() { "1" } else { "0" }.into()
        }
        ["perm", s] => {
            let Ok(p) = String::from_utf8(unhex(s)) else { return "0".into() };
            let body = p.strip_prefix('-').or_else(|| p.strip_prefix('/')).unwrap_or(&p);
            // a mode has no blanks in it, and "+OCTAL" is not one (GNU find removed that spelling of "/OCTAL")
            let old_any_of = body.strip_prefix('+').is_some_and(|r| !r.is_empty() && r.bytes().all(|b| b.is_ascii_digit()));
            let ok = if body.contains(char::is_whitespace) || old_any_of {
                false
            } else if body.contains(|c: char| c.is_ascii_digit()) {
                uucore::mode::parse_numeric(0, body, false).is_ok()
            } else {
                let mut mode = 0;
                let mut ok = true;
                for chunk in body.split(',') {
                    match uucore::mode::parse_symbolic(mode, chunk, 0, false) {
                        Ok(m) => mode = m,
                        Err(_) => {
                            ok = false;
                            break;
                        }
                    }
                }
                ok
            };
            if ok { "1" } else { "0" }.into()
        }
        _ => "badcase".into(),
    }
}
