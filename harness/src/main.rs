//! Line-protocol harness around the real findutils code (built from /repo's working tree).
//! One case per input line; the first word selects the operation; one result line per case.
use std::io::{BufRead, Write};

mod util;
mod findrun;
mod globrun;
mod oracle;
mod pathrun;
mod xread;
mod xrun;

/// `fuv record ARGS...`: append "cwd argv0 argv1 ..." (hex) to $FUV_RECORD, exit with $FUV_EXIT
/// (or, when $FUV_EXIT_MAP is "i:code,..." with the 0-based index of this invocation in the
/// record file, with that code; code "kill" = die by SIGKILL).
fn record_main(argv: Vec<std::ffi::OsString>) -> ! {
    use std::os::unix::ffi::OsStrExt;
    let mut line = String::new();
    let cwd = std::env::current_dir().map(|p| p.into_os_string()).unwrap_or_default();
    line.push_str(&util::hex(cwd.as_bytes()));
    for a in &argv {
        line.push(' ');
        line.push_str(&util::hex(a.as_bytes()));
    }
    line.push('\n');
    let mut index = 0usize;
    if let Some(path) = std::env::var_os("FUV_RECORD") {
        use std::io::Read;
        let mut f = std::fs::OpenOptions::new().create(true).append(true).read(true).open(&path).unwrap();
        f.write_all(line.as_bytes()).unwrap();
        let mut all = String::new();
        if let Ok(mut g) = std::fs::File::open(&path) {
            let _ = g.read_to_string(&mut all);
        }
        index = all.lines().count().saturating_sub(1);
    }
    let mut code = std::env::var("FUV_EXIT").unwrap_or_else(|_| "0".into());
    if let Ok(map) = std::env::var("FUV_EXIT_MAP") {
        for ent in map.split(',') {
            if let Some((i, c)) = ent.split_once(':') {
                if i.parse::<usize>().ok() == Some(index) {
                    code = c.to_string();
                }
            }
        }
    }
    if code == "kill" {
        unsafe { libc::kill(libc::getpid(), libc::SIGKILL) };
    }
    std::process::exit(code.parse().unwrap_or(0));
}

fn main() {
    let argv: Vec<std::ffi::OsString> = std::env::args_os().collect();
    if argv.len() >= 2 && argv[1] == "record" {
        record_main(argv[2..].to_vec());
    }
    let stdin = std::io::stdin();
    // results go to the original standard output; fd 1 itself is pointed at /dev/null so that the code
    // under test (print_help, child processes of -exec) cannot corrupt the protocol
    let mut out = {
        use std::os::unix::io::FromRawFd;
        let saved = unsafe { libc::dup(1) };
        let devnull = std::fs::OpenOptions::new().write(true).open("/dev/null").unwrap();
        unsafe { libc::dup2(std::os::unix::io::AsRawFd::as_raw_fd(&devnull), 1) };
        std::io::BufWriter::new(unsafe { std::fs::File::from_raw_fd(saved) })
    };
    // keep panics of the code under test quiet; they are reported as "panic" results
    if std::env::var_os("FUV_PANICS").is_none() {
        std::panic::set_hook(Box::new(|_| {}));
    }
    for line in stdin.lock().lines() {
        let line = line.unwrap();
        let mut words = line.split(' ');
        let kind = words.next().unwrap_or("");
        let rest: Vec<&str> = words.collect();
        let res = std::panic::catch_unwind(|| match kind {
            "xread" => xread::handle(&rest),
            "xrun" => xrun::handle(&rest),
            "find" => findrun::handle(&rest),
            "glob" => globrun::handle(&rest),
            "rxwrap" => globrun::handle_rxwrap(&rest),
            "rxrefs" => globrun::handle_rxrefs(&rest),
            "rxclasses" => globrun::handle_rxclasses(&rest),
            "rxintervals" => globrun::handle_rxintervals(&rest),
            "oracle" => oracle::handle(&rest),
            "paths" => pathrun::handle(&rest),
            _ => "badcase".to_string(),
        });
        let res = res.unwrap_or_else(|_| "panic".to_string());
        writeln!(out, "{res}").unwrap();
    }
}
