//! `glob PATTERN CASELESS SUBJECTS`: glob_to_regex text and Pattern::matches for each subject
//! (comma-separated hex).  Result: "<regex hex|none> <bits>" with one 0/1 per subject.
use crate::util::{hex, unhex};
use findutils::find::matchers::glob_verif;

pub fn handle(words: &[&str]) -> String {
    let [pat, caseless, subjects] = words else {
        return "badcase".into();
    };
    let Ok(p) = String::from_utf8(unhex(pat)) else {
        return "badutf8".into();
    };
    let re = match glob_verif::glob_to_regex(&p) {
        Some(r) => hex(r.as_bytes()),
        None => "none".into(),
    };
    let mut bits = String::new();
    for s in crate::xrun::list(subjects) {
        let Ok(s) = String::from_utf8(s) else {
            bits.push('?');
            continue;
        };
        bits.push(if glob_verif::matches(&p, *caseless == "1", &s) { '1' } else { '0' });
    }
    format!("{re} {bits}")
}

/// `rxintervals REGEXTYPE PATTERN`: the -regex interval check (1: bounds valid, intervals where the syntax allows them)
pub fn handle_rxintervals(words: &[&str]) -> String {
    let [ty, pat] = words else {
        return "badcase".into();
    };
    let Ok(p) = String::from_utf8(unhex(pat)) else {
        return "badutf8".into();
    };
    match findutils::find::matchers::regex_verif::intervals_ok(&p, ty) {
        Some(true) => "1".into(),
        Some(false) => "0".into(),
        None => "badcase".into(),
    }
}

/// `rxclasses REGEXTYPE PATTERN`: the -regex bracket-expression check (1: closed, classes and symbols well-formed)
pub fn handle_rxclasses(words: &[&str]) -> String {
    let [ty, pat] = words else {
        return "badcase".into();
    };
    let Ok(p) = String::from_utf8(unhex(pat)) else {
        return "badutf8".into();
    };
    match findutils::find::matchers::regex_verif::classes_ok(&p, ty) {
        Some(true) => "1".into(),
        Some(false) => "0".into(),
        None => "badcase".into(),
    }
}

/// `rxrefs REGEXTYPE PATTERN`: the -regex back-reference check (1: every reference is to a complete group)
pub fn handle_rxrefs(words: &[&str]) -> String {
    let [ty, pat] = words else {
        return "badcase".into();
    };
    let Ok(p) = String::from_utf8(unhex(pat)) else {
        return "badutf8".into();
    };
    match findutils::find::matchers::regex_verif::back_references_ok(&p, ty) {
        Some(true) => "1".into(),
        Some(false) => "0".into(),
        None => "badcase".into(),
    }
}

/// `rxwrap REGEXTYPE PATTERN`: the -regex wrapper's inside_group (hex of the result)
pub fn handle_rxwrap(words: &[&str]) -> String {
    let [ty, pat] = words else {
        return "badcase".into();
    };
    let Ok(p) = String::from_utf8(unhex(pat)) else {
        return "badutf8".into();
    };
    match findutils::find::matchers::regex_verif::inside_group(&p, ty) {
        Some(t) => hex(t.as_bytes()),
        None => "badcase".into(),
    }
}
