//! `xrun OPTS CMD INPUT OUTCOMES`: xargs_main in-process with the recorder executor installed.
//! OPTS/CMD: "~" or comma-separated hex strings; INPUT: hex bytes written to a scratch file given
//! with -a; OUTCOMES: "~" or comma list of e<code> | s<signal> | nf | cr.
//! Result: "<exit> <argv> <argv> ..." with argv = comma-separated hex of the recorded arguments.
use crate::util::{hex, unhex};
use findutils::xargs::verif::set_executor;
use std::cell::RefCell;
use std::ffi::OsString;
use std::io;
use std::os::unix::ffi::{OsStrExt, OsStringExt};
use std::os::unix::process::ExitStatusExt;
use std::process::ExitStatus;
use std::rc::Rc;

pub fn list(s: &str) -> Vec<Vec<u8>> {
    if s == "~" {
        vec![]
    } else {
        s.split(',').map(unhex).collect()
    }
}

pub fn scratch(name: &str) -> std::path::PathBuf {
    let dir = std::env::var("FUV_TMP").unwrap_or_else(|_| "/tmp".into());
    std::path::Path::new(&dir).join(format!("{}-{}", name, std::process::id()))
}

pub fn handle(words: &[&str]) -> String {
    let [opts, cmd, input, outcomes] = words else {
        return "badcase".into();
    };
    let file = scratch("xin");
    std::fs::write(&file, unhex(input)).unwrap();
    let mut argv: Vec<String> = vec!["xargs".into(), "-a".into(), file.to_str().unwrap().into()];
    for o in list(opts) {
        argv.push(String::from_utf8(o).unwrap());
    }
    for c in list(cmd) {
        argv.push(String::from_utf8(c).unwrap());
    }
    let script: Vec<String> = if *outcomes == "~" {
        vec![]
    } else {
        outcomes.split(',').map(str::to_string).collect()
    };
    let log: Rc<RefCell<Vec<Vec<OsString>>>> = Rc::new(RefCell::new(vec![]));
    let log2 = log.clone();
    set_executor(Some(Box::new(move |args: &[OsString]| -> io::Result<ExitStatus> {
        let i = log2.borrow().len();
        log2.borrow_mut().push(args.to_vec());
        let o = script.get(i).map(String::as_str).unwrap_or("e0");
        match o {
            "nf" => Err(io::Error::from(io::ErrorKind::NotFound)),
            "cr" => Err(io::Error::from(io::ErrorKind::PermissionDenied)),
            _ if o.starts_with('s') => Ok(ExitStatus::from_raw(o[1..].parse::<i32>().unwrap())),
            _ => Ok(ExitStatus::from_raw(o[1..].parse::<i32>().unwrap() << 8)),
        }
    })));
    let refs: Vec<&str> = argv.iter().map(String::as_str).collect();
    let code = std::panic::catch_unwind(|| findutils::xargs::xargs_main(&refs));
    set_executor(None);
    let _ = std::fs::remove_file(&file);
    let mut out = match code {
        Ok(c) => c.to_string(),
        Err(_) => "panic".to_string(),
    };
    for inv in log.borrow().iter() {
        out.push(' ');
        let parts: Vec<String> = inv.iter().map(|a| hex(a.as_bytes())).collect();
        out.push_str(&parts.join(","));
    }
    let _ = OsString::from_vec(vec![]);
    out
}
