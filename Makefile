# /verif: build everything the checks need, offline, from files on disk.
.PHONY: setup coq model harness clean
setup: coq model harness
coq:
	tools/mkcoq.sh
	$(MAKE) -C coq -j16
model: coq
	ocaml/build.sh
harness:
	python3 -c "import sys; sys.path.insert(0,'.'); from lib import framework as fw; ok,out=fw.build_harness({}); print(out[-3000:]); sys.exit(0 if ok else 1)"
clean:
	rm -rf build; $(MAKE) -C coq clean || true
