#!/usr/bin/env python3
"""./check.py <PROPERTY> [--tier quick|thorough] [--replay FILE]   (see DESIGN.md section 3.2)"""
import argparse
import importlib
import json
import os
import sys
import traceback

sys.path.insert(0, os.path.dirname(os.path.abspath(__file__)))
from lib import framework as fw


def main():
    ap = argparse.ArgumentParser()
    ap.add_argument("pid")
    ap.add_argument("--tier", default=os.environ.get("VERIF_TIER", "quick"), choices=["quick", "thorough"])
    ap.add_argument("--replay")
    a = ap.parse_args()
    pid = a.pid.upper()
    seed = int(os.environ.get("VERIF_SEED", "1"))
    ctx = fw.Ctx(pid, a.tier, seed)
    mod = importlib.import_module("props." + pid.lower())
    # tables regenerated from the source, then the proofs re-checked against them
    if hasattr(mod, "TABLES") or True:
        from tools import extract_tables
        extract_tables.regenerate(ctx)
    fw.coq_obligations(ctx)
    if ctx.proof_errors:
        # an obligation broke; if a regenerated table caused it, search for a failing input with the
        # model built from the committed (proved) tables, so that model = spec in the comparison below
        gen = os.path.join(fw.COQ, "Generated", "Tables.v")
        com = os.path.join(fw.COQ, "Generated", "Tables.committed")
        if os.path.exists(com) and open(gen).read() != open(com).read():
            ctx.notes.append("regenerated tables differ from the committed ones: " + extract_tables.diff_tables(gen, com))
            open(gen, "w").write(open(com).read())
    ok, out = fw.build_model(ctx.log)
    if not ok:
        ctx.proof_errors.append("model extraction/build failed: " + out[-500:])
    ok, out = fw.build_harness(ctx.log)
    if not ok:
        # the tree does not build: nothing can be said about it
        sys.stderr.write(out[-3000:])
        ctx.proof_errors.append("cargo build of /repo failed")
        return fw.finish(ctx, "build failed", [], None)
    try:
        if a.replay:
            rep = json.load(open(a.replay))
            mod.replay(ctx, rep)
        else:
            mod.run(ctx)
    except Exception:
        traceback.print_exc()
        ctx.proof_errors.append("checker crashed: " + traceback.format_exc()[-400:])
    return fw.finish(ctx, getattr(mod, "RULE", ""), getattr(mod, "ASSUMPTIONS", []))


if __name__ == "__main__":
    sys.exit(main())
