(* C03 - find visit order: pre/post-order (-depth); -prune cuts exactly one subtree. *)
Require Import Walk WalkPre WalkSpec WalkDefer.
From Coq Require Import List Arith Bool.
Import ListNotations.

(* default order: a directory is reported, then (unless pruned or at maxdepth) its children in
   the order given, each with its whole subtree ([pre] is that recursion) *)
Theorem C03_preorder : forall c P n, post c = false -> walk c P n = pre c P [] 0 n.
Proof. exact walk_pre. Qed.
Print Assumptions C03_preorder.

(* -depth / -delete: children first, then the directory; the prune verdict does not occur in [posto].  The order is
   produced by process_dir itself: walkdir reports in pre-order and directories wait until the walk leaves them
   ([defer], Proofs/WalkDefer.v: defer_subtree) *)
Theorem C03_postorder : forall c P n, post c = true -> walk c P n = posto c [] 0 n.
Proof. exact walk_post. Qed.
Print Assumptions C03_postorder.

(* -prune removes exactly the entries strictly below a pruned in-range directory; siblings and
   every other subtree are reported exactly as without -prune, in the same order *)
Theorem C03_prune_exact : forall c P n, post c = false ->
  walk c P n = filter (fun e => negb (anc_pruned c P (ev_path e))) (walk c noP n).
Proof. exact walk_prune_exact. Qed.
Print Assumptions C03_prune_exact.

(* under -depth, -prune changes nothing *)
Theorem C03_prune_noop_under_depth : forall c P n, post c = true -> walk c P n = walk c noP n.
Proof. exact walk_prune_noop_under_depth. Qed.
Print Assumptions C03_prune_noop_under_depth.

(* the pinned code violated this: it ran walkdir with contents_first, and skip_current_dir after a deferred directory
   popped the parent's list (kept as a regression witness: the iterator in that mode with fixed := false on
   r/{p/{a/x, b/y, c/z}, q}) *)
Example C03_pinned_defect_witness :
  let t := Dir [(1, Dir [(11, Dir [(111,Leaf)]); (12, Dir [(121,Leaf)]); (13, Dir [(131,Leaf)])]); (2, Leaf)] in
  let pruneB := fun (rp : rpath) (_ : nat) => match rp with 12 :: _ => true | _ => false end in
  let c := {| mind := 0; maxd := 100; post := true |} in
  run c pruneB false 100 (init t) <> posto c [] 0 t /\ walk c pruneB t = posto c [] 0 t.
Proof. vm_compute. split; [discriminate|reflexivity]. Qed.

Example C03_witness :
  let t := Dir [(1, Dir [(11, Dir [(111,Leaf)]); (12, Dir [(121,Leaf)])]); (2, Leaf)] in
  let pruneB := fun (rp : rpath) (_ : nat) => match rp with 11 :: _ => true | _ => false end in
  walk {| mind := 0; maxd := 100; post := false |} pruneB t =
  [Ent [] 0 true; Ent [1] 1 true; Ent [11; 1] 2 true; Ent [12; 1] 2 true; Ent [121; 12; 1] 3 false; Ent [2] 1 false].
Proof. vm_compute. reflexivity. Qed.
