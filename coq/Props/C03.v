(* C03 - find visit order: pre/post-order (-depth); -prune cuts exactly one subtree. *)
Require Import Walk WalkPre WalkSpec WalkDefer SortOrder SortOrderProofs.
From Coq Require Import List Arith Bool Sorting.Permutation.
Import ListNotations.

(* default order: a directory is reported, then (unless pruned or at maxdepth) its children in
   the order given, each with its whole subtree ([pre] is that recursion) *)
Theorem C03_preorder : forall c P n, post c = false -> walk c P n = pre c P [] 0 n.
Proof. exact walk_pre. Qed.
Print Assumptions C03_preorder.

(* -depth / -delete: children first, then the directory; the prune verdict does not occur in [posto].  The order is
   produced by process_dir itself: walkdir reports in pre-order and directories wait until the walk leaves them
   ([defer], Proofs/WalkDefer.v: defer_subtree) *)
Theorem C03_postorder : forall c P n, post c = true -> walk c P n = posto c [] 0 n.
Proof. exact walk_post. Qed.
Print Assumptions C03_postorder.

(* -prune removes exactly the entries strictly below a pruned in-range directory; siblings and
   every other subtree are reported exactly as without -prune, in the same order *)
Theorem C03_prune_exact : forall c P n, post c = false ->
  walk c P n = filter (fun e => negb (anc_pruned c P (ev_path e))) (walk c noP n).
Proof. exact walk_prune_exact. Qed.
Print Assumptions C03_prune_exact.

(* under -depth, -prune changes nothing *)
Theorem C03_prune_noop_under_depth : forall c P n, post c = true -> walk c P n = walk c noP n.
Proof. exact walk_prune_noop_under_depth. Qed.
Print Assumptions C03_prune_noop_under_depth.

(* -sorted: "siblings are evaluated in byte-wise name order, so the complete visit sequence is a deterministic function of the
   tree".  [sort_names] (Model/SortOrder.v) is the order -sorted puts the children of one directory in before the walk above
   goes through them: the same children, each name byte-wise below or equal to every later one ... *)
Theorem C03_sorted_order : forall (A : Type) (l : list (bname * A)),
  Permutation l (sort_names l) /\ ordered (sort_names l).
Proof. intros A l. split; [apply sort_perm|apply sort_ordered]. Qed.
Print Assumptions C03_sorted_order.

(* ... where byte-wise means: a proper prefix first, otherwise decided by the first byte that differs *)
Theorem C03_byte_order : forall p x y s t, ble p (p ++ t) /\
  (x < y -> ble (p ++ x :: s) (p ++ y :: t) /\ ~ ble (p ++ y :: t) (p ++ x :: s)).
Proof. intros p x y s t. split; [apply ble_prefix|apply ble_first_diff]. Qed.
Print Assumptions C03_byte_order.

(* ... and the order in which the directory happened to list its (distinctly named) entries does not matter *)
Theorem C03_sorted_deterministic : forall (A : Type) (l1 l2 : list (bname * A)),
  NoDup (map fst l1) -> Permutation l1 l2 -> sort_names l1 = sort_names l2.
Proof. intros A. exact sort_deterministic. Qed.
Print Assumptions C03_sorted_deterministic.

Example C03_sorted_witness :   (* "b", "a.b", "a", "B", "a-", "é" (c3 a9), "ab" *)
  map fst (sort_names [([98], 1); ([97; 46; 98], 2); ([97], 3); ([66], 4); ([97; 45], 5); ([195; 169], 6); ([97; 98], 7)]) =
  [[66]; [97]; [97; 45]; [97; 46; 98]; [97; 98]; [98]; [195; 169]].
Proof. vm_compute. reflexivity. Qed.

(* the pinned code violated this: it ran walkdir with contents_first, and skip_current_dir after a deferred directory
   popped the parent's list (kept as a regression witness: the iterator in that mode with fixed := false on
   r/{p/{a/x, b/y, c/z}, q}) *)
Example C03_pinned_defect_witness :
  let t := Dir [(1, Dir [(11, Dir [(111,Leaf)]); (12, Dir [(121,Leaf)]); (13, Dir [(131,Leaf)])]); (2, Leaf)] in
  let pruneB := fun (rp : rpath) (_ : nat) => match rp with 12 :: _ => true | _ => false end in
  let c := {| mind := 0; maxd := 100; post := true |} in
  run c pruneB false 100 (init t) <> posto c [] 0 t /\ walk c pruneB t = posto c [] 0 t.
Proof. vm_compute. split; [discriminate|reflexivity]. Qed.

Example C03_witness :
  let t := Dir [(1, Dir [(11, Dir [(111,Leaf)]); (12, Dir [(121,Leaf)])]); (2, Leaf)] in
  let pruneB := fun (rp : rpath) (_ : nat) => match rp with 11 :: _ => true | _ => false end in
  walk {| mind := 0; maxd := 100; post := false |} pruneB t =
  [Ent [] 0 true; Ent [1] 1 true; Ent [11; 1] 2 true; Ent [12; 1] 2 true; Ent [121; 12; 1] 3 false; Ent [2] 1 false].
Proof. vm_compute. reflexivity. Qed.
