(* C09 - find -exec ... ;: one run per file, {} substituted, argv intact, true iff 0. *)
Require Import PathModel ExecSingle SubstProofs.
From Coq Require Import List Arith Bool.
Import ListNotations.

(* split("{}") at parse time + join(path) per file = textual substitution of every occurrence *)
Theorem C09_subst : forall tmpl path, render tmpl path = subst path tmpl.
Proof. exact render_is_subst. Qed.
Print Assumptions C09_subst.

(* one argv element per template, whatever the path contains: no word splitting *)
Theorem C09_argv_shape : forall execdir exe tmpls path,
  length (exec_argv execdir exe tmpls path) = S (length tmpls).
Proof. intros. unfold exec_argv. cbn [length]. now rewrite map_length. Qed.
Print Assumptions C09_argv_shape.

(* a template without "{}" is passed unchanged *)
Theorem C09_literal_unchanged : forall tmpl path, subst_free tmpl = true -> render tmpl path = tmpl.
Proof. exact render_literal. Qed.
Print Assumptions C09_literal_unchanged.

Example C09_witness :
  (* template "x{}y{}{" with the path "a b" ; -execdir on "d/e f" *)
  render [120; 123; 125; 121; 123; 125; 123] [97; 32; 98] = [120; 97; 32; 98; 121; 97; 32; 98; 123] /\
  exec_path true [100; 47; 101; 32; 102] = [46; 47; 101; 32; 102] /\ exec_cwd true [100; 47; 101; 32; 102] = Some [100] /\
  exec_cwd true [102] = None /\
  (* a/.. : named ./.. from the directory a ; / : run from / and named / *)
  exec_path true [97; 47; 46; 46] = [46; 47; 46; 46] /\ exec_cwd true [97; 47; 46; 46] = Some [97] /\
  exec_path true [47] = [47] /\ exec_cwd true [47] = Some [47].
Proof. vm_compute. repeat split. Qed.
