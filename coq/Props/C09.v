(* C09 - find -exec ... ;: one run per file, {} substituted, argv intact, true iff 0. *)
Require Import PathModel Paths PathsProofs PrintfValue PrintfValueProofs ExecSingle SubstProofs.
From Coq Require Import List Arith Bool.
Import ListNotations.

(* split("{}") at parse time + join(path) per file = textual substitution of every occurrence *)
Theorem C09_subst : forall tmpl path, render tmpl path = subst path tmpl.
Proof. exact render_is_subst. Qed.
Print Assumptions C09_subst.

(* one argv element per template, whatever the path contains: no word splitting *)
Theorem C09_argv_shape : forall execdir exe tmpls path,
  length (exec_argv execdir exe tmpls path) = S (length tmpls).
Proof. intros. unfold exec_argv. now rewrite map_length. Qed.
Print Assumptions C09_argv_shape.

(* the command word is treated like the arguments: every {} in it is replaced too *)
Theorem C09_command_word : forall execdir exe tmpls path,
  hd [] (exec_argv execdir exe tmpls path) = subst (exec_path execdir path) exe.
Proof. intros. unfold exec_argv. cbn [map hd]. apply render_is_subst. Qed.
Print Assumptions C09_command_word.

(* -execdir: the name handed over is "./" and what %f prints, the directory is what %h prints ("/" for a path directly under the
   root, no change of directory when there is no directory part) - so directory, "/", name recompose the path as spelled
   (C16_h_f_recompose), whatever "." or ".." it ends in *)
Theorem C09_execdir_split : forall path, trim_end_sl path <> [] ->
  exec_path true path = PathModel.DOT :: PathModel.SL :: pv_f path /\
  match exec_cwd true path with
  | None => pv_h path = [PathModel.DOT] /\ ~ In PathModel.SL (trim_end_sl path)
  | Some d => In PathModel.SL (trim_end_sl path) /\ (d = pv_h path \/ (d = [PathModel.SL] /\ pv_h path = []))
  end.
Proof.
  intros path H. unfold exec_path, exec_cwd, pv_f, pv_h, name_subject.
  pose proof (PrintfValueProofs.h_f_recompose path H) as R. unfold pv_h, pv_f, name_subject in R.
  destruct (trim_end_sl path) as [|c t] eqn:E; [congruence|]. split; [reflexivity|].
  pose proof (PrintfValueProofs.dir_last_seg (c :: t) [] [] None eq_refl) as D. unfold PrintfValueProofs.split_inv in D. cbn [app] in D.
  destruct (dir_seg (c :: t) [] None) as [d|].
  - destruct R as [[_ Hin]|[Hdot [_ Hno]]]; [|exfalso].
    + destruct d; (split; [exact Hin|]); [right; split; reflexivity|left; reflexivity].
    + (* with a directory part there is a slash *)
      apply Hno. rewrite D. apply in_or_app. right. now left.
  - destruct R as [[_ Hin]|[Hdot [_ Hno]]]; [exfalso|split; [reflexivity|exact Hno]].
    rewrite D in Hin. revert Hin. apply PathsProofs.last_seg_no_sl. intros [].
Qed.
Print Assumptions C09_execdir_split.

(* a template without "{}" is passed unchanged *)
Theorem C09_literal_unchanged : forall tmpl path, subst_free tmpl = true -> render tmpl path = tmpl.
Proof. exact render_literal. Qed.
Print Assumptions C09_literal_unchanged.

Example C09_witness :
  (* template "x{}y{}{" with the path "a b" ; -execdir on "d/e f" *)
  render [120; 123; 125; 121; 123; 125; 123] [97; 32; 98] = [120; 97; 32; 98; 121; 97; 32; 98; 123] /\
  exec_path true [100; 47; 101; 32; 102] = [46; 47; 101; 32; 102] /\ exec_cwd true [100; 47; 101; 32; 102] = Some [100] /\
  exec_cwd true [102] = None /\
  (* a/.. : named ./.. from the directory a ; / : run from / and named / *)
  exec_path true [97; 47; 46; 46] = [46; 47; 46; 46] /\ exec_cwd true [97; 47; 46; 46] = Some [97] /\
  exec_path true [47] = [47] /\ exec_cwd true [47] = Some [47].
Proof. vm_compute. repeat split. Qed.
