(* C07 - find -print0 paths are byte-exact and survive the pipe into xargs -0. *)
Require Import PathModel Paths PathsProofs XRead XReadSpec PrintPipe PipeE2E.
From Coq Require Import List Arith Bool.
Import ListNotations.

(* the printed path: the starting point as given, then the names below it joined by one '/'
   (none added after a starting point that already ends in '/'), nothing escaped or normalised *)
Theorem C07_path_shape : forall names root, root <> [] -> Forall plainname names -> names <> [] ->
  entry_path root names = root ++ sep_after root ++ slash_join names.
Proof. exact entry_path_shape. Qed.
Print Assumptions C07_path_shape.

(* -print0 | xargs -0 (and -print | xargs -d '\n' for newline-free names): every path is read back
   as exactly one argument, byte for byte, in order, for every chunking of the pipe *)
Theorem C07_roundtrip : forall d ps chunks, Forall (good d) ps ->
  concat chunks = concat (map (print_with d) ps) -> bd_read d chunks = ps.
Proof. exact print_read_roundtrip. Qed.
Print Assumptions C07_roundtrip.

(* the two together, "find ... -print0 | xargs -0 CMD delivers every matched path to CMD exactly once": for starting points and names
   that are not empty and hold neither '/' (names only) nor the terminator (NUL; or newline, for -print | xargs -d '\n'), what the
   reader returns is the list of the matched paths - one argument per entry, as spelled, in order, for every chunking of the pipe *)
Theorem C07_pipeline : forall d (entries : list (list nat * list (list nat))) chunks, d <> SL ->
  Forall (fun e => good d (fst e) /\ Forall plainname (snd e) /\ Forall (fun n => ~ In d n) (snd e)) entries ->
  concat chunks = concat (map (fun e => print_with d (entry_path (fst e) (snd e))) entries) ->
  bd_read d chunks = map (fun e => entry_path (fst e) (snd e)) entries.
Proof. exact pipeline_exact. Qed.
Print Assumptions C07_pipeline.

(* delivery to the command exactly once is C04_batching's [concat bs = args] applied to these arguments *)

Example C07_witness :
  let root := [100; 47] in                                   (* "d/" *)
  let names := [[32; 32]; [45; 110; 10; 39]] in              (* "  " and "-n\n'" *)
  entry_path root names = [100; 47; 32; 32; 47; 45; 110; 10; 39] /\
  bd_read 0 [[100; 47; 32]; [32; 0; 100; 47; 32; 32; 47; 45; 110; 10; 39; 0]] = [[100; 47; 32; 32]; [100; 47; 32; 32; 47; 45; 110; 10; 39]].
Proof. vm_compute. split; reflexivity. Qed.
