(* C12 - find -name/-path/-lname (and -i forms) equal POSIX fnmatch on the whole string.
   A translated glob is a sequence of one-character tests and ".*" ([re]).  [bt] is what the
   regular-expression engine does (backtracking from position 0, ".*" greedy, first success
   wins) and [is_match] what Regex::is_match reports (the match found must span the whole string);
   [fn] is fnmatch on that sequence: does SOME way of matching the whole string exist. *)
Require Import GlobEngine GlobBT GlobNFA Glob GlobSpec GlobParse PathModel Paths PathsProofs Tables TablesOk.
From Coq Require Import List Arith Bool.
Import ListNotations.

(* engine half.  Since 7a55db0 a glob is matched piece by piece over the set of positions the pieces so far can reach
   ([nfa], no backtracking): that decides whole-string fnmatch for every sequence of tests and every subject (no bound on
   lengths or on the number of stars). *)
Theorem C12_engine_is_fnmatch : forall r s, nfa r s = fn r s.
Proof. exact nfa_fnmatch. Qed.
Print Assumptions C12_engine_is_fnmatch.

(* the engine of the pinned code - one regular expression for the whole glob, Oniguruma-style backtracking from position 0,
   first success wins, then the full-length test - decides the same, as long as the search is allowed to finish; the real
   engine gave up after 10^7 backtracking steps and Regex::is_match turned that into a panic (find . -name '*a*a*a*a*a*a*b'
   on a 60-character name), which is why the matcher was replaced *)
Theorem C12_backtracking_engine_complete : forall r s, is_match r s = fn r s.
Proof. exact is_match_fnmatch. Qed.
Print Assumptions C12_backtracking_engine_complete.

(* always the entire string, never a substring: a trailing or leading remainder is a mismatch *)
Theorem C12_whole_string : forall f c s, nfa [RSingle f] (c :: s) = f c && match s with [] => true | _ => false end.
Proof.
  intros f c s. rewrite nfa_fnmatch. cbn. destruct s; reflexivity.
Qed.
Print Assumptions C12_whole_string.

(* parser half: a glob is a sequence of ordinary characters, escaped characters, "?", "*" and bracket
   expressions (items: characters, ranges lo-hi, named classes; optionally negated with "!").  [show] is its
   spelling, [sem] its meaning, [wf_item] what "well-formed" means (Spec/GlobSpec.v).  For every such glob
   and every subject, the text pipeline of glob.rs (glob_to_regex, extract_bracket_expr, regex_push_literal)
   followed by the engine's reading of the regex text answers exactly fnmatch of the meaning. *)
Theorem C12_regex_text : forall g, forallb wf_item g = true ->
  glob_to_regex (S (length (show g))) (show g) [] = GText (tr g).
Proof. exact glob_to_regex_text. Qed.
Print Assumptions C12_regex_text.

Theorem C12_regex_reading : forall g ci, forallb wf_item g = true ->
  parse_bre (S (length (tr g))) ci (tr g) = Some (sem ci g).
Proof. exact parse_bre_meaning. Qed.
Print Assumptions C12_regex_reading.

Theorem C12_glob_is_fnmatch : forall g ci s, forallb wf_item g = true ->
  glob_match ci (show g) s = if fn (sem ci g) s then 1 else 0.
Proof. exact glob_match_is_fnmatch. Qed.
Print Assumptions C12_glob_is_fnmatch.

(* the two irregular endings: an unescaped final backslash matches nothing; a final "[" stands for itself *)
Theorem C12_trailing_backslash : forall g ci s, forallb wf_item g = true -> glob_match ci (show g ++ [ch_bs]) s = 0.
Proof. exact trailing_backslash_never. Qed.
Print Assumptions C12_trailing_backslash.

Theorem C12_lone_bracket : forall g ci s, forallb wf_item g = true ->
  glob_match ci (show g ++ [ch_lb]) s = if fn (sem ci g ++ [RSingle (ci_eq ci ch_lb)]) s then 1 else 0.
Proof. exact lone_bracket_literal. Qed.
Print Assumptions C12_lone_bracket.

(* the hypotheses are satisfiable: a[!b-d[:upper:]]*\?  is well-formed and spelled as expected *)
Example C12_wf_witness :
  let g := [GLit 97; GBr true [BRange 98 100; BClass 3]; GStar; GEsc 63] in
  forallb wf_item g = true /\
  show g = [97; 91; 33; 98; 45; 100; 91; 58; 117; 112; 112; 101; 114; 58; 93; 93; 42; 92; 63] /\
  fn (sem false g) [97; 120; 121; 63] = true /\ fn (sem false g) [97; 99; 63] = false /\ fn (sem false g) [97; 88; 63] = false.
Proof. vm_compute. repeat split. Qed.

(* "]" first and "-" last (or first) are members: []a-] , [!]] , [-] , [a-] are within the theorem *)
Example C12_wf_rb_minus :
  let g := [GBr false [BChar 93; BChar 97; BChar 45]; GBr true [BChar 93]; GBr false [BChar 45]; GBr false [BRange 97 99; BChar 45]] in
  forallb wf_item g = true /\
  show g = [91; 93; 97; 45; 93;  91; 33; 93; 93;  91; 45; 93;  91; 97; 45; 99; 45; 93] /\
  fn (sem false g) [93; 120; 45; 45] = true /\ fn (sem false g) [97; 93; 45; 98] = false /\ fn (sem false g) [45; 97; 45; 98] = true.
Proof. vm_compute. repeat split. Qed.

(* a leading ^ negates exactly as ! does (POSIX leaves it unspecified; every fnmatch in use reads it so), also before "]" *)
Theorem C12_caret_negates : forall s, extract_bracket (ch_caret :: s) = extract_bracket (ch_bang :: s).
Proof. reflexivity. Qed.
Print Assumptions C12_caret_negates.

(* outside the well-formed fragment ("]" or "-" as a member elsewhere than first / last, an unclosed bracket in the middle,
   collating symbols): the executable model is validated against the implementation and against glibc fnmatch on every run *)
Example C12_witness :
  (* "a[!b-d]*\\?" on "axyz?" and on "ac?" ; "[[:digit:]]" ; stray "[" ; trailing backslash ; -iname *)
  glob_match false [97; 91; 33; 98; 45; 100; 93; 42; 92; 63] [97; 120; 121; 122; 63] = 1 /\
  glob_match false [97; 91; 33; 98; 45; 100; 93; 42; 92; 63] [97; 99; 63] = 0 /\
  glob_match false [91; 91; 58; 100; 105; 103; 105; 116; 58; 93; 93] [55] = 1 /\
  glob_match false [97; 91; 98] [97; 91; 98] = 1 /\
  glob_match false [97; 92] [97; 92] = 0 /\
  glob_match true [70; 111; 42] [102; 79; 79] = 1 /\
  glob_text [94; 102; 46; 36] = Some (Some [92; 94; 102; 92; 46; 92; 36]) /\
  (* [[:digit:]] is 0-9 (not U+0663) ; [[:punct:]] has "$" ; [^]a] on "b" and on "]" ; the ill-formed [[:]x] is "[" then [:]x] *)
  glob_match false [91; 91; 58; 100; 105; 103; 105; 116; 58; 93; 93] [1635] = 0 /\
  glob_match false [91; 91; 58; 112; 117; 110; 99; 116; 58; 93; 93] [36] = 1 /\
  glob_match false [91; 94; 93; 97; 93] [98] = 1 /\ glob_match false [91; 94; 93; 97; 93] [93] = 0 /\
  glob_match false [91; 91; 58; 93; 120; 93] [91; 58; 120; 93] = 1 /\ glob_match false [91; 91; 58; 93; 120; 93] [58; 120; 93] = 0 /\
  (* [[:word:]] is not a POSIX class: "[" is literal there *)
  glob_match false [91; 91; 58; 119; 111; 114; 100; 58; 93; 93] [119] = 0.
Proof. vm_compute. repeat split. Qed.

(* subject selection for -name/-iname (name.rs): the last component of the path as spelled.  Below a starting
   point that is the entry's own name; trailing slashes are ignored; the subject never contains a slash except
   that it is "/" for the root directory.  -path uses the whole path (C18 fixes its spelling) and -lname the
   link text where the link itself is the entry (C13_lname_only_unresolved). *)
Theorem C12_name_subject_below : forall base n, PathsProofs.plainname n -> Paths.name_subject (base ++ PathModel.SL :: n) = n.
Proof. exact PathsProofs.name_subject_below. Qed.
Print Assumptions C12_name_subject_below.

Theorem C12_name_subject_no_slash : forall p, Paths.name_subject p = [PathModel.SL] \/ ~ In PathModel.SL (Paths.name_subject p).
Proof. exact PathsProofs.name_subject_no_slash. Qed.
Print Assumptions C12_name_subject_no_slash.

Theorem C12_name_subject_trailing_slash : forall s, Paths.trim_end_sl s <> [] ->
  Paths.name_subject (s ++ [PathModel.SL]) = Paths.name_subject s.
Proof. exact PathsProofs.name_subject_trailing_slash. Qed.
Print Assumptions C12_name_subject_trailing_slash.

Example C12_name_subject_witness :   (* "./" -> "." ; "d/.." -> ".." ; "//" -> "/" ; "./d/./" -> "." ; "a/bc" -> "bc" *)
  Paths.name_subject [46; 47] = [46] /\ Paths.name_subject [100; 47; 46; 46] = [46; 46] /\ Paths.name_subject [47; 47] = [47] /\
  Paths.name_subject [46; 47; 100; 47; 46; 47] = [46] /\ Paths.name_subject [97; 47; 98; 99] = [98; 99].
Proof. vm_compute. repeat split. Qed.

(* The names the translator accepts between "[:" and ":]" (regenerated from glob.rs on every run) are exactly the twelve POSIX class
   names of the model - and the -regex validator (regex.rs) accepts the same twelve. *)
Theorem C12_class_table : forall name,
  In name Tables.glob_class_names <-> exists k, class_of name class_names = Some k /\ k < 12.
Proof.
  intros name. rewrite TablesOk.glob_classes_ok. split.
  - intros H. cbn [In] in H.
    repeat (destruct H as [<-|H]; [eexists; split; [vm_compute; reflexivity|repeat constructor]|]). contradiction.
  - intros (k & Hc & Hk).
    assert (Heq : forall a b, list_eqb a b = true -> a = b).
    { induction a as [|x a IH]; destruct b as [|y b]; cbn; try discriminate; [reflexivity|].
      intros H. apply Bool.andb_true_iff in H as [H1 H2]. apply Nat.eqb_eq in H1. subst. f_equal. now apply IH. }
    unfold class_names in Hc. cbn [class_of] in Hc.
    repeat match type of Hc with
           | (if list_eqb name ?n then _ else _) = _ =>
               let E := fresh "E" in
               destruct (list_eqb name n) eqn:E;
               [apply Heq in E; subst name; injection Hc as <-;
                first [solve [cbn [In]; repeat ((left; reflexivity) || right)]
                      |exfalso; apply Nat.ltb_lt in Hk; vm_compute in Hk; discriminate]|clear E]
           end.
    discriminate.
Qed.
Print Assumptions C12_class_table.

Theorem C12_regex_classes_the_same : Tables.regex_class_names = Tables.glob_class_names.
Proof. exact TablesOk.regex_classes_ok. Qed.
