(* C12 - find -name/-path/-lname (and -i forms) equal POSIX fnmatch on the whole string.
   A translated glob is a sequence of one-character tests and ".*" ([re]).  [bt] is what the
   regular-expression engine does (backtracking from position 0, ".*" greedy, first success
   wins) and [is_match] what Regex::is_match reports (the match found must span the whole string);
   [fn] is fnmatch on that sequence: does SOME way of matching the whole string exist. *)
Require Import GlobEngine GlobBT Glob.
From Coq Require Import List Arith Bool.
Import ListNotations.

(* engine half: first-match backtracking + full-length test = whole-string fnmatch, for every
   sequence of tests and every subject (no bound on lengths or on the number of stars) *)
Theorem C12_engine_is_fnmatch : forall r s, is_match r s = fn r s.
Proof. exact is_match_fnmatch. Qed.
Print Assumptions C12_engine_is_fnmatch.

(* always the entire string, never a substring: a trailing or leading remainder is a mismatch *)
Theorem C12_whole_string : forall f c s, is_match [RSingle f] (c :: s) = f c && match s with [] => true | _ => false end.
Proof.
  intros f c s. rewrite is_match_fnmatch. cbn. destruct s; reflexivity.
Qed.
Print Assumptions C12_whole_string.

(* parser half (glob text -> regex text -> Oniguruma's reading): executable model validated against the
   implementation and against glibc fnmatch on every run; its proof is not done (see DESIGN.md) *)
Example C12_witness :
  (* "a[!b-d]*\\?" on "axyz?" and on "ac?" ; "[[:digit:]]" ; stray "[" ; trailing backslash ; -iname *)
  glob_match false [97; 91; 33; 98; 45; 100; 93; 42; 92; 63] [97; 120; 121; 122; 63] = 1 /\
  glob_match false [97; 91; 33; 98; 45; 100; 93; 42; 92; 63] [97; 99; 63] = 0 /\
  glob_match false [91; 91; 58; 100; 105; 103; 105; 116; 58; 93; 93] [55] = 1 /\
  glob_match false [97; 91; 98] [97; 91; 98] = 1 /\
  glob_match false [97; 92] [97; 92] = 0 /\
  glob_match true [70; 111; 42] [102; 79; 79] = 1 /\
  glob_text [94; 102; 46; 36] = Some (Some [92; 94; 102; 92; 46; 92; 36]).
Proof. vm_compute. repeat split. Qed.
