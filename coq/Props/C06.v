(* C06 - xargs never builds a command line the operating system rejects. *)
Require Import XArgs XArgsProofs XArgsTop ExecLimits ExecLimitsProofs Batch.
From Coq Require Import List NArith Bool.
Import ListNotations.
Local Open Scope N_scope.

(* every batch the limiter chain admits (C04_batching: all of them satisfy within_limits) is accepted
   by the kernel model, whatever the number and sizes of the arguments, the environment and the
   stack limit - given that sysconf(ARG_MAX) is the kernel's own limit (validated by the prober), that the command's file name
   is within PATH_MAX and, when it is a "#!" script, that what the kernel pushes for it ([sb]: the name once more and the
   interpreter line) is within PATH_MAX + 256 *)
Theorem C06_accepted : forall c b rl env fn sb,
  within_limits c b -> c_sys c = sys_budget (kernel_limit rl) env -> charged c <> [] ->
  Forall (fun len => len + 1 <= MAX_ARG_STRLEN) (env_strings env) ->
  Forall (fun len => len + 1 <= MAX_ARG_STRLEN) (charged c) ->
  fn + 1 <= 4096 -> sb <= 4096 + 256 ->
  kernel_accepts rl {| argv := charged c ++ map alen b; envp := env_strings env; fname := fn; shebang := sb |}.
Proof. exact xargs_batch_accepted. Qed.
Print Assumptions C06_accepted.

(* with -I the line is put into the initial arguments after the limiters were asked; the command line that results is put to
   a fresh system limiter before it is run: one that passes is accepted by the kernel, one that does not ends the run with
   "Argument too large" and status 1 without reaching exec *)
Theorem C06_substituted_accepted : forall c lens rl env fn sb,
  fits_system c lens = true -> c_sys c = sys_budget (kernel_limit rl) env -> lens <> [] ->
  Forall (fun len => len + 1 <= MAX_ARG_STRLEN) (env_strings env) ->
  fn + 1 <= 4096 -> sb <= 4096 + 256 ->
  kernel_accepts rl {| argv := lens; envp := env_strings env; fname := fn; shebang := sb |}.
Proof. exact substituted_accepted. Qed.
Print Assumptions C06_substituted_accepted.

(* -s, with -I, is a limit on the same substituted command line (not on the template plus the line) *)
Theorem C06_substituted_meets_s : forall c lens s, fits_system c lens = true -> c_s c = Some s ->
  fold_right (fun l t => l + 1 + t) 0 lens <= s.
Proof.
  intros c lens s H Hs. unfold fits_system in H. rewrite Hs in H. apply andb_prop in H as [H _]. now apply N.leb_le in H.
Qed.
Print Assumptions C06_substituted_meets_s.

Theorem C06_substituted_too_large : forall c st a b, c_replace c = true ->
  fits_system c (c_subst c (alen a)) = false -> exec c st (a :: b) = inr (1, log st).
Proof. intros c st a b Hr Hf. unfold exec, subst_fits. rewrite Hr, Hf. reflexivity. Qed.
Print Assumptions C06_substituted_too_large.

Theorem C06_substituted_run_fits : forall c st a b st', c_replace c = true ->
  exec c st (a :: b) = inl st' -> fits_system c (c_subst c (alen a)) = true.
Proof.
  intros c st a b st' Hr. unfold exec, subst_fits. rewrite Hr. cbn [andb].
  destruct (fits_system c (c_subst c (alen a))); [reflexivity|discriminate].
Qed.
Print Assumptions C06_substituted_run_fits.

(* an argument beyond the per-argument limit is never handed to exec ... *)
Theorem C06_oversize_never_admitted : forall c b a, within_limits c b -> In a b -> alen a + 1 <= MAX_ARG_STRLEN.
Proof. exact oversize_never_admitted. Qed.
Print Assumptions C06_oversize_never_admitted.

(* ... it ends the run with status 1 (C04_batching's TooLarge case + C04_invocations_are_batches):
   restated here for a single oversize argument *)
Theorem C06_oversize_reported : forall c tmpl a outs,
  charge_init (limiters0 c) (charged c) = Some tmpl -> c_replace c = false ->
  max_single_arg < cost a ->
  fst (xargs_run c [a] false outs) = 1.
Proof. exact oversize_status. Qed.
Print Assumptions C06_oversize_reported.

(* the pinned limiter (no pointer accounting) is refuted: 400 000 one-byte arguments pass its test
   and exceed the kernel's limit for an 8 MiB stack - kept as a regression witness *)
Theorem C06_pinned_refuted : forall n, N.of_nat n = 400000 ->
  let args := repeat 1 n in
  fold_right (fun len s => len + 1 + s) 0 args <= 2097152 - 2048 /\
  ~ (strings args + 8 * N.of_nat (length args) <= kernel_limit 8388608).
Proof. exact pinned_refuted. Qed.
Print Assumptions C06_pinned_refuted.
