(* C02 - find traversal: every in-range entry visited exactly once under -P/-H/-L.
   [walk c P n] (Model/Walk.v) is walkdir's IntoIter stack machine (always run in pre-order, without a depth
   floor) driven by process_dir, which filters -mindepth and produces the -depth order itself, on the
   tree [n] as the follow mode unfolds it (Leaf = non-directory or unfollowed link, Dang = dangling
   link under a follow mode, Bad = unreadable directory or link closing a cycle, Dir = directory
   or followed link to one).  The unfolding itself is the correspondence check's job. *)
Require Import Walk WalkPre WalkSpec WalkDefer.
From Coq Require Import List Arith Bool.
Import ListNotations.

(* Without -prune the walk reports exactly the entries of the complete depth-first listing of the
   tree whose depth lies in [mindepth, maxdepth] - each exactly once, in that order, nothing
   else - and diagnoses (Err) each unreadable entry it reaches without losing a sibling. *)
Theorem C02_every_entry_once : forall c n,
  walk c noP n = filter (keep c) (if post c then nodes_post [] n else nodes [] n).
Proof. exact walk_every_entry_once. Qed.
Print Assumptions C02_every_entry_once.

(* mindepth > maxdepth: nothing at all is evaluated; what cannot be read is still diagnosed *)
Theorem C02_empty_range : forall c P n, maxd c < mind c ->
  Forall (fun e => match e with Err _ => True | _ => False end) (walk c P n).
Proof. exact walk_empty_range. Qed.
Print Assumptions C02_empty_range.

(* the stack machine is the recursive depth-first traversal, for every tree, bound and prune set *)
Theorem C02_walk_is_dfs : forall c P n,
  walk c P n = if post c then posto c [] 0 n else pre c P [] 0 n.
Proof.
  intros c P n. destruct (post c) eqn:E; [exact (walk_post c P n E)|exact (walk_pre c P n E)].
Qed.
Print Assumptions C02_walk_is_dfs.

(* non-vacuity: r/{1/{11, 12->dangling}, 2 (unreadable), 3}, -mindepth 1 -maxdepth 2 *)
Example C02_witness :
  let t := Dir [(1, Dir [(11, Leaf); (12, Dang)]); (2, Bad); (3, Leaf)] in
  let c := {| mind := 1; maxd := 2; post := false |} in
  walk c noP t = [Ent [1] 1 true; Ent [11; 1] 2 false; Ent [12; 1] 2 false; Err [2]; Ent [3] 1 false]
  /\ walk {| mind := 3; maxd := 1; post := false |} noP t = [Err [2]]
  /\ walk {| mind := 1; maxd := 2; post := true |} noP t = [Ent [11; 1] 2 false; Ent [12; 1] 2 false; Ent [1] 1 true; Err [2]; Ent [3] 1 false].
Proof. vm_compute. repeat split; reflexivity. Qed.
