(* C02 - find traversal: every in-range entry visited exactly once under -P/-H/-L.
   [walk c P n] (Model/Walk.v) is walkdir's IntoIter stack machine (always run in pre-order, without a depth
   floor) driven by process_dir, which filters -mindepth and produces the -depth order itself, on the
   tree [n] as the follow mode unfolds it (Leaf = non-directory or unfollowed link, Dang = dangling
   link under a follow mode, Bad = unreadable directory or link closing a cycle, Dir = directory
   or followed link to one).  The unfolding is [WalkGraph.unfold], on the graph of directory identities the
   correspondence check reads off the disk (theorems at the end). *)
Require Import Walk WalkPre WalkSpec WalkDefer WalkGraph WalkGraphProofs.
From Coq Require Import List Arith Bool.
Import ListNotations.

(* Without -prune the walk reports exactly the entries of the complete depth-first listing of the
   tree whose depth lies in [mindepth, maxdepth] - each exactly once, in that order, nothing
   else - and diagnoses (Err) each unreadable entry it reaches without losing a sibling. *)
Theorem C02_every_entry_once : forall c n,
  walk c noP n = filter (keep c) (if post c then nodes_post [] n else nodes [] n).
Proof. exact walk_every_entry_once. Qed.
Print Assumptions C02_every_entry_once.

(* mindepth > maxdepth: nothing at all is evaluated; what cannot be read is still diagnosed *)
Theorem C02_empty_range : forall c P n, maxd c < mind c ->
  Forall (fun e => match e with Err _ => True | _ => False end) (walk c P n).
Proof. exact walk_empty_range. Qed.
Print Assumptions C02_empty_range.

(* the stack machine is the recursive depth-first traversal, for every tree, bound and prune set *)
Theorem C02_walk_is_dfs : forall c P n,
  walk c P n = if post c then posto c [] 0 n else pre c P [] 0 n.
Proof.
  intros c P n. destruct (post c) eqn:E; [exact (walk_post c P n E)|exact (walk_pre c P n E)].
Qed.
Print Assumptions C02_walk_is_dfs.

(* non-vacuity: r/{1/{11, 12->dangling}, 2 (unreadable), 3}, -mindepth 1 -maxdepth 2 *)
Example C02_witness :
  let t := Dir [(1, Dir [(11, Leaf); (12, Dang)]); (2, Bad); (3, Leaf)] in
  let c := {| mind := 1; maxd := 2; post := false |} in
  walk c noP t = [Ent [1] 1 true; Ent [11; 1] 2 false; Ent [12; 1] 2 false; Err [2]; Ent [3] 1 false]
  /\ walk {| mind := 3; maxd := 1; post := false |} noP t = [Err [2]]
  /\ walk {| mind := 1; maxd := 2; post := true |} noP t = [Ent [11; 1] 2 false; Ent [12; 1] 2 false; Ent [1] 1 true; Err [2]; Ent [3] 1 false].
Proof. vm_compute. repeat split; reflexivity. Qed.

(* ---- the unfolding: what -L, -H and -xdev make of a graph of directory identities ---- *)

(* The stack of (depth, identity) pairs process_dir keeps while the entries go by in pre-order answers,
   for every finite tree of identities, what the recursive definition answers: a directory is refused
   exactly when one of the directories it lies below (and that was entered) has its identity. *)
Theorem C02_ancestor_stack : forall t, anc_run [] (preorder 0 t) = verdicts [] t.
Proof. exact stack_is_ancestors. Qed.
Print Assumptions C02_ancestor_stack.

(* Under -L the walk of any finite graph of directories ends, cycles or not: with more fuel than there
   are directory identities the cut unfolding never runs out (so [walk] has a finite tree to visit). *)
Theorem C02_unfolding_total : forall g xdev rootdev U, closed g U ->
  forall fuel anc top e, NoDup anc -> incl anc U -> ent_in U e -> length U - length anc < fuel ->
  unfold g true xdev rootdev fuel anc top e <> None.
Proof. exact unfold_total. Qed.
Print Assumptions C02_unfolding_total.

(* ... and in it no directory is entered below itself, while every directory refused is one of its own ancestors *)
Theorem C02_no_directory_below_itself : forall g xdev rootdev fuel anc top e t,
  unfold g true xdev rootdev fuel anc top e = Some t -> chain_ok anc t.
Proof. exact unfold_chain_ok. Qed.
Print Assumptions C02_no_directory_below_itself.

(* non-vacuity: r(1) = { a -> 2 }, 2 = { up -> 1 (a cycle), o -> 3 on another device, f }, 3 = { g } *)
Example C02_unfold_witness :
  let g := [(1, Some [(0, GDir 2 0)]); (2, Some [(0, GFile); (1, GDir 3 7); (2, GDir 1 0)]); (3, Some [(0, GFile)])] in
  option_map erase (unfold g true false 0 4 [] true (GDir 1 0))
    = Some (Dir [(0, Dir [(0, Leaf); (1, Dir [(0, Leaf)]); (2, Bad)])])
  /\ option_map erase (unfold g true true 0 4 [] true (GDir 1 0))
    = Some (Dir [(0, Dir [(0, Leaf); (1, Dir []); (2, Bad)])])
  /\ unfold g false false 0 4 [] true (GDir 1 0) = None
  /\ closed g [1; 2; 3]
  /\ anc_run [] (preorder 0 (TD 1 [TD 2 [TL; TD 3 [TL]; TD 1 []]; TD 2 []]))
     = [VEnter; VEnter; VOther; VEnter; VOther; VLoop; VEnter].
Proof.
  cbn zeta. repeat split; try (vm_compute; reflexivity).
  intros id ch H x Hx. cbn in H.
  destruct id as [|[|[|[|id]]]]; cbn in H; injection H as <-; cbn in Hx;
    repeat (destruct Hx as [<-|Hx]; [cbn; auto|]); try contradiction.
Qed.
