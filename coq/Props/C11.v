(* C11 - find command line: malformed input rejected before any action; never a panic.
   [parse_argv valid newer_xy argv] (Model/Args.v) is build_top_level_matcher on the expression part of
   the command line: lexing against the table of primaries regenerated from the source (operand counts,
   kinds), the -exec terminator scan, then the builder of C01.  [valid] is the oracle "this primary
   accepts these operands" (instantiated in the correspondence check by the modelled validators:
   numeric operands, -size units, -type letters, -printf formats, -regextype names; and by the
   harness's knowledge for glob/regex/mode/date/user/file operands).  The model has no panic outcome:
   every function is total; that the implementation never panics is established by the correspondence
   check under catch_unwind on every run, not by these theorems. *)
Require Import Tables TablesOk Expr Expr3 Expr4 Expr5 ExprSide Args ArgsProofs RegexRefs RegexRefsSpec RegexRefsProofs RegexIntervals RegexIntervalsProofs.
From Coq Require Import List Arith Bool NArith.
Import ListNotations.

(* whatever is accepted is lexically valid and a sentence of the expression grammar (or empty / help) *)
Theorem C11_reject_malformed : forall valid newer_xy argv m, parse_argv valid newer_xy argv = Ok m ->
  (exists ts, lex valid newer_xy (S (length argv)) 1 argv = LOk ts /\ (ts = [] \/ exists e, DSeq ts e)) \/
  (exists ts, lex valid newer_xy (S (length argv)) 1 argv = LHelp ts).
Proof. exact accepted_is_sentence. Qed.
Print Assumptions C11_reject_malformed.

(* an unknown primary is rejected *)
Theorem C11_unknown_primary : forall valid newer_xy a rest f pos,
  structural a = false -> lookup a primaries = None -> newer_xy a = false -> lex valid newer_xy (S f) pos (a :: rest) = LErr.
Proof. exact unknown_primary_rejected. Qed.
(* a primary missing an operand is rejected *)
Theorem C11_missing_operand : forall valid newer_xy a rest f pos arity k,
  structural a = false -> lookup a primaries = Some (arity, k) -> length rest < arity -> lex valid newer_xy (S f) pos (a :: rest) = LErr.
Proof. exact missing_operand_rejected. Qed.
(* an invalid operand is rejected *)
Theorem C11_invalid_operand : forall valid newer_xy a rest f pos arity k,
  structural a = false -> lookup a primaries = Some (arity, k) -> valid a (firstn arity rest) = false ->
  lex valid newer_xy (S f) pos (a :: rest) = LErr.
Proof. exact invalid_operand_rejected. Qed.
(* -exec without ';' or '{} +' is rejected *)
Theorem C11_exec_needs_terminator : forall valid newer_xy rest f pos,
  (forall x, In x rest -> str_eqb x s_semi = false) -> (forall x, In x rest -> str_eqb x s_plus = false) ->
  lex valid newer_xy (S f) pos (s_exec :: rest) = LErr.
Proof. exact exec_needs_terminator. Qed.
Print Assumptions C11_exec_needs_terminator.

(* dangling operators, '!' without operand, unbalanced or empty parentheses: rejected by the builder
   (instances of C01_build_sound; the grammar has no sentence of these shapes) *)
Theorem C11_structural_rejections :
  let t := TP {| pid := 1; pk := KTest |} in
  run st0 [t; TAnd] = Error /\ run st0 [TAnd; t] = Error /\ run st0 [t; TOr; TOr; t] = Error /\ run st0 [TNot] = Error /\
  run st0 [t; TNot; TAnd; t] = Error /\ run st0 [TL; t] = Error /\ run st0 [t; TR] = Error /\ run st0 [TL; TR] = Error /\
  run st0 [t; TComma] = Error /\ run st0 [TComma; t] = Error /\ run st0 [t; TAnd; TComma; t] = Error.
Proof. vm_compute. repeat split. Qed.

(* the action primaries (table regenerated from the source: has_side_effects) *)
Theorem C11_action_table :
  map fst (filter (fun p => snd (snd p) =? 1) primaries) =
  [ [45; 100; 101; 108; 101; 116; 101]; [45; 102; 108; 115]; [45; 102; 112; 114; 105; 110; 116]; [45; 102; 112; 114; 105; 110; 116; 48];
    [45; 102; 112; 114; 105; 110; 116; 102]; [45; 108; 115]; [45; 112; 114; 105; 110; 116]; [45; 112; 114; 105; 110; 116; 48];
    [45; 112; 114; 105; 110; 116; 102] ] /\ exec_is_action = true.
Proof. exact action_primaries. Qed.
Print Assumptions C11_action_table.

(* every primary with its operand count and kind, as regenerated from build_matcher_tree on this run *)
Theorem C11_primary_table : primaries = [
  ([45; 97; 109; 105; 110], (1, 0));
  ([45; 97; 116; 105; 109; 101], (1, 0));
  ([45; 99; 109; 105; 110], (1, 0));
  ([45; 99; 116; 105; 109; 101], (1, 0));
  ([45; 100], (0, 0));
  ([45; 100; 97; 121; 115; 116; 97; 114; 116], (0, 0));
  ([45; 100; 101; 108; 101; 116; 101], (0, 1));
  ([45; 100; 101; 112; 116; 104], (0, 0));
  ([45; 101; 109; 112; 116; 121], (0, 0));
  ([45; 101; 120; 101; 99; 117; 116; 97; 98; 108; 101], (0, 0));
  ([45; 102; 97; 108; 115; 101], (0, 0));
  ([45; 102; 105; 108; 101; 115; 48; 45; 102; 114; 111; 109], (1, 0));
  ([45; 102; 108; 115], (1, 1));
  ([45; 102; 111; 108; 108; 111; 119], (0, 0));
  ([45; 102; 112; 114; 105; 110; 116], (1, 1));
  ([45; 102; 112; 114; 105; 110; 116; 48], (1, 1));
  ([45; 102; 112; 114; 105; 110; 116; 102], (2, 1));
  ([45; 102; 115; 116; 121; 112; 101], (1, 0));
  ([45; 103; 105; 100], (1, 0));
  ([45; 103; 114; 111; 117; 112], (1, 0));
  ([45; 105; 103; 110; 111; 114; 101; 95; 114; 101; 97; 100; 100; 105; 114; 95; 114; 97; 99; 101], (0, 0));
  ([45; 105; 108; 110; 97; 109; 101], (1, 0));
  ([45; 105; 110; 97; 109; 101], (1, 0));
  ([45; 105; 110; 117; 109], (1, 0));
  ([45; 105; 112; 97; 116; 104], (1, 0));
  ([45; 105; 114; 101; 103; 101; 120], (1, 0));
  ([45; 105; 119; 104; 111; 108; 101; 110; 97; 109; 101], (1, 0));
  ([45; 108; 105; 110; 107; 115], (1, 0));
  ([45; 108; 110; 97; 109; 101], (1, 0));
  ([45; 108; 115], (0, 1));
  ([45; 109; 97; 120; 100; 101; 112; 116; 104], (1, 0));
  ([45; 109; 105; 110; 100; 101; 112; 116; 104], (1, 0));
  ([45; 109; 109; 105; 110], (1, 0));
  ([45; 109; 111; 117; 110; 116], (0, 0));
  ([45; 109; 116; 105; 109; 101], (1, 0));
  ([45; 110; 97; 109; 101], (1, 0));
  ([45; 110; 101; 119; 101; 114], (1, 0));
  ([45; 110; 111; 103; 114; 111; 117; 112], (0, 0));
  ([45; 110; 111; 105; 103; 110; 111; 114; 101; 95; 114; 101; 97; 100; 100; 105; 114; 95; 114; 97; 99; 101], (0, 0));
  ([45; 110; 111; 108; 101; 97; 102], (0, 0));
  ([45; 110; 111; 117; 115; 101; 114], (0, 0));
  ([45; 110; 111; 119; 97; 114; 110], (0, 0));
  ([45; 112; 97; 116; 104], (1, 0));
  ([45; 112; 101; 114; 109], (1, 0));
  ([45; 112; 114; 105; 110; 116], (0, 1));
  ([45; 112; 114; 105; 110; 116; 48], (0, 1));
  ([45; 112; 114; 105; 110; 116; 102], (1, 1));
  ([45; 112; 114; 117; 110; 101], (0, 3));
  ([45; 113; 117; 105; 116], (0, 2));
  ([45; 114; 101; 97; 100; 97; 98; 108; 101], (0, 0));
  ([45; 114; 101; 103; 101; 120], (1, 0));
  ([45; 114; 101; 103; 101; 120; 116; 121; 112; 101], (1, 0));
  ([45; 115; 97; 109; 101; 102; 105; 108; 101], (1, 0));
  ([45; 115; 105; 122; 101], (1, 0));
  ([45; 115; 111; 114; 116; 101; 100], (0, 0));
  ([45; 116; 114; 117; 101], (0, 0));
  ([45; 116; 121; 112; 101], (1, 0));
  ([45; 117; 105; 100], (1, 0));
  ([45; 117; 115; 101; 114], (1, 0));
  ([45; 119; 97; 114; 110], (0, 0));
  ([45; 119; 104; 111; 108; 101; 110; 97; 109; 101], (1, 0));
  ([45; 119; 114; 105; 116; 97; 98; 108; 101], (0, 0));
  ([45; 120; 100; 101; 118], (0, 0));
  ([45; 120; 116; 121; 112; 101], (1, 0))].
Proof. exact primaries_ok. Qed.
Print Assumptions C11_primary_table.

(* An invalid operand to -regex: a back-reference to a group that is not complete where it stands.  The check is one pass over the
   flat pattern with a stack of the groups still open ([RegexRefs.ref_run], the model of check_back_references, compared with the
   code through a hook on every generated pattern); what it decides is what the recursion over the pattern's structure says
   ([RegexRefsSpec.refs_valid]: every alternative of a group starts from what was complete where the group began; a closed group is
   complete together with everything its alternatives completed - GNU regex's rule), for every pattern structure. *)
Theorem C11_back_references_one_pass : forall e, refs_ok (toks_alts e) = refs_valid e.
Proof. exact refs_ok_decides. Qed.
Print Assumptions C11_back_references_one_pass.

(* (a)\1 ; (\1) ; (a)|\1 ; ((a)|b)\2 ; (a|(b))\2 ; ((a)\1) ; ((a)\2) ; (a)(b|\1)\2 ; \1(a) ; ((a)|\2) *)
Example C11_back_reference_witness :
  let a := AOth in let g x := AGrp (One x) in let s1 x := SCons x SNil in let s2 x y := SCons x (SCons y SNil) in
  refs_valid (One (s2 (g (s1 a)) (ARef 1))) = true /\
  refs_valid (One (s1 (g (s1 (ARef 1))))) = false /\
  refs_valid (More (s1 (g (s1 a))) (One (s1 (ARef 1)))) = false /\
  refs_valid (One (s2 (AGrp (More (s1 (g (s1 a))) (One (s1 a)))) (ARef 2))) = true /\
  refs_valid (One (s2 (AGrp (More (s1 a) (One (s1 (g (s1 a)))))) (ARef 2))) = true /\
  refs_valid (One (s1 (g (s2 (g (s1 a)) (ARef 1))))) = false /\
  refs_valid (One (s1 (g (s2 (g (s1 a)) (ARef 2))))) = true /\
  refs_valid (One (SCons (g (s1 a)) (s2 (AGrp (More (s1 a) (One (s1 (ARef 1))))) (ARef 2)))) = true /\
  refs_valid (One (s2 (ARef 1) (g (s1 a)))) = false /\
  refs_valid (One (s1 (AGrp (More (s1 (g (s1 a))) (One (s1 (ARef 2))))))) = false /\
  (* the same through the characters: posix-extended "((a)|b)\2" and "(a)|\1" *)
  back_references_ok true false true [40; 40; 97; 41; 124; 98; 41; 92; 50] = true /\
  back_references_ok true false true [40; 97; 41; 124; 92; 49] = false /\
  (* emacs "[[:x:]\(a\)]\1" (no classes: the bracket expression ends at the first "]") and the same in posix-basic *)
  back_references_ok false false false [91; 91; 58; 120; 58; 93; 92; 40; 97; 92; 41; 93; 92; 49] = true /\
  back_references_ok false false true [91; 91; 58; 120; 58; 93; 92; 40; 97; 92; 41; 93; 92; 49] = false.
Proof. vm_compute. repeat split. Qed.

(* An invalid operand to -regex: an interval.  [RegexIntervals] is the model of check_intervals (compared with the code through a
   hook on every sequence of up to four of the pieces the check tells apart).  Its reading of the bounds is capped (everything
   above RE_DUP_MAX is refused alike); in terms of the numbers written it refuses exactly a lower bound above the upper one and
   a bound above RE_DUP_MAX = 32767.  And the rules of posix-basic are those of grep with refusals on top: what posix-basic
   accepts, grep accepts. *)
Theorem C11_interval_bounds : forall low high, low <> [] -> high <> [] ->
  (value high < value low \/ re_dup_max < value low \/ re_dup_max < value high)%N <->
  ((dval 0 high <? dval 0 low)%N || (re_dup_max <? dval 0 low)%N || (re_dup_max <? dval 0 high)%N) = true.
Proof. exact reversed_or_large_refused. Qed.
Print Assumptions C11_interval_bounds.
Theorem C11_posix_basic_refines_grep : forall nl p,
  basic_ok true nl (IT true false false) p = true -> basic_ok false nl (IT true false false) p = true.
Proof. exact posix_basic_refines_grep. Qed.
Print Assumptions C11_posix_basic_refines_grep.
(* grep: "\{2,1\}" at the start is a brace (accepted), "a\{2,1\}" is refused; posix-basic: "\{1\}" at the start, "a**" refused,
   "a*\+" accepted; posix-extended: "a{1,32768}" refused, "[{2,1}]" accepted *)
Example C11_interval_witness :
  intervals_ok 1 [92; 123; 50; 44; 49; 92; 125] = true /\ intervals_ok 1 [97; 92; 123; 50; 44; 49; 92; 125] = false /\
  intervals_ok 2 [92; 123; 49; 92; 125] = false /\ intervals_ok 2 [97; 42; 42] = false /\ intervals_ok 2 [97; 42; 92; 43] = true /\
  intervals_ok 3 [97; 123; 49; 44; 51; 50; 55; 54; 56; 125] = false /\ intervals_ok 3 [91; 123; 50; 44; 49; 125; 93] = true.
Proof. vm_compute. repeat split. Qed.
