(* C04 - xargs batching: order-preserving, lossless, within -n/-L/-s, maximal.
   Property theorems only.  [xargs_run c args false outs] is the model of do_xargs/xargs_main
   (Model/XArgs.v): exit status and the batches of appended arguments, in order.  The batches
   do not depend on what the children do (run_factor); [P args] below is the pure batching. *)
Require Import Batch BatchProofs XArgs XArgsProofs XArgsTop.
From Coq Require Import List NArith Bool.
Import ListNotations.
Local Open Scope N_scope.

Definition batching (c : config) (tmpl : list limiter) (args : list arg) :=
  process arg (list limiter) tmpl accf (fatalf c) (c_r c) tmpl [] false args [].

(* The invocations actually made are the batches, in order, with status 0/123 (all input
   processed) or 1 (an argument cannot be placed), as long as no child outcome is fatal. *)
Theorem C04_invocations_are_batches : forall c tmpl args outs, c_replace c = false ->     (* -I is C20's: there a line is run when it is read *)
  charge_init (limiters0 c) (charged c) = Some tmpl -> really_runs c args ->
  let bs := batches_of (batching c tmpl args) in
  (length bs <= length outs)%nat -> forallb nonfatal (firstn (length bs) outs) = true ->
  xargs_run c args false outs =
  (match batching c tmpl args with
   | Ran _ => if forallb exit_zero (firstn (length bs) outs) then 0 else 123
   | TooLarge _ => 1 end, bs).
Proof. intros c tmpl args outs H0 H1 H2. exact (run_no_fatal c tmpl H1 args outs H0 H2). Qed.
Print Assumptions C04_invocations_are_batches.

(* An input error (an unterminated quote, a read error after the arguments [args]) is outside the property's quantifier - such
   an input has no argument sequence - but what the run has done by then is still accounted for: the invocations made are
   those of the run on [args] alone under -r, short of at most one, the batch that was still being collected (the
   repository's test xargs_unterminated_quote pins that this batch is not run).  Status 1: C19_input_error. *)
Theorem C04_input_error_runs_whole_batches : forall c tmpl args ls cur p st, exists tail,
  snd (process_x (with_r c) tmpl ls cur p args false st) = snd (process_x c tmpl ls cur p args true st) ++ tail /\
  (length tail <= 1)%nat.
Proof. exact input_error_invocations. Qed.
Print Assumptions C04_input_error_runs_whole_batches.

(* Lossless and ordered; every batch within all limits at once; maximal; empty input;
   an argument that cannot be placed ends the run (exit 1 by the theorem above) after a
   greedy batching of a prefix - it is never truncated, split or dropped silently. *)
Theorem C04_batching : forall c tmpl args,
  charge_init (limiters0 c) (charged c) = Some tmpl -> Forall noninit args ->
  match batching c tmpl args with
  | Ran bs => concat bs = args /\ (args <> [] -> greedy_lim (within_limits c) bs) /\
              (args = [] -> bs = if c_r c then [] else [[]])
  | TooLarge bs => exists pre a post, args = pre ++ a :: post /\ greedy_lim (within_limits c) bs /\
              (~ within_limits c [a] \/
               (c_x c = true /\ (c_n c <> None \/ c_L c <> None) /\
                exists b, concat bs ++ b = pre /\ ~ within_limits c (b ++ [a])))
  end.
Proof. intros c tmpl args H. exact (batches_spec c tmpl H args). Qed.
Print Assumptions C04_batching.

(* The limiter state at the start of every batch is the template: the command and the initial
   arguments are charged exactly once per invocation (no state leaks from one batch to the next);
   it is what makes [within_limits] mention them once ([charged c]: c_init c - with -I, without the replacement string). *)
Theorem C04_template : forall c tmpl,
  charge_init (limiters0 c) (charged c) = Some tmpl -> tmpl = map (advi (charged c)) (limiters0 c).
Proof. exact charge_init_spec_top. Qed.
Print Assumptions C04_template.

(* command and initial arguments too large: nothing is run, status 1 *)
Theorem C04_base_too_large : forall c args ie outs,
  charge_init (limiters0 c) (charged c) = None -> xargs_run c args ie outs = (1, []).
Proof. exact base_too_large. Qed.
Print Assumptions C04_base_too_large.

(* non-vacuity: -n 2 -s 14, command "echo", five arguments, one over-long at the end *)
Example C04_witness :
  let c := {| c_n := Some 2; c_L := None; c_s := Some 14; c_x := false; c_r := false;
              c_sys := 100000; c_init := [4]; c_replace := false; c_subst := fun _ => [] |} in
  let mk i l k := {| aid := i; alen := l; akind := k |} in
  xargs_run c [mk 0 3 Soft; mk 1 3 Hard; mk 2 5 Soft; mk 3 1 Hard] false [Exit 0; Exit 1; Exit 0]
  = (123, [[mk 0 3 Soft; mk 1 3 Hard]; [mk 2 5 Soft; mk 3 1 Hard]]) /\
  fst (xargs_run c [mk 0 3 Soft; mk 1 30 Hard] false []) = 1.
Proof. vm_compute. split; reflexivity. Qed.

(* without -I the command and the initial arguments are charged as they are written *)
Theorem C04_template_charged_as_written : forall c, c_replace c = false -> charged c = c_init c.
Proof. intros c H. unfold charged. now rewrite H. Qed.
Print Assumptions C04_template_charged_as_written.
