(* C14 - find numeric operands: N / +N / -N trichotomy and -size unit rounding. *)
Require Import Tables TablesOk Numeric NumericProofs.
From Coq Require Import List NArith ZArith Bool Arith.
Import ListNotations.
Local Open Scope N_scope.

(* N: equals; +N: greater; -N: less *)
Theorem C14_meaning : forall n v,
  (matches (EqualTo n) v = true <-> v = n) /\ (matches (MoreThan n) v = true <-> n < v) /\
  (matches (LessThan n) v = true <-> v < n).
Proof. exact matches_meaning. Qed.
Print Assumptions C14_meaning.

(* for every measured value and every N exactly one of the three forms is true *)
Theorem C14_trichotomy : forall n v,
  (matches (EqualTo n) v = true /\ matches (MoreThan n) v = false /\ matches (LessThan n) v = false) \/
  (matches (EqualTo n) v = false /\ matches (MoreThan n) v = true /\ matches (LessThan n) v = false) \/
  (matches (EqualTo n) v = false /\ matches (MoreThan n) v = false /\ matches (LessThan n) v = true).
Proof. exact trichotomy. Qed.
Print Assumptions C14_trichotomy.

Theorem C14_more_monotone : forall n n' v, n <= n' -> matches (MoreThan n') v = true -> matches (MoreThan n) v = true.
Proof. exact more_monotone. Qed.
Theorem C14_less_monotone : forall n n' v, n <= n' -> matches (LessThan n) v = true -> matches (LessThan n') v = true.
Proof. exact less_monotone. Qed.
Print Assumptions C14_less_monotone.

(* the operand is read uniformly: optional sign, decimal digits (value by Horner's rule), suffix;
   values that do not fit in 64 bits are rejected *)
Theorem C14_operand_reading : forall sg ds suffix,
  (sg < 3)%nat -> ds <> [] -> forallb is_digit ds = true -> suffix_ok suffix = true ->
  parse_cv (sign_chars sg ++ ds ++ suffix) =
  if digits_val ds <=? u64_max then Some (mk_cmp sg (digits_val ds), suffix) else None.
Proof. exact parse_cv_spec. Qed.
Print Assumptions C14_operand_reading.

(* -size: the unit table (regenerated from the source) ... *)
Theorem C14_units :
  unit_bits [99%nat] = Some 0 /\ unit_bits [119%nat] = Some 1 /\ unit_bits [98%nat] = Some 9 /\ unit_bits [] = Some 9 /\
  unit_bits [107%nat] = Some 10 /\ unit_bits [77%nat] = Some 20 /\ unit_bits [71%nat] = Some 30 /\
  (forall s, unit_bits s <> None -> In s [[99%nat]; [119%nat]; [98%nat]; []; [107%nat]; [77%nat]; [71%nat]]).
Proof. exact units_table. Qed.
Print Assumptions C14_units.

(* ... and the rounding: the measured value is size / 2^bits rounded up to the next whole unit *)
Theorem C14_size_ceil : forall bits size, 0 < size ->
  (unit_size bits size - 1) * 2 ^ bits < size <= unit_size bits size * 2 ^ bits.
Proof. exact unit_size_ceil. Qed.
Print Assumptions C14_size_ceil.

(* "-size -1k matches only empty files", "-size 1M matches sizes 1 .. 2^20" (for any unit) *)
Theorem C14_size_less_1 : forall bits size, matches (LessThan 1) (unit_size bits size) = true <-> size = 0.
Proof. exact size_less_1. Qed.
Theorem C14_size_eq_1 : forall bits size, matches (EqualTo 1) (unit_size bits size) = true <-> 1 <= size <= 2 ^ bits.
Proof. exact size_eq_1. Qed.
Print Assumptions C14_size_eq_1.

(* the same for every N: what -size N, -size +N and -size -N say about the size in bytes, for any unit *)
Theorem C14_size_more : forall bits n size,
  matches (MoreThan n) (unit_size bits size) = true <-> n * 2 ^ bits < size.
Proof. exact size_more_n. Qed.
Theorem C14_size_less : forall bits n size, 0 < n ->
  (matches (LessThan n) (unit_size bits size) = true <-> size <= (n - 1) * 2 ^ bits).
Proof. exact size_less_n. Qed.
Theorem C14_size_eq : forall bits n size, 0 < n ->
  (matches (EqualTo n) (unit_size bits size) = true <-> (n - 1) * 2 ^ bits < size <= n * 2 ^ bits).
Proof. exact size_eq_n. Qed.
Theorem C14_size_eq_0 : forall bits size, matches (EqualTo 0) (unit_size bits size) = true <-> size = 0.
Proof. exact size_eq_0. Qed.
Theorem C14_size_less_0 : forall bits size, matches (LessThan 0) (unit_size bits size) = false.
Proof. exact size_less_0. Qed.
Print Assumptions C14_size_eq.

Example C14_witness :
  size_test [43; 50; 107]%nat 2049 = Some true /\ size_test [43; 50; 107]%nat 2048 = Some false /\
  size_test [45; 49; 77]%nat 0 = Some true /\ size_test [49; 48; 120]%nat 5 = None /\
  num_test [49; 56; 52; 52; 54; 55; 52; 52; 48; 55; 51; 55; 48; 57; 53; 53; 49; 54; 49; 54]%nat 5 = None.
Proof. vm_compute. repeat split. Qed.
