(* C10 - find -delete removes exactly the matched entries and nothing else.
   Tree: File (anything that is not a descended directory, symbolic links included: remove_file
   removes the link itself) | Dir children.  [M rp]: the expression before -delete is true on the
   entry at [rp].  [delete_run] folds DeleteMatcher over the -depth visit sequence; [gone] is the
   reference: the matched entries, a directory only when everything below it is gone. *)
Require Import Delete DeleteProofs.
From Coq Require Import List Arith Bool.
Import ListNotations.

(* the entries removed, in order, are exactly the reference set in depth-first order *)
Theorem C10_exact : forall M n, wf n ->
  removed (delete_run M [] n {| removed := []; failed := false |}) = fst (gone M [] n).
Proof. exact delete_exact. Qed.
Print Assumptions C10_exact.

(* nothing that the expression did not match is ever removed *)
Theorem C10_only_matched : forall M n rp, Forall (fun p => M p = true) (fst (gone M rp n)).
Proof. exact gone_matched. Qed.
Print Assumptions C10_only_matched.

(* "An entry that cannot be removed ... makes find's exit status non-zero, and does not stop the walk": the failure flag of the
   run is set exactly when some matched directory could not be emptied ([stuck]: a directory for which the expression is true
   and below which something is left) - and C10_exact holds whatever fails: everything else that is matched is still removed. *)
Theorem C10_failure_reported : forall M n, wf n ->
  failed (delete_run M [] n {| removed := []; failed := false |}) = stuck M [] n.
Proof. exact delete_failure. Qed.
Print Assumptions C10_failure_reported.

(* "a directory only when empty (its matched children having been removed first)": an entry is removed exactly when it is matched
   and everything below it is removed (the flag of [gone]), and then what is removed at and below it is the whole -depth sequence
   of that subtree: every child before its directory, the entry itself last *)
Theorem C10_directory_only_when_empty : forall M n rp,
  (In rp (fst (gone M rp n)) <-> snd (gone M rp n) = true) /\
  (snd (gone M rp n) = true -> fst (gone M rp n) = map ev_path (posto rp n)).
Proof. intros M n rp. split; [apply gone_self_iff|apply gone_all_below]. Qed.
Print Assumptions C10_directory_only_when_empty.

(* ... and nothing outside the starting point is ever removed: every removed path lies at or below it *)
Theorem C10_inside_starting_point : forall M n rp, Forall (under rp) (fst (gone M rp n)).
Proof. exact gone_under. Qed.
Print Assumptions C10_inside_starting_point.

Example C10_witness_empty :
  let t := Dir [(1, Dir [(11, File); (12, File)]); (2, File)] in
  gone (fun _ => true) [] t = ([[11; 1]; [12; 1]; [1]; [2]; []], true) /\
  map ev_path (posto [] t) = [[11; 1]; [12; 1]; [1]; [2]; []].
Proof. vm_compute. split; reflexivity. Qed.

(* non-vacuity: r/{1/{11,12}, 2}; matched: 1, 11, 2 -> 11 and 2 removed, 1 not (12 remains), failure reported *)
Example C10_witness :
  let t := Dir [(1, Dir [(11, File); (12, File)]); (2, File)] in
  let M := fun rp : rpath => match rp with [1] | [11; 1] | [2] => true | _ => false end in
  let r := delete_run M [] t {| removed := []; failed := false |} in
  removed r = [[11; 1]; [2]] /\ failed r = true /\ stuck M [] t = true /\ wf t /\
  stuck (fun rp => match rp with [11; 1] | [2] => true | _ => false end) [] t = false.
Proof. vm_compute. repeat split; repeat constructor; cbn; intuition discriminate. Qed.
