(* C18 - find starting points: processed in order, spelled as given, isolated on error. *)
Require Import Walk Expr Find ExprSide PathModel Paths PathsProofs.
From Coq Require Import List Arith Bool.
Import ListNotations.

(* operands before the expression are the starting points, in order, exactly as spelled; none means "." *)
Theorem C18_operands_in_order : forall ps e rest, ps <> [] -> forallb is_operand ps = true -> is_operand e = false ->
  starting_points (ps ++ e :: rest) = (ps, e :: rest).
Proof. exact operands_in_order. Qed.
Theorem C18_default_dot : forall e rest, is_operand e = false -> starting_points (e :: rest) = ([[46]], e :: rest).
Proof. exact default_dot. Qed.
Print Assumptions C18_operands_in_order.

(* every reported path begins with its starting point exactly as it was spelled *)
Theorem C18_spelling : forall names root, Forall relname names -> exists t, entry_path root names = root ++ t.
Proof. exact entry_path_prefix. Qed.
Print Assumptions C18_spelling.

(* starting points are walked one after the other, each independently: without -quit the result is
   the list of the per-root results, in order (a root whose walk only yields a diagnostic
   contributes an empty result and does not affect the others) *)
Theorem C18_order_isolation : forall c m roots,
  Forall (fun r => snd (find_root c (fst r) m (snd r)) = false) roots ->
  find_roots c m roots = map (fun r => fst (find_root c (fst r) m (snd r))) roots.
Proof. exact find_roots_independent. Qed.
Print Assumptions C18_order_isolation.

(* -files0-from: the NUL-separated names come back exactly, in order, with or without a final NUL *)
Theorem C18_files0_split : forall names, Forall goodname names ->
  files0_names (concat (map (fun n => n ++ [0]) names)) = (names, false).
Proof. exact files0_roundtrip. Qed.
Theorem C18_files0_split_nofinal : forall names last, Forall goodname names -> goodname last ->
  files0_names (concat (map (fun n => n ++ [0]) names) ++ last) = (names ++ [last], false).
Proof. exact files0_roundtrip_nofinal. Qed.
(* an empty name is diagnosed and skipped *)
Theorem C18_files0_empty_skipped : forall a b, Forall goodname a -> Forall goodname b ->
  files0_names (concat (map (fun n => n ++ [0]) a) ++ [0] ++ concat (map (fun n => n ++ [0]) b)) = (a ++ b, true).
Proof. exact files0_empty_skipped. Qed.
Print Assumptions C18_files0_empty_skipped.

Example C18_witness :
  starting_points [[46; 47; 97]; [45]; [98; 47; 47]; [45; 110; 97; 109; 101]; [120]] = ([[46; 47; 97]; [45]; [98; 47; 47]], [[45; 110; 97; 109; 101]; [120]])
  /\ files0_names [45; 97; 0; 98; 10; 99; 0; 0; 100] = ([[45; 97]; [98; 10; 99]; [100]], true).
Proof. vm_compute. split; reflexivity. Qed.
