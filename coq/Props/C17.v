(* C17 - find -regex/-iregex match iff the whole path is in the pattern's language.
   [L r s]: the string s belongs to the language of r (inductive definition; the order of
   alternatives plays no role).  [matches] is the derivative-based decision procedure the
   implementation is compared with on every run. *)
Require Import Regex RegexProofs RegexBT RegexBTProofs.
From Coq Require Import List Arith Bool.
Import ListNotations.

(* the oracle decides exactly the language: whole string, every alternative considered *)
Theorem C17_oracle_decides_language : forall r s, matches r s = true <-> L r s.
Proof. exact matches_spec. Qed.
Print Assumptions C17_oracle_decides_language.

(* the engine: a backtracking matcher started at the beginning of the path (alternatives in the order written,
   greedy repetition, first success wins) on the pattern followed by the end-of-text anchor, then Regex::is_match's
   demand that the match spans the whole text - is true exactly for the paths in the language, for every pattern
   and every path (no bound on sizes or nesting) *)
Theorem C17_engine_decides_language : forall r s, regex_is_match r s = true <-> L r s.
Proof. exact regex_is_match_language. Qed.
Print Assumptions C17_engine_decides_language.

Theorem C17_engine_equals_oracle : forall r s, regex_is_match r s = matches r s.
Proof.
  intros r s. destruct (regex_is_match r s) eqn:E, (matches r s) eqn:M; try reflexivity.
  - apply regex_is_match_language, matches_spec in E. congruence.
  - apply matches_spec, regex_is_match_language in M. congruence.
Qed.
Print Assumptions C17_engine_equals_oracle.

(* the two earlier versions of the code, as refutations: without an anchor the first alternative that matches a
   prefix decides ((a|ab) on "ab", the pinned tree); with "$" the position before a final newline is accepted
   ((a|a\n) on "a\n", the first repair) - and "$" is right on every path without a newline *)
Theorem C17_unanchored_refuted : exists r s, L r s /\ is_match_with k_none r s = false.
Proof. exact unanchored_refuted. Qed.
Theorem C17_dollar_refuted : exists r s, L r s /\ is_match_with k_dollar r s = false.
Proof. exact dollar_refuted. Qed.
Theorem C17_dollar_without_newline : forall r s, ~ In 10 s -> (is_match_with k_dollar r s = true <-> L r s).
Proof. exact dollar_without_newline. Qed.
Print Assumptions C17_dollar_without_newline.

(* the syntax in force is the nearest preceding -regextype; emacs when none precedes *)
Theorem C17_regextype_nearest_preceding : forall pre ty mid p post cur, no_rt mid ->
  In (p, ty) (assign_types cur (pre ++ RT ty :: mid ++ RX p :: post)).
Proof. exact nearest_preceding. Qed.
Theorem C17_regextype_default : forall mid p post, no_rt mid -> In (p, 0) (assign_types 0 (mid ++ RX p :: post)).
Proof. exact default_emacs. Qed.
Print Assumptions C17_regextype_nearest_preceding.

(* non-vacuity: (a|ab)c? on "ab" - the first alternative matches a proper prefix only; the language contains "ab" *)
Example C17_witness :
  let a := Chr (Nat.eqb 97) in let b := Chr (Nat.eqb 98) in let c := Chr (Nat.eqb 99) in
  matches (Cat (Alt a (Cat a b)) (Opt c)) [97; 98] = true /\ matches (Cat (Alt a (Cat a b)) (Opt c)) [97; 98; 98] = false /\
  matches (Interval 1 3 b) [98; 98; 98] = true /\ matches (Interval 1 3 b) [98; 98; 98; 98] = false.
Proof. vm_compute. repeat split. Qed.
