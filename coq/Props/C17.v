(* C17 - find -regex/-iregex match iff the whole path is in the pattern's language.
   [L r s]: the string s belongs to the language of r (inductive definition; the order of
   alternatives plays no role).  [matches] is the derivative-based decision procedure the
   implementation is compared with on every run. *)
Require Import Regex RegexProofs.
From Coq Require Import List Arith Bool.
Import ListNotations.

(* the oracle decides exactly the language: whole string, every alternative considered *)
Theorem C17_oracle_decides_language : forall r s, matches r s = true <-> L r s.
Proof. exact matches_spec. Qed.
Print Assumptions C17_oracle_decides_language.

(* the syntax in force is the nearest preceding -regextype; emacs when none precedes *)
Theorem C17_regextype_nearest_preceding : forall pre ty mid p post cur, no_rt mid ->
  In (p, ty) (assign_types cur (pre ++ RT ty :: mid ++ RX p :: post)).
Proof. exact nearest_preceding. Qed.
Theorem C17_regextype_default : forall mid p post, no_rt mid -> In (p, 0) (assign_types 0 (mid ++ RX p :: post)).
Proof. exact default_emacs. Qed.
Print Assumptions C17_regextype_nearest_preceding.

(* non-vacuity: (a|ab)c? on "ab" - the first alternative matches a proper prefix only; the language contains "ab" *)
Example C17_witness :
  let a := Chr (Nat.eqb 97) in let b := Chr (Nat.eqb 98) in let c := Chr (Nat.eqb 99) in
  matches (Cat (Alt a (Cat a b)) (Opt c)) [97; 98] = true /\ matches (Cat (Alt a (Cat a b)) (Opt c)) [97; 98; 98] = false /\
  matches (Interval 1 3 b) [98; 98; 98] = true /\ matches (Interval 1 3 b) [98; 98; 98; 98] = false.
Proof. vm_compute. repeat split. Qed.
