(* C17 - find -regex/-iregex match iff the whole path is in the pattern's language.
   [L r s]: the string s belongs to the language of r (inductive definition; the order of
   alternatives plays no role).  [matches] is the derivative-based decision procedure the
   implementation is compared with on every run. *)
Require Import Regex RegexProofs RegexBT RegexBTProofs RegexWrap RegexWrapProofs RegexClasses RegexClassesProofs.
From Coq Require Import List Arith Bool.
Import ListNotations.

(* the oracle decides exactly the language: whole string, every alternative considered *)
Theorem C17_oracle_decides_language : forall r s, matches r s = true <-> L r s.
Proof. exact matches_spec. Qed.
Print Assumptions C17_oracle_decides_language.

(* the engine: a backtracking matcher started at the beginning of the path (alternatives in the order written,
   greedy repetition, first success wins) on the pattern followed by the end-of-text anchor, then Regex::is_match's
   demand that the match spans the whole text - is true exactly for the paths in the language, for every pattern
   and every path (no bound on sizes or nesting) *)
Theorem C17_engine_decides_language : forall r s, regex_is_match r s = true <-> L r s.
Proof. exact regex_is_match_language. Qed.
Print Assumptions C17_engine_decides_language.

Theorem C17_engine_equals_oracle : forall r s, regex_is_match r s = matches r s.
Proof.
  intros r s. destruct (regex_is_match r s) eqn:E, (matches r s) eqn:M; try reflexivity.
  - apply regex_is_match_language, matches_spec in E. congruence.
  - apply matches_spec, regex_is_match_language in M. congruence.
Qed.
Print Assumptions C17_engine_equals_oracle.

(* the two earlier versions of the code, as refutations: without an anchor the first alternative that matches a
   prefix decides ((a|ab) on "ab", the pinned tree); with "$" the position before a final newline is accepted
   ((a|a\n) on "a\n", the first repair) - and "$" is right on every path without a newline *)
Theorem C17_unanchored_refuted : exists r s, L r s /\ is_match_with k_none r s = false.
Proof. exact unanchored_refuted. Qed.
Theorem C17_dollar_refuted : exists r s, L r s /\ is_match_with k_dollar r s = false.
Proof. exact dollar_refuted. Qed.
Theorem C17_dollar_without_newline : forall r s, ~ In 10 s -> (is_match_with k_dollar r s = true <-> L r s).
Proof. exact dollar_without_newline. Qed.
Print Assumptions C17_dollar_without_newline.

(* the syntax in force is the nearest preceding -regextype; emacs when none precedes *)
Theorem C17_regextype_nearest_preceding : forall pre ty mid p post cur, no_rt mid ->
  In (p, ty) (assign_types cur (pre ++ RT ty :: mid ++ RX p :: post)).
Proof. exact nearest_preceding. Qed.
Theorem C17_regextype_default : forall mid p post, no_rt mid -> In (p, 0) (assign_types 0 (mid ++ RX p :: post)).
Proof. exact default_emacs. Qed.
Print Assumptions C17_regextype_nearest_preceding.

(* non-vacuity: (a|ab)c? on "ab" - the first alternative matches a proper prefix only; the language contains "ab" *)
Example C17_witness :
  let a := Chr (Nat.eqb 97) in let b := Chr (Nat.eqb 98) in let c := Chr (Nat.eqb 99) in
  matches (Cat (Alt a (Cat a b)) (Opt c)) [97; 98] = true /\ matches (Cat (Alt a (Cat a b)) (Opt c)) [97; 98; 98] = false /\
  matches (Interval 1 3 b) [98; 98; 98] = true /\ matches (Interval 1 3 b) [98; 98; 98; 98] = false.
Proof. vm_compute. repeat split. Qed.

(* The pattern is handed to the engine wrapped in a group whose end is anchored: "(" inside_group(P) ")\'" .  Whatever P is, the
   text written inside cannot close that group: read back, it has no ")" outside brackets, unescaped, at depth 0.  (The reading of
   groups - [closed_early] - is a model of the engine's lexer: backslash pairs, bracket expressions up to their "]".) *)
Theorem C17_wrapper_never_closed_early : forall p, closed_early QT 0 (inside_group true true false false false p) = false.
Proof. exact inside_group_never_closes. Qed.
Print Assumptions C17_wrapper_never_closed_early.

(* The emacs syntax has no character classes (and no extended groups): a pattern without a backslash and without a collating
   symbol ("[.x.]", "[=x=]" naming an ordinary character: the engine has none, the character is written instead) is handed over
   as it is - "[[:digit:]]" stays the bracket expression "[[:digit:]" followed by "]" that it is there. *)
Theorem C17_emacs_text_unchanged : forall p,
  forallb (fun c => negb (Nat.eqb c c_bs)) p = true -> collfree p = true -> inside_group false false false false false p = p.
Proof. exact emacs_text_unchanged. Qed.
Print Assumptions C17_emacs_text_unchanged.

(* grep and posix-basic write their operators with a backslash, and GNU takes them for operators only where there is something to
   repeat: the spelling handed to the engine (grep: "\{" with nothing to repeat is a brace; posix-basic: "\+" and "\?" behind
   something to repeat are the intervals "\{1,\}" and "\{0,1\}") touches nothing in a pattern without a backslash, and is a
   fixed point - read again by the same rules the spelled text holds nothing left to spell, so every operator has been read
   in the state the rules give it. *)
(* Before anything else the collating symbols and equivalence classes of bracket expressions are spelled as the characters they
   name (spell_collating: also what is compiled first, so that "[a-[.c.]]" is judged as the range it is); a pattern that holds
   none goes through as it is. *)
Theorem C17_collating_spelling_only_symbols : forall cls p, collfree p = true -> collp cls CT p = p.
Proof. intros cls p H. now apply collp_collfree. Qed.
Print Assumptions C17_collating_spelling_only_symbols.

Theorem C17_basic_spelling_needs_a_backslash : forall gb pq nl p,
  forallb (fun c => negb (Nat.eqb c c_bs)) p = true -> spell gb pq nl p = p.
Proof. exact spell_no_backslash. Qed.
Print Assumptions C17_basic_spelling_needs_a_backslash.
(* GNU's "{,n}" is "{0,n}": the lower bound is written for the engine (in posix-extended by a pass of its own, which touches
   nothing in a pattern without a "{"; in grep and posix-basic by the operator spelling, where the interval opens) *)
Theorem C17_open_interval_spelling_needs_a_brace : forall p,
  forallb (fun c => negb (Nat.eqb c c_lbrace)) p = true -> xopen XT p = p.
Proof. exact xopen_no_brace. Qed.
Print Assumptions C17_open_interval_spelling_needs_a_brace.

Theorem C17_basic_spelling_fixed_point : forall gb pq nl p, spell gb pq nl (spell gb pq nl p) = spell gb pq nl p.
Proof. exact spell_idempotent. Qed.
Print Assumptions C17_basic_spelling_fixed_point.

(* "./a)|./b" ; "(a)(b)\2" ; "\10" ; "[)]" ; "x[[:punct:]^]" ; posix-basic "\(a\)\1" *)
Example C17_wrap_witness :
  inside_group true true false false false [46; 47; 97; 41; 124; 46; 47; 98] = [46; 47; 97; 92; 41; 124; 46; 47; 98] /\
  inside_group true true false false false [40; 97; 41; 40; 98; 41; 92; 50] = [40; 97; 41; 40; 98; 41; 92; 51] /\
  inside_group true true false false false [92; 49; 48] = [92; 50; 91; 48; 93] /\
  inside_group true true false false false [91; 41; 93] = [91; 41; 93] /\
  inside_group true true false false false [120; 91; 91; 58; 112; 117; 110; 99; 116; 58; 93; 94; 93] = [120; 91; 33; 45; 47; 58; 45; 64; 91; 45; 96; 123; 45; 126; 94; 93] /\
  inside_group false true false false true [92; 40; 97; 92; 41; 92; 49] = [92; 40; 97; 92; 41; 92; 50] /\
  closed_early QT 0 [46; 47; 97; 41; 124; 46; 47; 98] = true /\
  (* grep: "a<NL>b" is "a\|b", but not inside brackets nor after a backslash; emacs: "[[:digit:]]" as it is *)
  inside_group false true true true false [97; 10; 98; 91; 10; 93; 92; 10] = [97; 92; 124; 98; 91; 10; 93; 92; 10] /\
  inside_group false false false false false [91; 91; 58; 100; 105; 103; 105; 116; 58; 93; 93] = [91; 91; 58; 100; 105; 103; 105; 116; 58; 93; 93] /\
  inside_group false true false false true [91; 91; 58; 100; 105; 103; 105; 116; 58; 93; 93] = [91; 48; 45; 57; 93].
Proof. vm_compute. repeat split. Qed.
(* grep "\(\{1\}\)x\{2\}" -> "\({1\}\)x\{2\}" ; posix-basic "a\+\(\+b\?\)" -> "a\{1,\}\(\+b\{0,1\}\)" ; "[[=a=]b[.-.]]" -> "[ab[.-.]]" *)
Example C17_spelling_witness :
  inside_group false true true true false [92; 40; 92; 123; 49; 92; 125; 92; 41; 120; 92; 123; 50; 92; 125]
    = [92; 40; 123; 49; 92; 125; 92; 41; 120; 92; 123; 50; 92; 125] /\
  inside_group false true false false true [97; 92; 43; 92; 40; 92; 43; 98; 92; 63; 92; 41]
    = [97; 92; 123; 49; 44; 92; 125; 92; 40; 92; 43; 98; 92; 123; 48; 44; 49; 92; 125; 92; 41] /\
  inside_group true true false false false [91; 91; 61; 97; 61; 93; 98; 91; 46; 45; 46; 93; 93] = [91; 97; 98; 91; 46; 45; 46; 93; 93].
Proof. vm_compute. repeat split. Qed.


(* The pattern goes through several scanners before it is compiled - the validators, the spelling passes, the engine's own lexer -
   and each reads bracket expressions in its own way (GNU's reading: "[:" "[." "[=" run to their own ":]" ".]" "=]"; the engine
   has no collating symbols and ends a class at the first "]").  What keeps them together: where the reading of check_classes
   accepts a pattern and every collating symbol and equivalence class names an ordinary character ([gnu_out]: the text outside
   bracket expressions, 0 for each of them), check_classes' model accepts it, and the engine, reading what spell_collating wrote
   ([EngOut]), finds the same text outside bracket expressions and a bracket expression exactly where GNU's reading has one - for
   every pattern, whatever stands in the brackets.  The condition is the boundary of the known finding collating-specials:
   the witness below has a symbol naming "-", is accepted, and the engine closes its bracket expression early. *)
Theorem C17_scanners_agree_on_brackets : forall cls fuel p o,
  gnu_out fuel cls p = Some o -> classes_scan fuel cls p = true /\ EngOut cls (collp cls CT p) o.
Proof. intros cls fuel p o H. split; [exact (gnu_out_accepts cls fuel p o H)|exact (readers_agree cls fuel p o H)]. Qed.
Print Assumptions C17_scanners_agree_on_brackets.

(* "x[[.a.]-c[:digit:]]y[^][=b=]]\[z" is read as x 0 y 0 \[ z ; "[[.-.]x]" is accepted by check_classes, is outside the theorem's
   condition, and the engine ends the bracket expression of the (unchanged) text at the "]" of ".]" : "x]" is left over *)
Example C17_scanners_witness :
  gnu_out 40 true [120; 91; 91; 46; 97; 46; 93; 45; 99; 91; 58; 100; 105; 103; 105; 116; 58; 93; 93; 121; 91; 94; 93; 91; 61; 98; 61; 93; 93; 92; 91; 122]
    = Some [120; 0; 121; 0; 92; 91; 122] /\
  collp true CT [120; 91; 91; 46; 97; 46; 93; 45; 99; 91; 58; 100; 105; 103; 105; 116; 58; 93; 93; 121]
    = [120; 91; 97; 45; 99; 91; 58; 100; 105; 103; 105; 116; 58; 93; 93; 121] /\
  classes_ok true [91; 91; 46; 45; 46; 93; 120; 93] = true /\
  gnu_out 20 true [91; 91; 46; 45; 46; 93; 120; 93] = None /\
  collp true CT [91; 91; 46; 45; 46; 93; 120; 93] = [91; 91; 46; 45; 46; 93; 120; 93] /\
  eng_members true false [91; 46; 45; 46; 93; 120; 93] = Some [120; 93].
Proof. vm_compute. repeat split. Qed.

(* posix-extended "(a{,2}){,}[{,]" -> "(a{0,2}){0,}[{,]" ; posix-basic "a\{,2\}\(\{,1\}" -> "a\{0,2\}\(\{,1\}" (no interval at the start of a group) *)
Example C17_open_interval_witness :
  inside_group true true false false false [40; 97; 123; 44; 50; 125; 41; 123; 44; 125; 91; 123; 44; 93]
    = [40; 97; 123; 48; 44; 50; 125; 41; 123; 48; 44; 125; 91; 123; 44; 93] /\
  spell false true false [97; 92; 123; 44; 50; 92; 125; 92; 40; 92; 123; 44; 49; 92; 125]
    = [97; 92; 123; 48; 44; 50; 92; 125; 92; 40; 92; 123; 44; 49; 92; 125].
Proof. vm_compute. repeat split. Qed.
