(* C19 - xargs exit status is the documented function of its children's outcomes. *)
Require Import Batch BatchProofs XArgs XArgsProofs XArgsTop.
From Coq Require Import List NArith Bool.
Import ListNotations.
Local Open Scope N_scope.

Definition batching (c : config) (tmpl : list limiter) (args : list arg) :=
  process arg (list limiter) tmpl accf (fatalf c) (c_r c) tmpl [] false args [].

(* No fatal outcome among the invocations: all of them run; exit 0 iff every one exited 0,
   123 otherwise (1 when xargs itself had to give up on an argument). *)
Theorem C19_status_all_ran : forall c tmpl args outs, c_replace c = false ->
  charge_init (limiters0 c) (charged c) = Some tmpl -> really_runs c args ->
  let bs := batches_of (batching c tmpl args) in
  (length bs <= length outs)%nat -> forallb nonfatal (firstn (length bs) outs) = true ->
  xargs_run c args false outs =
  (match batching c tmpl args with
   | Ran _ => if forallb exit_zero (firstn (length bs) outs) then 0 else 123
   | TooLarge _ => 1 end, bs).
Proof. intros c tmpl args outs H0 H1 H2. exact (run_no_fatal c tmpl H1 args outs H0 H2). Qed.
Print Assumptions C19_status_all_ran.

(* The first fatal outcome (exit 255, killed by a signal, cannot run, not found) at invocation
   number |pre| ends the run at once: exactly |pre|+1 invocations were started, and the status
   is 124 / 125 / 126 / 127. *)
Theorem C19_first_fatal : forall c tmpl args pre o post, c_replace c = false ->
  charge_init (limiters0 c) (charged c) = Some tmpl -> really_runs c args ->
  let bs := batches_of (batching c tmpl args) in
  forallb nonfatal pre = true -> nonfatal o = false -> (length pre < length bs)%nat ->
  xargs_run c args false (pre ++ o :: post) = (fatal_code o, firstn (S (length pre)) bs).
Proof. intros c tmpl args pre o post H0 H1 H2. exact (run_first_fatal c tmpl H1 args pre o post H0 H2). Qed.
Print Assumptions C19_first_fatal.

(* The same two statements under -I, where every line is run as soon as it has been read ([ie]: the reader fails after the last
   line of [args]: those lines have been run all the same, and the status is 1 unless a fatal outcome came first). *)
Theorem C19_status_all_ran_replace : forall c tmpl args ie outs, c_replace c = true ->
  charge_init (limiters0 c) (charged c) = Some tmpl -> Forall (line_runs c tmpl) args ->
  (length args <= length outs)%nat -> forallb nonfatal (firstn (length args) outs) = true ->
  xargs_run c args ie outs =
  (if ie then 1 else if forallb exit_zero (firstn (length args) outs) then 0 else 123, map (fun a => [a]) args).
Proof. intros c tmpl args ie outs. exact (replace_no_fatal c tmpl args ie outs). Qed.
Print Assumptions C19_status_all_ran_replace.

Theorem C19_first_fatal_replace : forall c tmpl args ie pre o post, c_replace c = true ->
  charge_init (limiters0 c) (charged c) = Some tmpl -> Forall (line_runs c tmpl) args ->
  forallb nonfatal pre = true -> nonfatal o = false -> (length pre < length args)%nat ->
  xargs_run c args ie (pre ++ o :: post) = (fatal_code o, firstn (S (length pre)) (map (fun a => [a]) args)).
Proof. intros c tmpl args ie pre o post. exact (replace_first_fatal c tmpl args ie pre o post). Qed.
Print Assumptions C19_first_fatal_replace.

Theorem C19_codes :
  map fatal_code [Exit 255; Signal; CannotRun; NotFound] = [124; 125; 126; 127] /\
  (forall code, code <> 0 -> code <> 255 -> nonfatal (Exit code) = true /\ exit_zero (Exit code) = false) /\
  nonfatal (Exit 0) = true /\ exit_zero (Exit 0) = true.
Proof. exact codes_table. Qed.
Print Assumptions C19_codes.

(* An input error (unterminated quote) gives status 1, whatever was run before it. *)
Theorem C19_input_error : forall c tmpl args ls cur p st, forallb nonfatal (outs st) = true ->
  fst (process_x c tmpl ls cur p args true st) = 1.
Proof. exact input_error_status. Qed.
Print Assumptions C19_input_error.

Example C19_witness :
  let c := {| c_n := Some 1; c_L := None; c_s := None; c_x := false; c_r := false;
              c_sys := 100000; c_init := [2]; c_replace := false; c_subst := fun _ => [] |} in
  let mk i := {| aid := i; alen := 1; akind := Hard |} in
  xargs_run c [mk 0; mk 1; mk 2; mk 3] false [Exit 0; Exit 3; Signal; Exit 0] = (125, [[mk 0]; [mk 1]; [mk 2]]) /\
  xargs_run c [mk 0; mk 1] false [Exit 7; Exit 0] = (123, [[mk 0]; [mk 1]]).
Proof. vm_compute. split; reflexivity. Qed.
