(* C16 - find -printf renders escapes, directives, width and justification faithfully.
   [show items] is a format string of the documented language ([item]: verbatim character, \letter,
   \NNN, \c, %[-]WIDTHdirective); [render_ref] its reference rendering.  [run_printf] is the model of
   FormatStringParser + Printf::print.  [value d] is the text of directive d for the file at hand (the
   path-valued ones are modelled in PrintfValue.v, the numeric ones come from the record C13 selects). *)
From Coq Require Import NArith.
Require Import Tables TablesOk Printf PrintfSpec PrintfProofs Entry EntryProofs PathModel Paths PathsProofs PrintfValue PrintfValueProofs.
From Coq Require Import List Arith Bool Lia.
Import ListNotations.

(* every escape and %% is replaced by its character, every directive by its padded value, every other
   character is copied verbatim and nothing is appended - for every format of the documented language *)
Theorem C16_render : forall strftime_ok value items, forallb wf_item items = true ->
  run_printf strftime_ok value (show items) = Ok (render_ref value items).
Proof. exact printf_renders. Qed.
Print Assumptions C16_render.

(* width and justification: blanks only, on the left by default and on the right with '-', at least
   WIDTH characters, never truncated *)
Theorem C16_width : forall w j v, exists fill, Forall (fun c => c = 32) fill /\
  pad (Some w) j v = (match j with JLeft => v ++ fill | JRight => fill ++ v end) /\
  w <= length (pad (Some w) j v) /\ (length v <= w -> length (pad (Some w) j v) = w) /\ (w <= length v -> pad (Some w) j v = v).
Proof. exact pad_spec. Qed.
Print Assumptions C16_width.

(* the escape letters and the directive letters (tables regenerated from printf.rs) *)
Theorem C16_tables :
  printf_escapes = [(48, 0); (92, 92); (97, 7); (98, 8); (102, 12); (110, 10); (114, 13); (116, 9); (118, 11)] /\
  map fst printf_directives = [65; 67; 68; 70; 71; 72; 77; 80; 83; 84; 85; 89; 97; 98; 99; 100; 102; 103; 104; 105; 107; 108; 109; 110; 112; 115; 116; 117; 121].
Proof. split; [exact printf_escapes_ok|rewrite printf_directives_ok; reflexivity]. Qed.
Print Assumptions C16_tables.

(* %l is the link text exactly where the record the follow mode selects is that of a link, and nothing otherwise *)
Theorem C16_link_target : forall cfg depth v, coherent v ->
  printf_l_applies cfg depth v = match seen cfg depth v with Some r => is_lnk (st_type r) | None => false end.
Proof. exact lname_only_unresolved. Qed.
Print Assumptions C16_link_target.

(* %H is the starting point exactly as it was given, for every entry found under it *)
Theorem C16_H_as_given : forall root names, Forall relname names ->
  pv_H (entry_path root names) (length root) = Some root.
Proof.
  intros root names H. destruct (entry_path_prefix names root H) as [t E]. unfold pv_H. rewrite E.
  rewrite app_length. assert (Hle : (length root <=? length root + length t) = true) by (apply Nat.leb_le; lia). rewrite Hle.
  f_equal. rewrite firstn_app, Nat.sub_diag, firstn_all. cbn [firstn]. apply app_nil_r.
Qed.
Print Assumptions C16_H_as_given.

(* %f is the last component and %h the part before it, of the path as spelled: %h, '/' and %f put the path together again
   (trailing slashes apart; "d/." is "d" and "."), and %h is "." exactly when there is no directory part *)
Theorem C16_h_f_recompose : forall path, trim_end_sl path <> [] ->
  (pv_h path ++ SL :: pv_f path = trim_end_sl path /\ In SL (trim_end_sl path)) \/
  (pv_h path = [DOT] /\ pv_f path = trim_end_sl path /\ ~ In SL (trim_end_sl path)).
Proof. exact h_f_recompose. Qed.
Print Assumptions C16_h_f_recompose.

(* for an entry below a starting point %f is its own name and %h everything before the slash, however that is spelled *)
Theorem C16_h_f_below : forall base n, plainname n -> pv_f (base ++ SL :: n) = n /\ pv_h (base ++ SL :: n) = base.
Proof. exact h_f_below. Qed.
Print Assumptions C16_h_f_below.

(* "d/." : %f = ".", %h = "d";  "d/./x" : %h = "d/.";  "x/" : %f = "x", %h = ".";  "/" : %f = "/", %h = "" *)
Example C16_h_f_witness :
  (pv_f [100; 47; 46], pv_h [100; 47; 46]) = ([46], [100]) /\ pv_h [100; 47; 46; 47; 120] = [100; 47; 46] /\
  (pv_f [120; 47], pv_h [120; 47]) = ([120], [46]) /\ (pv_f [47], pv_h [47]) = ([47], []).
Proof. vm_compute. repeat split. Qed.

(* The numeric directives (%s %n %i %U %G %d in decimal, %m in octal) print the digits of the number and nothing else: read
   back in that base the text is the number, every character is a digit of the base, and there is no padding - a non-zero
   number does not begin with 0, and zero is the single digit 0 (mode 0004 is "4", mode 0 is "0"). *)
Theorem C16_numbers : forall b n, (2 <= b)%N -> (b <= 10)%N ->
  value_of b (render_num b n) 0 = n /\
  Forall (fun d => 48 <= d /\ (N.of_nat (d - 48) < b)%N) (render_num b n) /\
  (n = 0%N -> render_num b n = [48]) /\
  ((0 < n)%N -> exists d rest, render_num b n = d :: rest /\ d <> 48).
Proof.
  intros b n H1 H2. split; [exact (render_num_value b n H1 H2)|]. split; [exact (render_num_digits b n H1 H2)|].
  exact (render_num_canonical b n H1).
Qed.
Print Assumptions C16_numbers.

(* \NNN is one byte: \351 is the byte 0351 (not the two-byte UTF-8 form of U+00E9), \400 the byte 0, \101 the letter A *)
Example C16_octal_bytes : oct_out 51 53 49 = [233 + raw_base] /\ oct_out 52 48 48 = [0] /\ oct_out 49 48 49 = [65].
Proof. repeat split; vm_compute; reflexivity. Qed.

(* mode 0644 = 420, 04 and 0 in octal; size 1048576 in decimal *)
Example C16_numbers_witness :
  render_num 8 420 = [54; 52; 52] /\ render_num 8 4 = [52] /\ render_num 8 0 = [48] /\
  render_num 10 1048576 = [49; 48; 52; 56; 53; 55; 54] /\ render_num 8 4095 = [55; 55; 55; 55].
Proof. vm_compute. repeat split. Qed.

(* non-vacuity:  "[%-5d|%3f]\t%%\101\\"  with %d = "2" and %f = "name" *)
Example C16_witness :
  let items := [IChar 91; IDir 100 [53] JLeft; IChar 124; IDir 102 [51] JRight; IChar 93; IEsc 116; IChar 37; IOct 49 48 49; IChar 92] in
  let value := fun d => if d =? 100 then [50] else [110; 97; 109; 101] in
  forallb wf_item items = true /\
  run_printf (fun _ => false) value (show items) = Ok [91; 50; 32; 32; 32; 32; 124; 110; 97; 109; 101; 93; 9; 37; 65; 92].
Proof. vm_compute. split; reflexivity. Qed.

(* A precision ("%.3p", "%10.5d"; outside the property's quantifier, inside the format language): at most that many characters of the
   value - for the numbers %d and %m at least that many digits, zeros in front, and none at all for 0 under ".0". *)
Theorem C16_precision : forall d p v,
  ((Nat.eqb d 100 || Nat.eqb d 109) = false -> with_precision d p v = firstn p v /\ length (with_precision d p v) <= p) /\
  ((Nat.eqb d 100 || Nat.eqb d 109) = true -> (Nat.eqb p 0 && match v with [48] => true | _ => false end) = false ->
     with_precision d p v = repeat 48 (p - length v) ++ v /\ p <= length (with_precision d p v)).
Proof.
  intros d p v. unfold with_precision. split.
  - intros ->. split; [reflexivity|]. rewrite firstn_length. apply Nat.le_min_l.
  - intros -> ->. split; [reflexivity|]. rewrite app_length, repeat_length. apply Nat.sub_add_le.
Qed.
Print Assumptions C16_precision.
