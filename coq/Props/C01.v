(* C01 - find expression semantics: precedence, short-circuit, default -print, -quit.
   tokens: a primary with its operands is one token [TP p]; the grammar D* (Proofs/Expr3.v) is
   seq ::= or {',' or};  or ::= and {'-o' and};  and ::= unit {['-a'] unit};
   unit ::= '!' unit | primary | '(' seq ')'.
   [evalE] is the textbook evaluation (left to right, short-circuit, ',' yields the right value,
   quit aborts: nothing further is evaluated); [eqv m e] says the matcher tree [m] has the same
   value, the same complete trace of evaluated primaries, and the same quit/prune flags as [e]
   from every state in which quit has not fired. *)
Require Import Walk Expr Expr3 Expr4 Expr5 Find ExprSide.
From Coq Require Import List Arith Bool.
Import ListNotations.

(* every sentence is accepted and the tree built evaluates as the grammar prescribes *)
Theorem C01_build_complete : forall ts e, DSeq ts e -> exists m, run st0 ts = Ok m /\ eqv m e.
Proof. exact build_complete. Qed.
Print Assumptions C01_build_complete.

(* whatever the builder accepts is a sentence (or the empty expression) *)
Theorem C01_build_sound : forall ts m, run st0 ts = Ok m -> ts = [] \/ exists e, DSeq ts e.
Proof. exact build_sound. Qed.
Print Assumptions C01_build_sound.

(* -print is applied to the whole expression iff no token is an action primary - however
   nested, negated or unreachable the actions are; -prune and -quit do not count *)
Theorem C01_default_print : forall ts m0, run st0 ts = Ok m0 ->
  build_top ts = Ok (if existsb is_action ts then m0 else MAnd [m0; MPrim print_prim]).
Proof. exact default_print. Qed.
Print Assumptions C01_default_print.

(* ... and the wrapper prints exactly when the expression is true *)
Theorem C01_wrapper_semantics : forall m e, eqv m e -> eqv (MAnd [m; MPrim print_prim]) (EAnd e (EP print_prim)).
Proof. exact wrapper_sem. Qed.
Print Assumptions C01_wrapper_semantics.

(* once -quit is evaluated on an entry, no later entry is evaluated ... *)
Theorem C01_quit_cuts : forall tvf m pre rp d b post,
  Forall (fun e => match e with Ent p _ _ => quit (snd (eval (tvf p) m io0)) = false | Err _ => True end) pre ->
  quit (snd (eval (tvf rp) m io0)) = true ->
  eval_visits tvf m (pre ++ Ent rp d b :: post) =
  (fst (eval_visits tvf m pre) ++ [(rp, trace (snd (eval (tvf rp) m io0)))], true).
Proof. exact quit_cuts. Qed.
Print Assumptions C01_quit_cuts.

(* ... nor any later starting point *)
Theorem C01_quit_cuts_roots : forall c m tvf n roots l, find_root c tvf m n = (l, true) ->
  find_roots c m ((tvf, n) :: roots) = [l].
Proof. exact quit_cuts_roots. Qed.
Print Assumptions C01_quit_cuts_roots.

(* non-vacuity:  ! ( t1 -o a2 ) , t3 -a q4 a5   (t = test, a = action, q = quit) *)
Example C01_witness :
  let t i := TP {| pid := i; pk := KTest |} in
  let a i := TP {| pid := i; pk := KAction |} in
  let q i := TP {| pid := i; pk := KQuit |} in
  let ts := [TNot; TL; t 1; TOr; a 2; TR; TComma; t 3; TAnd; q 4; a 5] in
  (exists e, DSeq ts e) /\
  (exists m, build_top ts = Ok m /\
     eval_file (fun i => negb (i =? 1)) m = ([1; 2; 3; 4], true)).
Proof.
  split.
  - eexists. apply DS_comma with (ts1 := [TNot; TL; TP _; TOr; TP _; TR]).
    + apply DO_one, DA_one, DU_Not. apply (DU_Par [TP _; TOr; TP _]).
      apply DS_one. apply DO_or with (ts1 := [TP _]); [apply DA_one, DU_P|apply DO_one, DA_one, DU_P].
    + apply DS_one, DO_one. apply DA_and with (ts1 := [TP _]); [apply DU_P|].
      apply DA_juxt with (ts1 := [TP _]); [apply DU_P|apply DA_one, DU_P].
  - eexists. split; vm_compute; reflexivity.
Qed.
