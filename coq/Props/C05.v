(* C05 - xargs input splitting: quoting, -0/-d, independent of read() chunking.
   Property theorems only; each is closed by [exact] of a lemma proved in Proofs/. *)
Require Import XRead XReadSpec XReadProofs XReadSpecProofs.
From Coq Require Import List Arith Bool.
Import ListNotations.
(* [XRead.scan wl ...]: wl = false is the default mode these theorems are about (except the first, which holds for both);
   wl = true is the whole-line reader of -I (C20) *)
Local Notation ws_read := (XRead.ws_read false).

(* The argument sequence and the line-end flags depend only on the bytes, for every cutting
   of the stream into read() results and every state of the carried-over buffer. *)
Theorem C05_chunk_independent : forall wl fuel pending chunks,
  read_all wl fuel pending chunks = flat_all wl fuel (pending ++ concat chunks).
Proof. exact chunk_independent. Qed.
Print Assumptions C05_chunk_independent.

(* Default mode: for an input that is leading separators followed by well-formed words, each
   followed by separators (blank = space or tab, and newline; nothing else separates), the reader
   yields exactly the unquoted words, in order, flagged hard (the word ends its input line) iff the
   first separator after the word is a newline and the word does not end in a backslash-quoted blank
   (XReadSpec.hard_item: a line ending in a blank continues on the next line) - nothing for leading, trailing or repeated separators, and an empty
   argument for '' or "" wherever it stands - whatever the chunking. *)
Theorem C05_words_exact : forall chunks lead l,
  all_ws lead = true -> items_ok l = true -> concat chunks = lead ++ render_items l ->
  ws_read chunks = Ok (expected l).
Proof. exact ws_read_words. Qed.
Print Assumptions C05_words_exact.

(* An unterminated quote is reported as an error, whatever precedes it. *)
Theorem C05_unterminated_quote : forall chunks l w q s,
  items_ok l = true -> Forall (fun it => nonempty (snd it) = true) l ->
  forallb piece_ok w = true -> is_quote q = true -> existsb (Nat.eqb q) s = false ->
  concat chunks = render_items l ++ render_word w ++ q :: s ->
  ws_read chunks = Err.
Proof. exact ws_read_unterminated. Qed.
Print Assumptions C05_unterminated_quote.

(* A backslash with nothing after it quotes nothing: no argument comes of it. *)
(* ... and a quoted string does not run over the end of its line: a newline before the closing quote is the error, whatever follows
   (so the text of a quoted piece never holds a newline: XReadSpec.piece_ok) *)
Theorem C05_quote_within_line : forall chunks l w q s rest,
  items_ok l = true -> Forall (fun it => nonempty (snd it) = true) l ->
  forallb piece_ok w = true -> is_quote q = true -> existsb (Nat.eqb q) s = false ->
  concat chunks = render_items l ++ render_word w ++ q :: s ++ 10 :: rest ->
  ws_read chunks = Err.
Proof. exact ws_read_quote_over_newline. Qed.
Print Assumptions C05_quote_within_line.

Theorem C05_trailing_backslash : forall chunks l,
  items_ok l = true -> Forall (fun it => nonempty (snd it) = true) l ->
  concat chunks = render_items l ++ [92] -> ws_read chunks = Ok (expected l).
Proof. exact ws_read_trailing_backslash. Qed.
Print Assumptions C05_trailing_backslash.

(* -0 / -d C: the arguments are exactly the non-empty fields between delimiter bytes; no
   quote or backslash processing, every other byte unchanged. *)
Theorem C05_delim_verbatim : forall d chunks, bd_read d chunks = fields d (concat chunks).
Proof. exact bd_read_fields. Qed.
Print Assumptions C05_delim_verbatim.

(* the separators are exactly space, tab and newline (CR, FF, VT belong to the argument) *)
Theorem C05_separators : forall c, is_ws c = true <-> c = 32 \/ c = 9 \/ c = 10.
Proof.
  intros c. unfold is_ws. rewrite !orb_true_iff, !Nat.eqb_eq. tauto.
Qed.

(* non-vacuity: a concrete input meeting the hypotheses:  "  a 'b c'\ d\n\ne  " ; and  "'' x\r \"  *)
Example C05_witness :
  let l := [([P 97], [32]); ([Q 39 [98; 32; 99]; B 32; P 100], [10; 10]); ([P 101], [32; 32])] in
  all_ws [32; 32] = true /\ items_ok l = true /\
  ws_read [[32; 32; 97; 32; 39; 98]; [32; 99; 39; 92]; [32; 100; 10; 10; 101; 32; 32]]
  = Ok [([97], false); ([98; 32; 99; 32; 100], true); ([101], false)] /\
  ws_read [[39; 39; 32; 120; 13; 32; 92]] = Ok [([], false); ([120; 13], false)] /\
  (* "a\ <newline>b<newline>": the first line ends in a blank (quoted: it belongs to the argument), so it continues on the next *)
  ws_read [[97; 92]; [32; 10; 98; 10]] = Ok [([97; 32], false); ([98], true)] /\
  expected [([P 97; B 32], [10]); ([P 98], [10])] = [([97; 32], false); ([98], true)].
Proof. vm_compute. repeat split. Qed.
