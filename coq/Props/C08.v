(* C08 - find -exec ... {} +: each path delivered once, in order, within OS limits.
   [run execdir budget ok es] (Model/ExecMulti.v) is MultiExecMatcher driven by process_dir's loop over
   the entries [es] of one starting point, in visit order ([reached e]: the expression gets as far as
   the action on e).  [ok i]: does invocation number i succeed. *)
Require Import ExecMulti ExecMultiProofs ExecLimits ExecLimitsProofs.
From Coq Require Import List NArith Arith Bool.
Import ListNotations.

(* For every entry sequence in which each path fits into an otherwise empty command line:
   nothing is pending when find is done (also after -quit: the same code runs after the loop);
   the appended arguments of the invocations, concatenated, are exactly the entries on which the
   action was reached, in visit order; every invocation is within argmax's budget; with -execdir
   every invocation holds entries of a single directory and runs there; and the exit status is
   non-zero iff some invocation failed. *)
Theorem C08_run : forall execdir budget ok es,
  Forall (fun e => execdir = true -> eparent e <> None) es -> allfit budget es ->
  let s := run execdir budget ok es in
  cmd s = None /\
  concat (map snd (runs s)) = filter reached es /\
  Forall (fun r => (total (snd r) <= budget)%N) (runs s) /\
  (execdir = true -> Forall (fun r => Forall (fun e => eparent e = fst r) (snd r) /\ (snd r <> [] -> fst r <> None)) (runs s)) /\
  (failed s = true <-> exists i, (i < length (runs s))%nat /\ ok i = false).
Proof. exact run_spec. Qed.
Print Assumptions C08_run.

(* a batch within the budget MultiExecMatcher keeps (argmax's, less its own reserve) is a command line the kernel accepts
   (kernel model of ExecLimits.v, validated by the execve prober): program, fixed arguments, batch; whatever the
   environment, whatever file name within PATH_MAX the command is found under through PATH, and also when it is a "#!"
   script (the kernel then pushes the name a second time and the interpreter line, at most 256 bytes) *)
Theorem C08_budget_accepted : forall rl env prog fixed batch fn sb,
  (argmax_args batch <= find_budget (kernel_limit rl) env prog fixed)%N ->
  batch <> [] ->
  Forall (fun len => (len <= argmax_single)%N) (prog :: fixed ++ batch) ->
  Forall (fun len => (len + 1 <= MAX_ARG_STRLEN)%N) (env_strings env) ->
  (fn + 1 <= 4096)%N -> (sb <= 4096 + 256)%N ->
  kernel_accepts rl {| argv := prog :: fixed ++ batch; envp := env_strings env; fname := fn; shebang := sb |}.
Proof. exact find_batch_accepted. Qed.
Print Assumptions C08_budget_accepted.

(* CMD is only ever run on paths: no invocation consists of the fixed arguments alone - also when a path does not fit behind them *)
Theorem C08_no_empty_invocation : forall execdir budget ok es,
  Forall (fun r => snd r <> []) (runs (ExecMulti.run execdir budget ok es)).
Proof. exact run_never_empty. Qed.
Print Assumptions C08_no_empty_invocation.

(* "/" is run from "/" but is not one of the entries of "/": an entry that is its own directory is the only path of its
   invocation, whether it comes before the entries of that directory or (-depth) after them *)
Theorem C08_own_directory_alone : forall budget ok es,
  Forall (fun e => eparent e <> None) es ->
  Forall (fun r => forall e, In e (snd r) -> eown e = true -> snd r = [e]) (runs (ExecMulti.run true budget ok es)).
Proof. intros budget ok es H. exact (own_dir_alone true budget ok es eq_refl H). Qed.
Print Assumptions C08_own_directory_alone.

(* non-vacuity: -execdir over d1/{a,b}, d2/{c}; budget for two paths per invocation; then "/" itself after two of its entries (-depth) *)
Example C08_witness :
  let mk i p := {| eid := i; ecost := 12; esingle := true; eparent := Some p; reached := true; eown := false |} in
  let own i p := {| eid := i; ecost := 12; esingle := true; eparent := Some p; reached := true; eown := true |} in
  let s := run true 24 (fun i => negb (Nat.eqb i 1)) [mk 1%nat 1%nat; mk 2%nat 1%nat; mk 3%nat 1%nat; mk 4%nat 2%nat] in
  map (fun r => (fst r, map eid (snd r))) (runs s) = [(Some 1, [1; 2]); (Some 1, [3]); (Some 2, [4])]%nat /\ failed s = true /\ cmd s = None
  /\ map (fun r => (fst r, map eid (snd r))) (runs (run true 100 (fun _ => true) [mk 1%nat 1%nat; mk 2%nat 1%nat; own 3%nat 1%nat]))
     = [(Some 1, [1; 2]); (Some 1, [3])]%nat
  /\ map (fun r => (fst r, map eid (snd r))) (runs (run true 100 (fun _ => true) [own 3%nat 1%nat; mk 1%nat 1%nat; mk 2%nat 1%nat]))
     = [(Some 1, [3]); (Some 1, [1; 2])]%nat.
Proof. vm_compute. repeat split. Qed.
