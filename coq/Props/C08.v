(* C08 - find -exec ... {} +: each path delivered once, in order, within OS limits.
   [run execdir budget ok es] (Model/ExecMulti.v) is MultiExecMatcher driven by process_dir's loop over
   the entries [es] of one starting point, in visit order ([reached e]: the expression gets as far as
   the action on e).  [ok i]: does invocation number i succeed. *)
Require Import ExecMulti ExecMultiProofs ExecLimits ExecLimitsProofs.
From Coq Require Import List NArith Arith Bool.
Import ListNotations.

(* For every entry sequence in which each path fits into an otherwise empty command line:
   nothing is pending when find is done (also after -quit: the same code runs after the loop);
   the appended arguments of the invocations, concatenated, are exactly the entries on which the
   action was reached, in visit order; every invocation is within argmax's budget; with -execdir
   every invocation holds entries of a single directory and runs there; and the exit status is
   non-zero iff some invocation failed. *)
Theorem C08_run : forall execdir budget ok es,
  Forall (fun e => execdir = true -> eparent e <> None) es -> allfit budget es ->
  let s := run execdir budget ok es in
  cmd s = None /\
  concat (map snd (runs s)) = filter reached es /\
  Forall (fun r => (total (snd r) <= budget)%N) (runs s) /\
  (execdir = true -> Forall (fun r => Forall (fun e => eparent e = fst r) (snd r) /\ (snd r <> [] -> fst r <> None)) (runs s)) /\
  (failed s = true <-> exists i, (i < length (runs s))%nat /\ ok i = false).
Proof. exact run_spec. Qed.
Print Assumptions C08_run.

(* a batch within argmax's budget is a command line the kernel accepts (kernel model of ExecLimits.v,
   validated by the execve prober): program, fixed arguments, batch; whatever the environment *)
Theorem C08_budget_accepted : forall rl env prog fixed batch fn sb,
  (argmax_args batch <= argmax_budget (kernel_limit rl) env prog fixed)%N ->
  (0 < argmax_budget (kernel_limit rl) env prog fixed)%N \/ batch <> [] ->
  Forall (fun len => (len <= argmax_single)%N) (prog :: fixed ++ batch) ->
  Forall (fun len => (len + 1 <= MAX_ARG_STRLEN)%N) (env_strings env) ->
  (fn + 1 + sb <= 4096 + 2048)%N ->     (* argmax reserves one page and the POSIX headroom: a "#!" script with a long name goes beyond it (audits/TRIAGE.md D6) *)
  kernel_accepts rl {| argv := prog :: fixed ++ batch; envp := env_strings env; fname := fn; shebang := sb |}.
Proof. exact argmax_batch_accepted. Qed.
Print Assumptions C08_budget_accepted.

(* CMD is only ever run on paths: no invocation consists of the fixed arguments alone - also when a path does not fit behind them *)
Theorem C08_no_empty_invocation : forall execdir budget ok es,
  Forall (fun r => snd r <> []) (runs (ExecMulti.run execdir budget ok es)).
Proof. exact run_never_empty. Qed.
Print Assumptions C08_no_empty_invocation.

(* non-vacuity: -execdir over d1/{a,b}, d2/{c}; budget for two paths per invocation *)
Example C08_witness :
  let mk i p := {| eid := i; ecost := 12; esingle := true; eparent := Some p; reached := true |} in
  let s := run true 24 (fun i => negb (Nat.eqb i 1)) [mk 1%nat 1%nat; mk 2%nat 1%nat; mk 3%nat 1%nat; mk 4%nat 2%nat] in
  map (fun r => (fst r, map eid (snd r))) (runs s) = [(Some 1, [1; 2]); (Some 1, [3]); (Some 2, [4])]%nat /\ failed s = true /\ cmd s = None.
Proof. vm_compute. repeat split. Qed.
