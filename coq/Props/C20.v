(* C20 - xargs -I: one run per input line, every occurrence replaced by the whole line. *)
Require Import Batch BatchProofs XArgs XArgsProofs XArgsTop XReplace XReplaceProofs.
Require Import XRead XReadSpecProofs.
From Coq Require Import List NArith Arith Bool.
Import ListNotations.

(* -I forces max-args 1, and then every invocation carries exactly one input line, in order
   (the lines are the -d '\n' fields of C05_delim_verbatim: blanks inside a line do not split it). *)
Theorem C20_one_run_per_line : forall c tmpl args,
  charge_init (limiters0 c) (charged c) = Some tmpl -> c_n c = Some 1%N -> Forall noninit args -> args <> [] ->
  match process arg (list limiter) tmpl accf (fatalf c) (c_r c) tmpl [] false args [] with
  | Ran bs => bs = map (fun a => [a]) args
  | TooLarge bs => bs = map (fun a => [a]) (concat bs)
  end.
Proof. exact replace_one_run_per_line. Qed.
Print Assumptions C20_one_run_per_line.

(* Each line is run as soon as it has been read - one invocation per line, in order, holding that line alone - and a failure of the
   reader after some lines ([ie]: an unterminated quote, a read error) does not take their runs away: the invocations made are
   exactly the lines before it (up to the first fatal child outcome), the status is then 1. *)
Theorem C20_each_line_when_read : forall c tmpl args ie st, c_replace c = true ->
  Forall (fun a => exists ls', try_arg tmpl a = Acc ls') args ->
  process_x c tmpl tmpl [] false args ie st = finish_lines ie (exec_all c st (map (fun a => [a]) args)).
Proof. intros c tmpl args ie st H. exact (replace_eager c tmpl H args ie st). Qed.
Print Assumptions C20_each_line_when_read.

(* Every (leftmost, non-overlapping) occurrence of R is replaced by the line and all other text
   is unchanged: [Repl] is the declarative reading. *)
Theorem C20_replace_all : forall R line s, R <> [] -> Repl R line s (str_replace R line s).
Proof. exact str_replace_spec. Qed.
Print Assumptions C20_replace_all.

Theorem C20_unchanged_without_R : forall R line s, R <> [] ->
  (forall i, i < length s -> ~ occurs_at R s i) -> str_replace R line s = s.
Proof. exact str_replace_absent. Qed.
Print Assumptions C20_unchanged_without_R.

(* nothing is appended; the program name is not rewritten *)
Theorem C20_nothing_appended : forall R line cmd,
  length (replace_argv R line cmd) = length cmd /\ hd [] (replace_argv R line cmd) = hd [] cmd.
Proof. exact replace_argv_shape. Qed.
Print Assumptions C20_nothing_appended.

(* empty input: nothing is run, exit status 0 *)
Theorem C20_empty_input : forall c tmpl outs, charge_init (limiters0 c) (charged c) = Some tmpl ->
  c_replace c = true -> xargs_run c [] false outs = (0%N, []).
Proof. exact replace_empty_input. Qed.
Print Assumptions C20_empty_input.

(* -I, -n and -L in any number and order: the one given last is in force (a final -n 1 gives one argument per run whether or
   not an -I before it stays in force) *)
Theorem C20_last_option_wins : forall os,
  (forall k, normalize (os ++ [OL k]) = (None, Some k, false)) /\
  normalize (os ++ [OI]) = (Some 1%N, None, true) /\
  (forall k, k <> 1%N -> normalize (os ++ [ON k]) = (Some k, None, false)) /\
  (exists r, normalize (os ++ [ON 1%N]) = (Some 1%N, None, r)).
Proof. exact normalize_last. Qed.
Print Assumptions C20_last_option_wins.

(* -I with -n 1 is not a conflict: whichever comes last, -I is in force *)
Theorem C20_I_with_n1 : forall os,
  normalize (os ++ [OI; ON 1%N]) = (Some 1%N, None, true) /\ normalize (os ++ [ON 1%N; OI]) = (Some 1%N, None, true) /\
  normalize (os ++ [OI]) = (Some 1%N, None, true).
Proof. exact normalize_I_n1. Qed.
Print Assumptions C20_I_with_n1.

(* never two of them at once *)
Theorem C20_one_mode : forall os, one_mode (batch_mode os).
Proof. exact batch_mode_one_mode. Qed.
Print Assumptions C20_one_mode.

(* the reader under -I (XRead with whole lines): a non-empty line free of quotes and backslashes that does not begin with a
   blank is one argument, the entire line - blanks inside it do not split it - and it ends its line; an empty line is none *)
Theorem C20_entire_line : forall c line rest, is_ws c = false -> forallb line_char (c :: line) = true ->
  XRead.flat_next true (c :: line ++ 10 :: rest) = XRead.Ok (Some (c :: line, true, rest)).
Proof. exact whole_line_one_argument. Qed.
Print Assumptions C20_entire_line.

Theorem C20_empty_line : forall rest, XRead.flat_next true (10 :: rest) = XRead.flat_next true rest.
Proof. exact whole_line_empty. Qed.
Print Assumptions C20_empty_line.

(* non-vacuity: R = "{}", line "a b", argument "x{}y{}{" *)
Example C20_witness :
  str_replace [123; 125] [97; 32; 98] [120; 123; 125; 121; 123; 125; 123] = [120; 97; 32; 98; 121; 97; 32; 98; 123]
  /\ normalize [ON 3%N; OI; OL 2%N] = (None, Some 2%N, false)
  /\ normalize [OL 1%N; OI; ON 1%N] = (Some 1%N, None, true) /\ normalize [OI; ON 2%N; ON 1%N] = (Some 1%N, None, false).
Proof. vm_compute. repeat split; reflexivity. Qed.

(* What the limits are held against before any line is read: the command and the initial arguments without the replacement
   string (the lengths once an empty line is put in) - a template that is long only through its occurrences of R is not refused
   as too large; once a line is in, the command line is held against the limits again (C06_substituted_accepted). *)
Theorem C20_template_charged_without_R : forall c, c_replace c = true -> charged c = c_subst c 0.
Proof. intros c H. unfold charged. now rewrite H. Qed.
Print Assumptions C20_template_charged_without_R.
