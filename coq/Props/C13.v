(* C13 - find type/perm/owner/link tests are functions of the right stat record. *)
Require Import Tables TablesOk Entry EntryProofs Numeric NumericProofs.
From Coq Require Import List NArith Arith Bool.
Import ListNotations.

(* the record -type/-perm/-links/-inum/-uid/-gid/-size/-empty (and -printf) see: lstat under -P; stat,
   falling back to lstat for a dangling link, under -L; under -H stat for starting points only *)
Theorem C13_record : forall cfg depth v, coherent v -> seen cfg depth v = expected cfg depth v.
Proof. exact seen_is_expected. Qed.
Print Assumptions C13_record.

(* -xtype makes the opposite choice from -type *)
Theorem C13_xtype_opposite : forall cfg depth v, coherent v -> resolved_ok v -> v_stat v <> SErr ->
  seen_xtype cfg depth v = expected_xtype cfg depth v.
Proof. exact xtype_is_opposite. Qed.
Print Assumptions C13_xtype_opposite.

(* -lname sees a symbolic link only where the link itself is the entry *)
Theorem C13_lname_only_unresolved : forall cfg depth v, coherent v ->
  lname_applies cfg depth v = match seen cfg depth v with Some r => is_lnk (st_type r) | None => false end.
Proof. exact lname_only_unresolved. Qed.
Print Assumptions C13_lname_only_unresolved.

(* -perm MODE: the twelve permission bits equal MODE; -MODE: every bit of MODE is set; /MODE: some bit
   of MODE is set, or MODE is 0 *)
Theorem C13_perm_exact : forall pattern value, (pattern < 4096)%N ->
  (mode_bits_match Exact pattern value = true <-> forall i, (i < 12)%N -> N.testbit value i = N.testbit pattern i).
Proof. exact perm_exact. Qed.
Theorem C13_perm_all : forall pattern value,
  mode_bits_match AtLeast pattern value = true <-> forall i, N.testbit pattern i = true -> N.testbit value i = true.
Proof. exact perm_all_bits. Qed.
Theorem C13_perm_any : forall pattern value,
  mode_bits_match AnyOf pattern value = true <-> pattern = 0%N \/ exists i, N.testbit pattern i = true /\ N.testbit value i = true.
Proof. exact perm_any_bit. Qed.
Print Assumptions C13_perm_any.

(* the -type letters (table regenerated from type_matcher.rs) *)
Theorem C13_type_letters : type_letters = [(98, 3); (99, 4); (100, 1); (102, 0); (108, 2); (112, 5); (115, 6)].
Proof. exact type_letters_ok. Qed.
Print Assumptions C13_type_letters.

Example C13_witness :
  let lrec := {| st_type := TLnk; st_mode := 511; st_nlink := 1; st_ino := 1; st_uid := 0; st_gid := 0; st_size := 3; st_dev := 1 |} in
  let trec := {| st_type := TDir; st_mode := 493; st_nlink := 2; st_ino := 2; st_uid := 0; st_gid := 0; st_size := 64; st_dev := 1 |} in
  let v := {| v_lstat := lrec; v_stat := SOk trec |} in
  seen Never 1 v = Some lrec /\ seen Always 1 v = Some trec /\ seen Roots 0 v = Some trec /\ seen Roots 1 v = Some lrec /\
  seen_xtype Never 1 v = Some trec /\ lname_applies Always 1 v = false /\ lname_applies Never 1 v = true /\
  seen Always 3 {| v_lstat := lrec; v_stat := SNotFound |} = Some lrec /\ coherent v /\ resolved_ok v.
Proof. vm_compute. repeat split; try discriminate. intros r [= <-]. reflexivity. Qed.
