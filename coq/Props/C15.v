(* C15 - find time tests: whole elapsed periods, strict -newer, -newerXY uses X and Y. *)
Require Import Tables Numeric NumericProofs.
From Coq Require Import List NArith ZArith Bool Arith.
Import ListNotations.
Local Open Scope Z_scope.

(* -mtime/-atime/-ctime (period 86400 s) and -mmin/-amin/-cmin (period 60 s): for a timestamp not
   in the future the measured value is the number of complete periods in (now - timestamp), any
   fraction discarded; times in nanoseconds *)
Theorem C15_whole_periods : forall period now ts, 0 < period -> ts <= now ->
  age_units period now ts = (now - ts) / (period * 1000000000).
Proof. exact age_whole_periods. Qed.
Print Assumptions C15_whole_periods.

(* ... and the operand N / +N / -N is compared with it as in C14 *)
Theorem C15_age_test : forall period operand now ts c, 0 < period -> ts <= now ->
  parse_cv_plain operand = Some c ->
  age_test period operand now ts = Some (matches c (Z.to_N ((now - ts) / (period * 1000000000)))).
Proof. exact age_test_spec. Qed.
Print Assumptions C15_age_test.

(* a timestamp in the future (no period has elapsed): the measured value is negative, so N and +N
   are false and -N is true whatever N is *)
Theorem C15_future_value : forall period now ts, 0 < period -> now < ts ->
  age_units period now ts = - ((ts - now) / 1000000000 / period) - 1 /\ age_units period now ts < 0.
Proof. exact age_future. Qed.
Theorem C15_future_test : forall period operand now ts c, 0 < period -> now < ts ->
  parse_cv_plain operand = Some c ->
  age_test period operand now ts = Some (match c with LessThan _ => true | _ => false end).
Proof. exact age_test_future. Qed.
Print Assumptions C15_future_test.

(* for every clock, timestamp and N exactly one of -mtime N, -mtime +N, -mtime -N holds (C14's trichotomy on the signed age) *)
Theorem C15_age_trichotomy : forall n v,
  (imatches (EqualTo n) v = true /\ imatches (MoreThan n) v = false /\ imatches (LessThan n) v = false) \/
  (imatches (EqualTo n) v = false /\ imatches (MoreThan n) v = true /\ imatches (LessThan n) v = false) \/
  (imatches (EqualTo n) v = false /\ imatches (MoreThan n) v = false /\ imatches (LessThan n) v = true).
Proof. exact imatches_trichotomy. Qed.
Print Assumptions C15_age_trichotomy.

(* -newer / -newerXY: strictly later, at full resolution; which timestamps are compared (entry's X,
   reference file's Y) is fixed by the correspondence check *)
Theorem C15_newer_strict : forall e r, newer e r = true <-> r < e.
Proof. exact newer_strict. Qed.
Print Assumptions C15_newer_strict.

Example C15_witness :
  (* 3 days minus 1 ns old: -mtime 2 true, -mtime 3 false; exactly 3 days: -mtime 3 true, -mtime +2 true *)
  let day := 86400 * 1000000000 in
  age_test 86400 [50]%nat (10 * day) (7 * day + 1) = Some true /\ age_test 86400 [51]%nat (10 * day) (7 * day + 1) = Some false /\
  age_test 86400 [51]%nat (10 * day) (7 * day) = Some true /\ age_test 86400 [43; 50]%nat (10 * day) (7 * day) = Some true /\
  newer 5 5 = false /\ newer 6 5 = true.
Proof. vm_compute. repeat split. Qed.
