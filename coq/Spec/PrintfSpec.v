(* The documented -printf format language and its reference rendering. *)
Require Import Tables Printf.
From Coq Require Import List Arith Bool.
Import ListNotations.

Inductive item :=
| IChar (c : char)                              (* any character, copied verbatim; '%' is written %% and '\' is written \\ *)
| IEsc (l : char)                               (* \a \b \f \n \r \t \v : the letter l *)
| IOct (a b c : char)                           (* \NNN, three octal digits *)
| IFlush                                        (* \c *)
| IDir (d : char) (ds : list char) (j : justify).  (* %[-]WIDTHd : directive letter, width digits (possibly none), flag *)

Definition show_item (i : item) : list char :=
  match i with
  | IChar c => if c =? 37 then [37; 37] else if c =? 92 then [92; 92] else [c]
  | IEsc l => [92; l]
  | IOct a b c => [92; a; b; c]
  | IFlush => [92; 99]
  | IDir d ds j => [37] ++ (match j with JLeft => [45] | JRight => [] end) ++ ds ++ [d]
  end.
Definition show (l : list item) : list char := concat (map show_item l).

Definition width_ref (ds : list char) : option nat := match ds with [] => None | _ => Some (dec_val ds 0) end.
Definition render_item (value : char -> list char) (i : item) : list char :=
  match i with
  | IChar c => [c]
  | IEsc l => match assoc l printf_escapes with Some c => [c] | None => [] end
  | IOct a b c => oct_out a b c
  | IFlush => []
  | IDir d ds j => pad (width_ref ds) j (value d)
  end.
(* every item in turn; \c ends the output *)
Fixpoint render_ref (value : char -> list char) (l : list item) : list char :=
  match l with
  | [] => []
  | IFlush :: _ => []
  | i :: r => render_item value i ++ render_ref value r
  end.

Definition wf_item (i : item) : bool :=
  match i with
  | IChar _ => true
  | IEsc l => (match assoc l printf_escapes with Some _ => true | None => false end) && negb (is_octal l) && negb (l =? 99)
  | IOct a b c => is_octal a && is_octal b && is_octal c
  | IFlush => true
  | IDir d ds j => (match assoc d printf_directives with Some _ => true | None => false end) && negb (is_time_directive d)
                   && forallb is_digit ds && (length ds <=? 9)
  end.
