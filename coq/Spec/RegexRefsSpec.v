(* Declarative side of the back-reference check: a pattern as its structure - alternatives, each a sequence of atoms; an ratom is
   a group of alternatives, a back-reference or anything else - and, by recursion on that structure, which groups are complete
   at each point: a sequence passes on what it has completed; every alternative of a group starts from what was complete where
   the group began; a group that is closed is complete together with everything its alternatives completed.  This is GNU
   regex's rule (completed_bkref_map in glibc's parse_reg_exp / parse_sub_exp). *)
Require Import RegexRefs.
From Coq Require Import List Arith Bool.
Import ListNotations.

Inductive rseq := SNil | SCons (a : ratom) (s : rseq)
with ratom := AOth | ARef (n : nat) | AGrp (e : ralts)
with ralts := One (s : rseq) | More (s : rseq) (e : ralts).
Scheme seq_mut := Induction for rseq Sort Prop
with atom_mut := Induction for ratom Sort Prop
with alts_mut := Induction for ralts Sort Prop.
Combined Scheme refs_mutind from seq_mut, atom_mut, alts_mut.

Fixpoint toks_seq (s : rseq) : list rtok :=
  match s with SNil => [] | SCons a s' => toks_atom a ++ toks_seq s' end
with toks_atom (a : ratom) : list rtok :=
  match a with AOth => [TOther] | ARef n => [TRef n] | AGrp e => TOpen :: toks_alts e ++ [TClose] end
with toks_alts (e : ralts) : list rtok :=
  match e with One s => toks_seq s | More s e' => toks_seq s ++ TAlt :: toks_alts e' end.

(* (the number of the last group opened, the groups complete) after the piece; None: a reference to a group that is not complete *)
Fixpoint vseq (vis : list nat) (last : nat) (s : rseq) : option (nat * list nat) :=
  match s with
  | SNil => Some (last, vis)
  | SCons a s' => match vatom vis last a with Some (n, v) => vseq v n s' | None => None end
  end
with vatom (vis : list nat) (last : nat) (a : ratom) : option (nat * list nat) :=
  match a with
  | AOth => Some (last, vis)
  | ARef n => if ref_mem n vis then Some (last, vis) else None
  | AGrp e => match valts vis [] (S last) e with
              | Some (n, earlier, v) => Some (n, S last :: earlier ++ v)
              | None => None end
  end
with valts (began earlier : list nat) (last : nat) (e : ralts) : option (nat * list nat * list nat) :=
  match e with
  | One s => match vseq began last s with Some (n, v) => Some (n, earlier, v) | None => None end
  | More s e' => match vseq began last s with Some (n, v) => valts began (earlier ++ v) n e' | None => None end
  end.
Definition refs_valid (e : ralts) : bool := match valts [] [] 0 e with Some _ => true | None => false end.
