(* Declarative side of C05: what an xargs input "means".  An input is a sequence of words
   separated by blanks/newlines; a word is a sequence of pieces (plain character, quoted
   string, backslash-escaped character); its value is the pieces with the quoting removed. *)
Require Import XRead.
From Coq Require Import List Arith Bool.
Import ListNotations.

Inductive piece :=
| P (c : byte)                  (* a plain character *)
| Q (q : byte) (s : list byte)  (* 'text' or "text" *)
| B (c : byte).                 (* \c *)

Definition piece_ok (p : piece) : bool :=
  match p with
  | P c => negb (is_ws c) && negb (is_quote c) && negb (c =? 92)
  | Q q s => is_quote q && negb (existsb (Nat.eqb q) s) && negb (existsb (Nat.eqb 10) s)      (* a quoted string lies within one line *)
  | B _ => true
  end.
Definition render_piece (p : piece) : list byte :=
  match p with P c => [c] | Q q s => q :: s ++ [q] | B c => [92; c] end.
Definition value_piece (p : piece) : list byte :=
  match p with P c => [c] | Q _ s => s | B c => [c] end.
Definition word := list piece.
Definition render_word (w : word) := concat (map render_piece w).
Definition value_word (w : word) := concat (map value_piece w).
(* a word: at least one well-formed piece; its value may be empty ('' and "" are arguments) *)
Definition good_word (w : word) : bool := forallb piece_ok w && nonempty w.

Definition all_ws (s : list byte) : bool := forallb is_ws s.
Definition hard_of (s : list byte) : bool := match s with c :: _ => c =? 10 | [] => false end.

(* an input: optional leading separators, then words each followed by its separators;
   every separator run but the last must be non-empty *)
Definition item := (word * list byte)%type.
Fixpoint items_ok (l : list item) : bool :=
  match l with
  | [] => true
  | [(w, s)] => good_word w && all_ws s
  | (w, s) :: l' => good_word w && all_ws s && nonempty s && items_ok l'
  end.
Definition render_items (l : list item) : list byte :=
  concat (map (fun it => render_word (fst it) ++ snd it) l).
(* a word ends its input line when the separator after it begins with a newline - unless the last character of the line is a
   blank: one quoted by a backslash belongs to the word, and the line still continues on the next one *)
Definition eb_piece (p : piece) : bool := match p with B c => is_blank c | _ => false end.
Definition eb_word (eb : bool) (w : word) : bool := fold_left (fun _ p => eb_piece p) w eb.
Definition hard_item (it : item) : bool := hard_of (snd it) && negb (eb_word false (fst it)).
Definition expected (l : list item) : list (list byte * bool) :=
  map (fun it => (value_word (fst it), hard_item it)) l.

(* reference splitter for -0 / -d *)
Fixpoint split_on (d : byte) (cur : list byte) (data : list byte) : list (list byte) :=
  match data with
  | [] => [cur]
  | c :: data' => if c =? d then cur :: split_on d [] data' else split_on d (cur ++ [c]) data'
  end.
Definition fields (d : byte) (data : list byte) : list (list byte) :=
  filter nonempty (split_on d [] data).
