(* Glob patterns as structured objects, their concrete spelling, and their meaning as a sequence of
   one-character tests and "anything" - the reference against which the text-level pipeline
   (glob_to_regex, then Oniguruma's reading of the regex text) is proved. *)
Require Import GlobEngine Glob.
From Coq Require Import List Arith Bool.
Import ListNotations.

Inductive gitem :=
| GLit (c : nat)                          (* an ordinary character *)
| GEsc (c : nat)                          (* backslash + character: the character itself *)
| GAny                                    (* ? *)
| GStar                                   (* * *)
| GBr (neg : bool) (items : list bitem).  (* [items] or [!items] *)

Definition class_name (k : nat) : list nat := nth k (map fst class_names) [].

Definition show_bitem (b : bitem) : list nat :=
  match b with
  | BChar c => [c]
  | BRange lo hi => [lo; ch_minus; hi]
  | BClass k => [ch_lb; ch_colon] ++ class_name k ++ [ch_colon; ch_rb]
  end.
Definition show_body (items : list bitem) : list nat := concat (map show_bitem items).
Definition show_item (g : gitem) : list nat :=
  match g with
  | GLit c => [c]
  | GEsc c => [ch_bs; c]
  | GAny => [ch_q]
  | GStar => [ch_star]
  | GBr neg items => [ch_lb] ++ (if neg then [ch_bang] else []) ++ show_body items ++ [ch_rb]
  end.
Definition show (g : list gitem) : list nat := concat (map show_item g).

(* the regex text glob_to_regex is expected to produce *)
Definition tr_item (g : gitem) : list nat :=
  match g with
  | GLit c | GEsc c => push_literal c
  | GAny => [ch_dot]
  | GStar => [ch_dot; ch_star]
  | GBr neg items => [ch_lb] ++ (if neg then [ch_caret] else []) ++ show_body items ++ [ch_rb]
  end.
Definition tr (g : list gitem) : list nat := concat (map tr_item g).

(* the meaning: one test per item *)
Definition sem_item (ci : bool) (g : gitem) : ritem :=
  match g with
  | GLit c | GEsc c => RSingle (ci_eq ci c)
  | GAny => RSingle (fun _ => true)
  | GStar => RStar
  | GBr neg items => RSingle (cc_pred ci neg items)
  end.
Definition sem (ci : bool) (g : list gitem) : re := map (sem_item ci) g.

(* well-formedness: what the property calls literals, escapes, wildcards and well-formed bracket expressions *)
Definition plain_in_bracket (c : nat) : bool :=
  negb (c =? ch_rb) && negb (c =? ch_lb) && negb (c =? ch_minus) && negb (c =? ch_bs).
Definition wf_bitem (b : bitem) : bool :=
  match b with
  | BChar c => plain_in_bracket c
  | BRange lo hi => plain_in_bracket lo && plain_in_bracket hi && (lo <=? hi)
  | BClass k => (k <? 12) && negb (k =? 7) && negb (k =? 1)   (* the POSIX names; [:punct:] and [:digit:] are spelled out by the translation: validated, not in this theorem *)
  end.
Definition first_char (items : list bitem) : option nat :=
  match items with [] => None | b :: _ => hd_error (show_bitem b) end.
(* a "]" may be a member when it stands first, a "-" when it stands last (or first): the list is an optional "]", well-formed
   items, an optional "-" *)
Definition strip_first_rb (items : list bitem) : bool * list bitem :=
  match items with
  | BChar c :: r => if c =? ch_rb then (true, r) else (false, items)
  | _ => (false, items)
  end.
Definition strip_last_minus (items : list bitem) : bool * list bitem :=
  match rev items with
  | BChar c :: r => if c =? ch_minus then (true, rev r) else (false, items)
  | _ => (false, items)
  end.
Definition wf_item (g : gitem) : bool :=
  match g with
  | GLit c => negb (c =? ch_q) && negb (c =? ch_star) && negb (c =? ch_bs) && negb (c =? ch_lb)
  | GEsc _ | GAny | GStar => true
  | GBr neg items =>
      forallb wf_bitem (snd (strip_last_minus (snd (strip_first_rb items)))) &&
      match first_char items with
      | None => false                                   (* an empty bracket is not a bracket expression *)
      | Some c => neg || (negb (c =? ch_bang) && negb (c =? ch_caret))
      end
  end.
