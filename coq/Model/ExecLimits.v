(* What Linux accepts at execve (fs/exec.c: bprm_stack_limits, copy_strings), as validated by the
   execve prober on every run of C06, and the budgets xargs and argmax (find -exec +) compute.
   Lengths are string lengths without the terminating NUL.  Definitions only. *)
From Coq Require Import NArith List.
Import ListNotations.
Open Scope N_scope.

Definition MAX_ARG_STRLEN : N := 131072.
Definition kernel_limit (rlimit_stack : N) : N := N.max (N.min (rlimit_stack / 4) 6291456) 131072.
Definition strings (l : list N) : N := fold_right (fun len s => len + 1 + s) 0 l.
(* [fname]: the file name execve is given; [shebang]: what the kernel pushes besides when that file is a "#!" script - the file name
   a second time (with its NUL) and the interpreter line, in place of argv[0] - 0 for a binary (fs/binfmt_script.c; the argv[0] it
   removes is not credited here, so the rule errs on the side of refusing) *)
Record execve_call := { argv : list N; envp : list N; fname : N; shebang : N }.
Definition kernel_accepts (rl : N) (c : execve_call) : Prop :=
  Forall (fun len => len + 1 <= MAX_ARG_STRLEN) (argv c ++ envp c) /\
  strings (argv c) + strings (envp c) + (fname c + 1) + shebang c + 8 * (N.of_nat (length (argv c)) + N.of_nat (length (envp c))) + 16
    <= kernel_limit rl.
(* executable form, for the prober *)
Definition kernel_accepts_b (rl : N) (c : execve_call) : bool :=
  forallb (fun len => len + 1 <=? MAX_ARG_STRLEN) (argv c ++ envp c) &&
  (strings (argv c) + strings (envp c) + (fname c + 1) + shebang c + 8 * (N.of_nat (length (argv c)) + N.of_nat (length (envp c))) + 16
    <=? kernel_limit rl).

Definition env_strings (env : list (N * N)) : list N := map (fun kv => fst kv + 1 + snd kv) env.   (* "k=v" *)

(* argmax 0.3.1 (unix.rs): available_argument_length for the program, then try_args(fixed) *)
Definition argmax_env (env : list (N * N)) : N := fold_right (fun kv s => 8 + fst kv + 1 + snd kv + 1 + s) 0 env.
Definition argmax_arg (len : N) : N := 8 + len + 1.
Definition argmax_args (l : list N) : N := fold_right (fun len s => argmax_arg len + s) 0 l.
Definition argmax_budget (arg_max : N) (env : list (N * N)) (prog : N) (fixed : list N) : N :=
  arg_max - (argmax_env env + 8 + argmax_arg prog + 8 + 4096 + 2048) - argmax_args fixed.
(* MultiExecMatcher (exec.rs) adds a path only while a reserve of FILE_NAME_MAX - ARGMAX_SLACK bytes would still fit as one
   more argument: room for what the kernel charges for the file name and a "#!" line beyond argmax's own slack *)
Definition find_reserve : N := 2 * 4096 + 256 - (4096 + 2048).
Definition find_budget (arg_max : N) (env : list (N * N)) (prog : N) (fixed : list N) : N :=
  argmax_budget arg_max env prog fixed - argmax_arg find_reserve.
Definition argmax_single : N := 131071.      (* arg.len() > 32 * PAGE_SIZE - 1 is refused *)
