(* Model of MultiExecMatcher (src/find/matchers/exec.rs) with argmax::Command's accounting and of
   process_dir's current_dir bookkeeping (src/find/mod.rs), for one starting point.  Definitions only. *)
From Coq Require Import List NArith Arith Bool.
Import ListNotations.

Definition dir := nat.
(* an entry as the loop in process_dir sees it: identity, the size argmax charges for the path
   handed to the command (8 + length + 1), whether that path is within the single-argument bound
   (32 pages - 1), its parent directory, and whether the expression reaches the action on it *)
Record entry := { eid : nat; ecost : N; esingle : bool; eparent : option dir; reached : bool;
                  eown : bool   (* the entry is the directory -execdir runs it from: "/" *) }.

Record st := {
  current_dir : option dir;               (* process_dir's current_dir *)
  cmd : option (list entry * N);          (* the pending argmax::Command: appended entries, remaining budget *)
  runs : list (option dir * list entry);  (* invocations so far: working directory (None = unchanged), appended entries *)
  failed : bool                           (* an invocation failed, or an argument did not fit at all *)
}.

Section M.
Variable execdir : bool.
Variable budget : N.                       (* available_argument_length minus the fixed arguments *)
Variable ok : nat -> bool.                 (* does invocation number i succeed *)

Definition opt_eqb (a b : option dir) : bool :=
  match a, b with Some x, Some y => x =? y | None, None => true | _, _ => false end.

Definition run_cmd (cwd : option dir) (b : list entry) (s : st) : st :=
  {| current_dir := current_dir s; cmd := None; runs := runs s ++ [(cwd, b)];
     failed := failed s || negb (ok (length (runs s))) |}.

(* a command line that holds no path is not run (005b5df) *)
Definition run_batch (cwd : option dir) (b : list entry) (s : st) : st :=
  match b with
  | [] => {| current_dir := current_dir s; cmd := None; runs := runs s; failed := failed s |}
  | _ => run_cmd cwd b s
  end.

Definition fits (e : entry) (remaining : N) : bool := esingle e && (ecost e <=? remaining)%N.

(* MultiExecMatcher::matches *)
Definition matches (e : entry) (s : st) : st :=
  let '(b, rem) := match cmd s with Some c => c | None => ([], budget) end in
  if fits e rem then
    {| current_dir := current_dir s; cmd := Some (b ++ [e], (rem - ecost e)%N); runs := runs s; failed := failed s |}
  else
    let s1 := run_batch (if execdir then eparent e else None) b s in
    if fits e budget then
      {| current_dir := current_dir s1; cmd := Some ([e], (budget - ecost e)%N); runs := runs s1; failed := failed s1 |}
    else  (* "Cannot fit a single argument": dropped, exit status 1, an empty command stays pending (and is never run) *)
      {| current_dir := current_dir s1; cmd := Some ([], budget); runs := runs s1; failed := true |}.

(* finished_dir(dir) for -execdir, finished() for -exec *)
Definition finished_dir (d : dir) (s : st) : st :=
  if execdir then match cmd s with Some (b, _) => run_batch (Some d) b s | None => s end else s.
Definition finished (s : st) : st :=
  if execdir then s else match cmd s with Some (b, _) => run_batch None b s | None => s end.

(* one iteration of process_dir's loop; an entry that is its own directory ("/": run from itself, but not one of its own
   entries) is kept apart from the entries of that directory, whichever comes first (-depth: "/" comes last) *)
Definition flush_dir (s : st) : st := match current_dir s with Some d => finished_dir d s | None => s end.
Definition set_dir (d : option dir) (s : st) : st := {| current_dir := d; cmd := cmd s; runs := runs s; failed := failed s |}.
Definition step (s : st) (e : entry) : st :=
  let s1 := if opt_eqb (eparent e) (current_dir s) && negb (eown e) then s
            else set_dir (eparent e) (flush_dir s) in
  let s2 := if reached e then matches e s1 else s1 in
  if eown e then set_dir None (flush_dir s2) else s2.

(* after the loop (also after -quit): finished_dir(current_dir), then finished() *)
Definition finish (s : st) : st := finished (flush_dir s).

Definition st0 : st := {| current_dir := None; cmd := None; runs := []; failed := false |}.
Definition run (es : list entry) : st := finish (fold_left step es st0).
End M.
