(* Model of src/xargs/mod.rs: WhitespaceDelimitedArgumentReader::next and
   ByteDelimitedArgumentReader::next (definitions only; proofs are in Proofs/XReadProofs.v). *)
From Coq Require Import List Arith Bool.
Import ListNotations.

Definition byte := nat.
Inductive esc := ENone | ESlash | EQuote (q : byte).
(* the separators of default mode: blank (space, tab) and newline *)
Definition is_ws (c : byte) : bool := (c =? 32) || (c =? 9) || (c =? 10).
Definition is_quote (c : byte) : bool := (c =? 34) || (c =? 39).
Definition nonempty {A} (l : list A) := match l with [] => false | _ => true end.

Inductive scan_res :=
| Done (tok : list byte) (hard : bool) (rest : list byte)
| NeedMore (e : esc) (acc : list byte) (inarg : bool) (eb : bool)
| Fail.                                        (* a quoted string that runs over the end of its line *)

Definition is_blank (c : byte) : bool := (c =? 32) || (c =? 9).

Inductive res (A : Type) := Ok (a : A) | Err.
Arguments Ok {A}. Arguments Err {A}.

Section Reader.
(* [wl]: the reader of -I - an argument is a whole line: quotes, backslashes and the blanks before the first character are
   treated as usual, but a blank inside the line does not end the argument *)
Variable wl : bool.

(* the match over (escape, pending[i]) over one buffer; [ia] is in_argument: a quote was opened or a byte was pushed;
   [eb]: the byte just taken was a blank quoted by a backslash - a line ending in a blank continues on the next one *)
Fixpoint scan (e : esc) (acc : list byte) (ia eb : bool) (buf : list byte) : scan_res :=
  match buf with
  | [] => NeedMore e acc ia eb
  | c :: buf' =>
      match e with
      | EQuote q => if c =? q then scan ENone acc true false buf'
                    else if c =? 10 then Fail
                    else scan e (acc ++ [c]) true false buf'
      | ESlash => scan ENone (acc ++ [c]) true (is_blank c) buf'
      | ENone =>
          if is_quote c then scan (EQuote c) acc true false buf'
          else if c =? 92 then scan ESlash acc ia false buf'
          else if is_ws c && negb (wl && ia && negb (c =? 10))
          then (if ia then Done acc ((c =? 10) && negb eb) buf' else scan ENone acc ia false buf')
          else scan ENone (acc ++ [c]) true false buf'
      end
  end.

(* refill loop: each element of [chunks] is what one read() returned; [] = end of file *)
Fixpoint refill (e : esc) (acc : list byte) (ia eb : bool) (chunks : list (list byte))
  : res (option (list byte * bool * list byte * list (list byte))) :=
  match chunks with
  | [] => match e with
          | EQuote _ => Err
          | _ => if ia then Ok (Some (acc, false, [], [])) else Ok None
          end
  | c :: cs => match scan e acc ia eb c with
               | Done t h rest => Ok (Some (t, h, rest, cs))
               | NeedMore e' acc' ia' eb' => refill e' acc' ia' eb' cs
               | Fail => Err
               end
  end.

Definition next (pending : list byte) (chunks : list (list byte)) :=
  match scan ENone [] false false pending with
  | Done t h rest => Ok (Some (t, h, rest, chunks))
  | NeedMore e acc ia eb => refill e acc ia eb chunks
  | Fail => Err
  end.

(* the same reader over the whole input as one flat byte string *)
Definition flat_next (data : list byte) : res (option (list byte * bool * list byte)) :=
  match scan ENone [] false false data with
  | Done t h rest => Ok (Some (t, h, rest))
  | NeedMore e acc ia _ => match e with
                         | EQuote _ => Err
                         | _ => if ia then Ok (Some (acc, false, [])) else Ok None
                         end
  | Fail => Err
  end.

(* iterate to the end of input *)
Fixpoint read_all (fuel : nat) (pending : list byte) (chunks : list (list byte)) : res (list (list byte * bool)) :=
  match fuel with 0 => Err | S f =>
  match next pending chunks with
  | Err => Err
  | Ok None => Ok []
  | Ok (Some (t, h, p, cs)) => match read_all f p cs with Ok l => Ok ((t, h) :: l) | Err => Err end
  end end.
Fixpoint flat_all (fuel : nat) (data : list byte) : res (list (list byte * bool)) :=
  match fuel with 0 => Err | S f =>
  match flat_next data with
  | Err => Err
  | Ok None => Ok []
  | Ok (Some (t, h, rest)) => match flat_all f rest with Ok l => Ok ((t, h) :: l) | Err => Err end
  end end.

(* entry point used by the correspondence check: enough fuel for any input *)
Definition ws_read (chunks : list (list byte)) : res (list (list byte * bool)) :=
  read_all (S (S (length (concat chunks)))) [] chunks.

End Reader.

(* ---- ByteDelimitedArgumentReader ---- *)
(* BufRead::read_until: the bytes up to and including the first delimiter, or everything *)
Fixpoint read_until (d : byte) (data : list byte) : list byte * list byte :=
  match data with
  | [] => ([], [])
  | c :: data' => if c =? d then ([c], data')
                  else let '(f, rest) := read_until d data' in (c :: f, rest)
  end.

(* next() iterated to end of input; also parse_files0_args' splitting *)
Fixpoint bd_all (fuel : nat) (d : byte) (data : list byte) : list (list byte) :=
  match fuel with 0 => [] | S f =>
  match data with
  | [] => []
  | _ => let '(field, rest) := read_until d data in
         let tok := if (last field (S d) =? d) then removelast field else field in
         match tok with
         | [] => bd_all f d rest            (* only a delimiter: try again *)
         | _ => tok :: bd_all f d rest
         end
  end end.

Definition bd_read (d : byte) (chunks : list (list byte)) : list (list byte) :=
  bd_all (S (length (concat chunks))) d (concat chunks).
