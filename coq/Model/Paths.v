(* How find forms the paths it reports, its starting points, and -files0-from.  Definitions only. *)
Require Import PathModel.
From Coq Require Import List Arith Bool.
Import ListNotations.

(* walkdir: the path of a child is parent.join(name) *)
Definition entry_path (root : str) (names : list str) : str := fold_left PathModel.join names root.
(* Printer: the path then the delimiter (newline or NUL); nothing escaped or added *)
Definition print_with (d : nat) (p : str) : str := p ++ [d].

(* parse_args: leading -H/-L/-P/-O* flags and "--", then operands up to the first token that starts
   the expression; no operand means "." *)
Definition starts_with_dash (s : str) : bool := match s with c :: _ => c =? 45 | [] => false end.
Definition is_operand (s : str) : bool :=
  (str_eqb s [45] || negb (starts_with_dash s)) && negb (str_eqb s [33]) && negb (str_eqb s [40]).
Fixpoint take_operands (args : list str) : list str * list str :=
  match args with
  | a :: rest => if is_operand a then let '(ps, e) := take_operands rest in (a :: ps, e) else ([], args)
  | [] => ([], [])
  end.
Definition starting_points (args : list str) : list str * list str :=
  let '(ps, e) := take_operands args in (match ps with [] => [[46]] | _ => ps end, e).

(* parse_files0_args: split at NUL, drop one final empty field, drop (and diagnose) empty names *)
Fixpoint split_on (d : nat) (cur : str) (data : str) : list str :=
  match data with
  | [] => [cur]
  | c :: data' => if c =? d then cur :: split_on d [] data' else split_on d (cur ++ [c]) data'
  end.
Definition nonempty (s : str) : bool := match s with [] => false | _ => true end.
Definition files0_names (data : str) : list str * bool :=
  let fs := split_on 0 [] data in
  let fs := match rev fs with [] :: r => rev r | _ => fs end in
  (filter nonempty fs, existsb (fun s => negb (nonempty s)) fs).      (* names, "invalid zero-length file name" diagnosed *)

(* ---- NameMatcher::matches (name.rs): the subject of -name/-iname is the last component of the path as
   spelled - trailing slashes ignored, "." and ".." count, a path of slashes only is "/" ---- *)
Fixpoint trim_sl_rev (r : str) : str :=
  match r with c :: r' => if c =? SL then trim_sl_rev r' else r | [] => [] end.
Definition trim_end_sl (s : str) : str := rev (trim_sl_rev (rev s)).
Fixpoint last_seg (s cur : str) : str :=
  match s with [] => cur | c :: s' => if c =? SL then last_seg s' [] else last_seg s' (cur ++ [c]) end.
Definition name_subject (path : str) : str :=
  match trim_end_sl path, path with
  | [], _ :: _ => [SL]
  | t, _ => last_seg t []
  end.
