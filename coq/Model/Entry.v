(* Model of WalkEntry (src/find/matchers/entry.rs) and Follow (matchers/mod.rs): which status record a
   test sees, per follow mode and depth.  The operating system's view of a path is an oracle:
   the lstat record and the result of stat.  Definitions only. *)
From Coq Require Import List NArith Arith Bool.
Import ListNotations.

Inductive ftype := TReg | TDir | TLnk | TBlk | TChr | TFifo | TSock.
Record statrec := { st_type : ftype; st_mode : N; st_nlink : N; st_ino : N; st_uid : N; st_gid : N; st_size : N; st_dev : N }.
Inductive stat_res := SOk (r : statrec) | SNotFound | SErr.
Record osview := { v_lstat : statrec; v_stat : stat_res }.        (* lstat succeeded (the entry exists) *)

Inductive follow := Never | Roots | Always.
Definition follow_at_depth (f : follow) (depth : nat) : bool :=
  match f with Never => false | Roots => depth =? 0 | Always => true end.
Definition is_lnk (t : ftype) : bool := match t with TLnk => true | _ => false end.

(* Follow::metadata_at_depth: stat when following, falling back to lstat when the target does not exist *)
Definition metadata_at_depth (f : follow) (depth : nat) (v : osview) : option statrec :=
  if follow_at_depth f depth then
    match v_stat v with
    | SOk r => Some r
    | SNotFound => Some (v_lstat v)
    | SErr => None
    end
  else Some (v_lstat v).

(* how from_walkdir represents the entry *)
Inductive inner :=
| Explicit (f : follow) (cached : option statrec)     (* Entry::Explicit with its own follow flag and possibly cached metadata *)
| WalkDirEnt (follow_link : bool).                    (* Entry::WalkDir: walkdir's DirEntry, follow_link set when it followed a link *)

(* the entry the walk produces for a path at [depth] in mode [f]; None = walkdir reports an error instead *)
Definition from_walkdir (f : follow) (depth : nat) (v : osview) : option inner :=
  if (depth =? 0) && negb (match f with Never => true | _ => false end) then
    (* walkdir: root symlinks are resolved with fs::metadata when follow_root_links; an error other than
       not-found is reported; not-found becomes an Explicit entry with Follow::Never and the lstat record *)
    if is_lnk (st_type (v_lstat v)) then
      match v_stat v with
      | SOk _ => Some (Explicit f None)
      | SNotFound => Some (Explicit Never (Some (v_lstat v)))
      | SErr => None
      end
    else Some (Explicit f None)
  else
    match f with
    | Always =>
        if is_lnk (st_type (v_lstat v)) then
          match v_stat v with
          | SOk _ => Some (WalkDirEnt true)
          | SNotFound => Some (Explicit Never (Some (v_lstat v)))
          | SErr => None
          end
        else Some (WalkDirEnt false)
    | _ => Some (WalkDirEnt false)
    end.

(* WalkEntry::metadata *)
Definition entry_metadata (i : inner) (depth : nat) (v : osview) : option statrec :=
  match i with
  | Explicit f (Some r) => Some r
  | Explicit f None => metadata_at_depth f depth v
  | WalkDirEnt true => match v_stat v with SOk r => Some r | _ => None end
  | WalkDirEnt false => Some (v_lstat v)
  end.
(* WalkEntry::follow: the entry's own flag *)
Definition entry_follow (cfg : follow) (i : inner) (depth : nat) : bool :=
  match i with Explicit f _ => follow_at_depth f depth | WalkDirEnt _ => follow_at_depth cfg depth end.
(* WalkEntry::file_type *)
Definition entry_type (i : inner) (depth : nat) (v : osview) : option ftype :=
  match i with
  | Explicit _ _ => option_map st_type (entry_metadata i depth v)
  | WalkDirEnt true => match v_stat v with SOk r => Some (st_type r) | _ => None end
  | WalkDirEnt false => Some (st_type (v_lstat v))
  end.

(* Follow::metadata(entry): re-use the cached record in three cases, else look again *)
Definition follow_metadata (f : follow) (cfg : follow) (i : inner) (depth : nat) (v : osview) : option statrec :=
  let ef := entry_follow cfg i depth in
  let lnk := match entry_type i depth v with Some t => is_lnk t | None => false end in
  if Bool.eqb (follow_at_depth f depth) ef then entry_metadata i depth v
  else if negb ef && negb lnk then entry_metadata i depth v
  else if ef && lnk then entry_metadata i depth v
  else metadata_at_depth f depth v.

(* the record -type, -perm, -links, -inum, -uid, -gid, -size, the time tests and -printf see *)
Definition seen (cfg : follow) (depth : nat) (v : osview) : option statrec :=
  match from_walkdir cfg depth v with Some i => entry_metadata i depth v | None => None end.
(* -xtype: the opposite choice *)
Definition seen_xtype (cfg : follow) (depth : nat) (v : osview) : option statrec :=
  match from_walkdir cfg depth v with
  | Some i => follow_metadata (if entry_follow cfg i depth then Never else Always) cfg i depth v
  | None => None
  end.
(* -lname looks at the link text only when the entry itself is a link *)
Definition lname_applies (cfg : follow) (depth : nat) (v : osview) : bool :=
  match from_walkdir cfg depth v with
  | Some i => match entry_type i depth v with Some t => is_lnk t | None => false end
  | None => false
  end.

(* ---- reference: the record the property names ---- *)
Definition expected (cfg : follow) (depth : nat) (v : osview) : option statrec :=
  let resolve := match v_stat v with SOk r => Some r | SNotFound => Some (v_lstat v) | SErr => None end in
  match cfg with
  | Never => Some (v_lstat v)
  | Always => resolve
  | Roots => if depth =? 0 then resolve else Some (v_lstat v)
  end.
Definition expected_xtype (cfg : follow) (depth : nat) (v : osview) : option statrec :=
  let resolve := match v_stat v with SOk r => Some r | SNotFound => Some (v_lstat v) | SErr => None end in
  match cfg with
  | Never => resolve
  | Always => Some (v_lstat v)
  | Roots => if depth =? 0 then Some (v_lstat v) else resolve
  end.
(* the oracle hypothesis: for anything that is not a symbolic link, stat and lstat agree *)
Definition coherent (v : osview) : Prop := is_lnk (st_type (v_lstat v)) = false -> v_stat v = SOk (v_lstat v).
(* and the target of a resolvable link is not itself a link *)
Definition resolved_ok (v : osview) : Prop := forall r, v_stat v = SOk r -> is_lnk (st_type r) = false.

(* -printf %l (format_directive, SymlinkTarget): file_type().is_symlink() decides, as for -lname *)
Definition printf_l_applies := lname_applies.
