(* The tree a follow mode makes of a directory GRAPH.
   Under -L a link to a directory is a directory, so what find walks is a graph of directory identities
   (device, inode) that may contain cycles; find (process_dir's [ancestors] stack, src/find/mod.rs) refuses
   to enter a directory whose identity is that of one of the directories between the starting point and
   itself, and -xdev refuses to enter a directory on another device than the starting point.
   [unfold] is that cut as a recursive function; [anc_run] is the stack process_dir keeps while the
   pre-order stream of entries goes by.  Model/Walk.v then walks the finite tree [erase] makes of it. *)
From Coq Require Import List Arith Bool Lia.
Import ListNotations.
Require Import Walk.
Set Implicit Arguments.

Definition ident := nat.

(* what a directory entry is, after the follow mode has chosen which status record counts *)
Inductive gent :=
| GFile                       (* not a directory *)
| GDang                       (* dangling link under a follow mode *)
| GBad                        (* cannot be examined *)
| GDir (id : ident) (dev : nat).

(* identity -> listing; None = the directory cannot be read *)
Definition graph := list (ident * option (list (name * gent))).

Fixpoint listing (g : graph) (id : ident) : option (list (name * gent)) :=
  match g with
  | [] => Some []
  | (i, l) :: g' => if i =? id then l else listing g' id
  end.

(* the unfolded tree, with the identities still on it *)
Inductive inode :=
| IL | IG | IB
| ILoop (id : ident)                        (* its own ancestor: diagnosed, not entered *)
| IX (id : ident)                           (* another device under -xdev: an entry, not entered *)
| ID (id : ident) (ch : list (name * inode)).

Fixpoint erase (t : inode) : node :=
  match t with
  | IL => Leaf | IG => Dang | IB => Bad
  | ILoop _ => Bad
  | IX _ => Dir []
  | ID _ ch => Dir (map (fun x => (fst x, erase (snd x))) ch)
  end.

Fixpoint map_opt {A B} (f : A -> option B) (l : list A) : option (list B) :=
  match l with
  | [] => Some []
  | x :: l' => match f x, map_opt f l' with
               | Some y, Some ys => Some (y :: ys)
               | _, _ => None
               end
  end.

Section U.
Variable g : graph.
Variable loopcheck : bool.      (* -L *)
Variable xdev : bool.
Variable rootdev : nat.

(* None = out of fuel (never, when the fuel exceeds the number of identities: unfold_total) *)
Fixpoint unfold (fuel : nat) (anc : list ident) (top : bool) (e : gent) : option inode :=
  match e with
  | GFile => Some IL
  | GDang => Some IG
  | GBad => Some IB
  | GDir id dev =>
      if loopcheck && existsb (Nat.eqb id) anc then Some (ILoop id)
      else if xdev && negb top && negb (dev =? rootdev) then Some (IX id)
      else match listing g id with
           | None => Some (ID id [(0, IB)])       (* a directory that cannot be read is an entry like any other; what fails is reading it (one
                                                      diagnostic, made when the walk goes in: not at the depth bound, not when it is pruned) *)
           | Some ch =>
               match fuel with
               | 0 => None
               | S f =>
                   match map_opt (fun x => match unfold f (id :: anc) false (snd x) with
                                           | Some t => Some (fst x, t)
                                           | None => None
                                           end) ch with
                   | Some l => Some (ID id l)
                   | None => None
                   end
               end
           end
  end.
End U.

(* ---------- the stack process_dir keeps ---------- *)
(* the pre-order stream: depth and, for a directory, its identity *)
Definition pev := (nat * option ident)%type.
Inductive verdict := VOther | VEnter | VLoop.

Fixpoint pop_to (st : list (nat * ident)) (d : nat) : list (nat * ident) :=
  match st with
  | (d', i) :: st' => if d <=? d' then pop_to st' d else st
  | [] => []
  end.

Definition anc_step (st : list (nat * ident)) (e : pev) : list (nat * ident) * verdict :=
  match e with
  | (_, None) => (st, VOther)
  | (d, Some id) =>
      let st1 := pop_to st d in
      if existsb (fun a => snd a =? id) st1 then (st1, VLoop) else ((d, id) :: st1, VEnter)
  end.

Fixpoint anc_run (st : list (nat * ident)) (evs : list pev) : list verdict :=
  match evs with
  | [] => []
  | e :: evs' => let '(st', v) := anc_step st e in v :: anc_run st' evs'
  end.

(* an arbitrary finite tree of identities, its pre-order stream, and the verdicts by recursion on the tree *)
Inductive itree := TL | TD (id : ident) (ch : list itree).

Fixpoint preorder (d : nat) (t : itree) : list pev :=
  match t with
  | TL => [(d, None)]
  | TD id ch => (d, Some id) :: flat_map (preorder (S d)) ch
  end.

Fixpoint verdicts (anc : list ident) (t : itree) : list verdict :=
  match t with
  | TL => [VOther]
  | TD id ch =>
      if existsb (Nat.eqb id) anc then VLoop :: flat_map (verdicts anc) ch
      else VEnter :: flat_map (verdicts (id :: anc)) ch
  end.
