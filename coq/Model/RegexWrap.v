(* Model of inside_group (src/find/matchers/regex.rs): the text of a -regex pattern as it is written inside the group it is
   wrapped in to anchor its end - back-references renumbered (the wrapping group is the first one), an unmatched ")" of a POSIX
   extended pattern escaped (it would close the wrapping group), [:punct:] and [:digit:] spelled out (where the syntax has
   character classes), a newline of a grep pattern written as the alternation it is.  One pass over the
   characters; the nested loops of the code are the states.  Definitions only. *)
From Coq Require Import List Arith Bool.
Import ListNotations.

Definition c_bs := 92.  Definition c_lb := 91.  Definition c_rb := 93.  Definition c_lp := 40.  Definition c_rp := 41.
Definition c_caret := 94.  Definition c_colon := 58.  Definition c_nl := 10.  Definition c_bar := 124.
Definition is_digit (c : nat) : bool := (48 <=? c) && (c <=? 57).
Definition is_ref (c : nat) : bool := (49 <=? c) && (c <=? 57).              (* '1'..'9' *)
(* the decimal text of (digit + 1) for a digit character '1'..'9' *)
Definition bump_ref (c : nat) : list nat := if c =? 57 then [49; 48] else [S c].

Definition w_punct_name : list nat := [58; 112; 117; 110; 99; 116; 58; 93].              (* :punct:] *)
Definition w_digit_name : list nat := [58; 100; 105; 103; 105; 116; 58; 93].             (* :digit:] *)
Definition w_punct_list : list nat := [33; 45; 47; 58; 45; 64; 91; 45; 96; 123; 45; 126].  (* !-/:-@[-`{-~ *)
Definition w_digit_list : list nat := [48; 45; 57].                                      (* 0-9 *)
Fixpoint w_eqb (a b : list nat) : bool :=
  match a, b with [], [] => true | x :: a', y :: b' => (x =? y) && w_eqb a' b' | _, _ => false end.
(* what is written for "[" followed by the class text [cl] (from ":" to the closing "]" inclusive, or to the end of input) *)
Definition emit_class (cl : list nat) : list nat :=
  if w_eqb cl w_punct_name then w_punct_list else if w_eqb cl w_digit_name then w_digit_list else c_lb :: cl.

(* "[.x.]" / "[=x=]" inside a bracket expression, x a character with no meaning of its own there: (x, what follows) *)
Definition c_dot := 46.  Definition c_eq := 61.  Definition c_minus := 45.
Definition ordinary (x : nat) : bool :=
  negb ((x =? c_rb) || (x =? c_caret) || (x =? c_minus) || (x =? c_lb) || (x =? c_bs) || (x =? c_colon)).
Definition coll_at (d x e r : nat) : bool := ((d =? c_dot) || (d =? c_eq)) && (e =? d) && (r =? c_rb) && ordinary x.
Definition coll (s : list nat) : option (nat * list nat) :=
  match s with
  | d :: x :: e :: r :: s'' => if coll_at d x e r then Some (x, s'') else None
  | _ => None
  end.

Inductive wst :=
| WT (after_ref : bool)          (* outside brackets; after_ref: a back-reference has just been written *)
| WE                             (* after a backslash *)
| WB (may_caret may_rb : bool)   (* inside a bracket expression; at its start "^" and then "]" are members *)
| WC (acc : list nat).           (* inside "[:" ... : the text so far, ":" first *)

Fixpoint wrap (ext cls nl : bool) (q : wst) (depth : nat) (s : list nat) : list nat :=
  match s with
  | [] => match q with WC acc => c_lb :: acc | _ => [] end
  | c :: s' =>
    match q with
    | WT ar =>
        if ar && is_digit c then [c_lb; c; c_rb] ++ wrap ext cls nl (WT false) depth s'   (* a digit after a back-reference stays a character *)
        else if c =? c_bs then c :: wrap ext cls nl WE depth s'
        else if c =? c_lb then c :: wrap ext cls nl (WB true true) depth s'
        else if ext && (c =? c_lp) then c :: wrap ext cls nl (WT false) (S depth) s'
        else if ext && (c =? c_rp) then
          match depth with
          | S d => c :: wrap ext cls nl (WT false) d s'
          | 0 => c_bs :: c :: wrap ext cls nl (WT false) 0 s'
          end
        else if nl && (c =? c_nl) then c_bs :: c_bar :: wrap ext cls nl (WT false) depth s'   (* grep: a newline separates alternatives *)
        else c :: wrap ext cls nl (WT false) depth s'
    | WE => if is_ref c then bump_ref c ++ wrap ext cls nl (WT true) depth s' else c :: wrap ext cls nl (WT false) depth s'
    | WB mc mr =>
        if mc && (c =? c_caret) then c :: wrap ext cls nl (WB false true) depth s'
        else if mr && (c =? c_rb) then c :: wrap ext cls nl (WB false false) depth s'
        else if c =? c_rb then c :: wrap ext cls nl (WT false) depth s'
        else if c =? c_lb then
          if cls then
            match s' with
            | d :: s'' => if d =? c_colon then wrap ext cls nl (WC [d]) depth s'' else c :: wrap ext cls nl (WB false false) depth s'
            | [] => c :: wrap ext cls nl (WB false false) depth s'
            end
          else c :: wrap ext cls nl (WB false false) depth s'      (* emacs: no character classes, "[" is a member *)
        else c :: wrap ext cls nl (WB false false) depth s'
    | WC acc =>
        if c =? c_rb then emit_class (acc ++ [c]) ++ wrap ext cls nl (WB false false) depth s'
        else wrap ext cls nl (WC (acc ++ [c])) depth s'
    end
  end.

(* ---- spell_collating: a collating symbol "[.x.]" or equivalence class "[=x=]" of a bracket expression, x a character with no
   meaning of its own there, is written as x (the engine has neither construct); everything else is copied.  States: outside,
   after a backslash, inside a bracket expression, inside "[:" up to the next "]" (where the syntax has classes). ---- *)
Inductive cst := CT | CE | CB (may_caret may_rb : bool) | CC.
Fixpoint collp (cls : bool) (q : cst) (s : list nat) : list nat :=
  match s with
  | [] => []
  | c :: s' =>
    match q with
    | CT => if c =? c_bs then c :: collp cls CE s'
            else if c =? c_lb then c :: collp cls (CB true true) s'
            else c :: collp cls CT s'
    | CE => c :: collp cls CT s'
    | CB mc mr =>
        if mc && (c =? c_caret) then c :: collp cls (CB false true) s'
        else if mr && (c =? c_rb) then c :: collp cls (CB false false) s'
        else if c =? c_rb then c :: collp cls CT s'
        else if c =? c_lb then
          let other :=
            match s' with
            | d :: _ => if cls && (d =? c_colon) then c :: collp cls CC s' else c :: collp cls (CB false false) s'
            | [] => [c]
            end in
          match s' with
          | d :: x :: e :: r :: s'' => if coll_at d x e r then x :: collp cls (CB false false) s'' else other
          | _ => other
          end
        else c :: collp cls (CB false false) s'
    | CC => if c =? c_rb then c :: collp cls (CB false false) s' else c :: collp cls CC s'
    end
  end.

(* ---- spell_basic_operators: in grep and posix-basic syntax the operators are written with a backslash and are operators only
   where there is something to repeat.  [gb] (grep): "\{" with nothing to repeat - at the start of the pattern, of a group or of
   an alternative, also behind the "^" anchoring it - is written as the brace it is.  [pq] (posix-basic): "\+" and "\?" behind
   something to repeat are written as the intervals "\{1,\}" and "\{0,1\}" (the engine's posix-basic has no such operators).
   One pass; the states are: outside (with: nothing to repeat here), after a backslash, inside a bracket expression, inside
   "[:" / "[." / "[=" up to its ":]" / ".]" / "=]", inside an interval up to its "\}". ---- *)
Definition c_lbrace := 123.  Definition c_rbrace := 125.  Definition c_plus := 43.  Definition c_qm := 63.
(* GNU's "{,n}" is "{0,n}": the lower bound is written for the engine *)
Definition open_bound (s : list nat) : list nat := match s with x :: _ => if x =? 44 then [48] else [] | [] => [] end.
Inductive pst := PT (start anchored : bool) | PE (start : bool) | PB (may_caret may_rb : bool) | PK (d : nat) (prev : bool) | PI (prev_bs : bool).
Fixpoint pre (gb pq nl : bool) (q : pst) (s : list nat) : list nat :=
  match s with
  | [] => match q with PE _ => [c_bs] | _ => [] end
  | c :: s' =>
    match q with
    | PT st an =>
        if c =? c_bs then pre gb pq nl (PE st) s'
        else if c =? c_lb then c :: pre gb pq nl (PB true true) s'
        else if nl && (c =? c_nl) then c :: pre gb pq nl (PT true false) s'
        else if st && negb an && (c =? c_caret) then c :: pre gb pq nl (PT true true) s'   (* only the first "^" there is the anchor *)
        else c :: pre gb pq nl (PT false false) s'
    | PE st =>
        if (c =? c_lp) || (c =? c_bar) then c_bs :: c :: pre gb pq nl (PT true false) s'
        else if c =? c_lbrace then
          if st then (if gb then [c] else [c_bs; c]) ++ pre gb pq nl (PT false false) s'
          else c_bs :: c :: open_bound s' ++ pre gb pq nl (PI false) s'
        else if pq && negb st && (c =? c_plus) then [c_bs; c_lbrace; 49; 44; c_bs; c_rbrace] ++ pre gb pq nl (PT false false) s'
        else if pq && negb st && (c =? c_qm) then [c_bs; c_lbrace; 48; 44; 49; c_bs; c_rbrace] ++ pre gb pq nl (PT false false) s'
        else c_bs :: c :: pre gb pq nl (PT false false) s'
    | PB mc mr =>
        if mc && (c =? c_caret) then c :: pre gb pq nl (PB false true) s'
        else if mr && (c =? c_rb) then c :: pre gb pq nl (PB false false) s'
        else if c =? c_rb then c :: pre gb pq nl (PT false false) s'
        else if c =? c_lb then
          match s' with
          | d :: s'' => if (d =? c_colon) || (d =? c_dot) || (d =? c_eq) then c :: d :: pre gb pq nl (PK d false) s''
                        else c :: pre gb pq nl (PB false false) s'
          | [] => [c]
          end
        else c :: pre gb pq nl (PB false false) s'
    | PK d prev => if prev && (c =? c_rb) then c :: pre gb pq nl (PB false false) s' else c :: pre gb pq nl (PK d (c =? d)) s'
    | PI prev => if prev && (c =? c_rbrace) then c :: pre gb pq nl (PT false false) s' else c :: pre gb pq nl (PI (c =? c_bs)) s'
    end
  end.
(* posix-extended: the same for "{" outside bracket expressions, not quoted *)
Inductive xst := XT | XE | XB (may_caret may_rb : bool) | XK (d : nat) (prev : bool).
Fixpoint xopen (q : xst) (s : list nat) : list nat :=
  match s with
  | [] => []
  | c :: s' =>
    match q with
    | XT => if c =? c_bs then c :: xopen XE s'
            else if c =? c_lb then c :: xopen (XB true true) s'
            else if c =? c_lbrace then c :: open_bound s' ++ xopen XT s'
            else c :: xopen XT s'
    | XE => c :: xopen XT s'
    | XB mc mr =>
        if mc && (c =? c_caret) then c :: xopen (XB false true) s'
        else if mr && (c =? c_rb) then c :: xopen (XB false false) s'
        else if c =? c_rb then c :: xopen XT s'
        else if c =? c_lb then
          match s' with
          | d :: s'' => if (d =? c_colon) || (d =? c_dot) || (d =? c_eq) then c :: d :: xopen (XK d false) s'' else c :: xopen (XB false false) s'
          | [] => [c]
          end
        else c :: xopen (XB false false) s'
    | XK d prev => if prev && (c =? c_rb) then c :: xopen (XB false false) s' else c :: xopen (XK d (c =? d)) s'
    end
  end.
Definition spell (gb pq nl : bool) (pattern : list nat) : list nat :=
  if gb || pq then pre gb pq nl (PT true false) pattern else pattern.

(* ext: posix-extended; cls: the syntax has character classes (all but emacs); nl: a newline is alternation (grep);
   gb: grep's brace; pq: posix-basic's "\+" and "\?" *)
(* what is compiled first (to report errors against the pattern as given) and what inside_group starts from *)
(* (the operators first: they are found by reading the bracket expressions as they were written) *)
Definition spelled (ext cls nl gb pq : bool) (pattern : list nat) : list nat :=
  collp cls CT (if ext then xopen XT pattern else spell gb pq nl pattern).
Definition inside_group (ext cls nl gb pq : bool) (pattern : list nat) : list nat :=
  wrap ext cls nl (WT false) 0 (spelled ext cls nl gb pq pattern).

(* ---- how the text is read back: where groups open and close (POSIX extended).  A backslash takes the next character with it;
   a bracket expression runs from "[" (then "^" and "]" as members) to the next "]", a "[:" inside it to the next "]".
   [closed_early]: some ")" outside brackets, not escaped, at depth 0. ---- *)
Inductive rst := QT | QE | QB (may_caret may_rb : bool) | QC.
Fixpoint closed_early (q : rst) (depth : nat) (t : list nat) : bool :=
  match t with
  | [] => false
  | c :: t' =>
    match q with
    | QT => if c =? c_bs then closed_early QE depth t'
            else if c =? c_lb then closed_early (QB true true) depth t'
            else if c =? c_lp then closed_early QT (S depth) t'
            else if c =? c_rp then match depth with S d => closed_early QT d t' | 0 => true end
            else closed_early QT depth t'
    | QE => closed_early QT depth t'
    | QB mc mr =>
        if mc && (c =? c_caret) then closed_early (QB false true) depth t'
        else if mr && (c =? c_rb) then closed_early (QB false false) depth t'
        else if c =? c_rb then closed_early QT depth t'
        else if c =? c_lb then
          match t' with
          | d :: t'' => if d =? c_colon then closed_early QC depth t'' else closed_early (QB false false) depth t'
          | [] => false
          end
        else closed_early (QB false false) depth t'
    | QC => if c =? c_rb then closed_early (QB false false) depth t' else closed_early QC depth t'
    end
  end.
