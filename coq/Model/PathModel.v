From Coq Require Import List Arith Bool Lia.
Import ListNotations.

Definition char := nat.
Definition SL := 47.  Definition DOT := 46.
Definition str := list char.

Inductive ckind := CRoot | CCur | CPar | CNorm.
Record comp := { ck : ckind; cstart : nat; cend : nat }.   (* [cstart, cend) in the original string *)

Fixpoint str_eqb (a b : str) : bool :=
  match a, b with [] , [] => true | x :: a', y :: b' => (x =? y) && str_eqb a' b' | _, _ => false end.

(* split the body at '/', remembering offsets: segments as (start, text) *)
Fixpoint segs (s : str) (pos : nat) (cur : str) (cur_start : nat) : list (nat * str) :=
  match s with
  | [] => [(cur_start, cur)]
  | c :: s' => if c =? SL then (cur_start, cur) :: segs s' (S pos) [] (S pos)
               else segs s' (S pos) (cur ++ [c]) cur_start
  end.

Definition has_root (s : str) : bool := match s with c :: _ => c =? SL | [] => false end.

(* std::path::Components on unix: empty segments and "." are skipped, except a leading "." without root *)
Definition components (s : str) : list comp :=
  let root := has_root s in
  let ss := segs s 0 [] 0 in
  let body := (fix go (l : list (nat * str)) (first : bool) : list comp :=
     match l with
     | [] => []
     | (st, t) :: l' =>
         let rest := go l' false in
         match t with
         | [] => rest
         | _ => if str_eqb t [DOT] then (if first && negb root then {| ck := CCur; cstart := st; cend := st + 1 |} :: rest else rest)
                else if str_eqb t [DOT; DOT] then {| ck := CPar; cstart := st; cend := st + 2 |} :: rest
                else {| ck := CNorm; cstart := st; cend := st + length t |} :: rest
         end
     end) ss true in
  if root then {| ck := CRoot; cstart := 0; cend := 1 |} :: body else body.

Definition slice (s : str) (a b : nat) : str := firstn (b - a) (skipn a s).
Definition comp_text (s : str) (c : comp) : str := slice s (cstart c) (cend c).

(* as_path of the first n components (iterator advanced from the back): from offset 0 to the end of the last kept one *)
Definition prefix_path (s : str) (cs : list comp) : str :=
  match rev cs with [] => [] | c :: _ => slice s 0 (cend c) end.
(* as_path after advancing from the front past some components: from the start of the first remaining one *)
Definition suffix_path (s : str) (cs : list comp) : str :=
  match cs, rev cs with c :: _, l :: _ => slice s (cstart c) (cend l) | _, _ => [] end.

Definition parent (s : str) : option str :=
  match rev (components s) with
  | [] => None
  | c :: r => match ck c with CRoot => None | _ => Some (prefix_path s (rev r)) end
  end.

Definition file_name (s : str) : option str :=
  match rev (components s) with
  | c :: _ => match ck c with CNorm => Some (comp_text s c) | _ => None end
  | [] => None
  end.

Definition ends_with_sl (s : str) := match rev s with c :: _ => c =? SL | [] => false end.
Definition join (a b : str) : str :=
  if has_root b then b else if (match a with [] => true | _ => false end) || ends_with_sl a then a ++ b else a ++ [SL] ++ b.

Definition comp_eqb (s1 : str) (c1 : comp) (s2 : str) (c2 : comp) : bool :=
  match ck c1, ck c2 with
  | CRoot, CRoot | CCur, CCur | CPar, CPar => true
  | CNorm, CNorm => str_eqb (comp_text s1 c1) (comp_text s2 c2)
  | _, _ => false
  end.

(* Path::strip_prefix: component-wise; with an empty base the whole path comes back, trimmed on the right only *)
Fixpoint strip_comps (s : str) (cs : list comp) (b : str) (bs : list comp) : option (list comp) :=
  match bs with
  | [] => Some cs
  | y :: bs' => match cs with
                | [] => None
                | x :: cs' => if comp_eqb s x b y then strip_comps s cs' b bs' else None
                end
  end.
Definition strip_prefix (s base : str) : option str :=
  match components base with
  | [] => Some (prefix_path s (components s))
  | bs => match strip_comps s (components s) base bs with
          | Some rest => Some (suffix_path s rest)
          | None => None
          end
  end.

Fixpoint ancestor (fuel : nat) (s : str) (k : nat) : option str :=
  match k with
  | 0 => Some s
  | S k' => match parent s with Some p => (match fuel with 0 => None | S f => ancestor f p k' end) | None => None end
  end.
