(* The argv-level layer of build_matcher_tree (src/find/matchers/mod.rs): from the expression part of
   the command line (a list of strings) to the token list of Model/Expr.v, or an error.  The table of
   primaries (name -> number of operands, kind) is regenerated from the source.  The validity of an
   operand for a primary (glob, regex, mode, date, user name, existing file ...) is an oracle [valid];
   -newerXY is recognised by the oracle [newer_xy].  Definitions only. *)
Require Import Tables Expr.
From Coq Require Import List Arith Bool.
Import ListNotations.

Definition str := list nat.
Fixpoint str_eqb (a b : str) : bool :=
  match a, b with [], [] => true | x :: a', y :: b' => (x =? y) && str_eqb a' b' | _, _ => false end.
Fixpoint lookup (n : str) (t : list (str * (nat * nat))) : option (nat * nat) :=
  match t with [] => None | (k, v) :: t' => if str_eqb n k then Some v else lookup n t' end.
Definition is_one_of (n : str) (l : list str) : bool := existsb (str_eqb n) l.

Definition s_lp : str := [40].  Definition s_rp : str := [41].  Definition s_bang : str := [33].  Definition s_comma : str := [44].
Definition s_not : str := [45; 110; 111; 116].  Definition s_a : str := [45; 97].  Definition s_and : str := [45; 97; 110; 100].
Definition s_o : str := [45; 111].  Definition s_or : str := [45; 111; 114].
Definition s_exec : str := [45; 101; 120; 101; 99].  Definition s_execdir : str := [45; 101; 120; 101; 99; 100; 105; 114].
Definition s_semi : str := [59].  Definition s_plus : str := [43].  Definition s_braces : str := [123; 125].
Definition helpish : list str := [[45; 104; 101; 108; 112]; [45; 45; 104; 101; 108; 112]; [45; 118; 101; 114; 115; 105; 111; 110]; [45; 45; 118; 101; 114; 115; 105; 111; 110]].

Definition kind_of (k : nat) : pkind := match k with 1 => KAction | 2 => KQuit | 3 => KPrune | _ => KTest end.

Inductive lexres := LOk (ts : list tok) | LErr | LHelp (ts : list tok).    (* LHelp: -help/-version seen, the rest is ignored *)

Section L.
Variable valid : str -> list str -> bool.      (* primary name, its operands *)
Variable newer_xy : str -> bool.               (* parse_str_to_newer_args recognises the token *)

(* the -exec scan: position of the terminator among the arguments after the executable.
   [prev]: the previous argument; returns (arguments before the terminator, is_plus, rest) *)
Fixpoint exec_scan (prev : str) (args : list str) (acc : list str) : option (list str * bool * list str) :=
  match args with
  | [] => None
  | a :: rest =>
      if str_eqb a s_semi then Some (acc, false, rest)
      else if str_eqb prev s_braces && str_eqb a s_plus then Some (acc, true, rest)
      else exec_scan a rest (acc ++ [a])
  end.

Fixpoint lex (fuel : nat) (pos : nat) (argv : list str) : lexres :=
  match fuel with 0 => LErr | S f =>
  match argv with
  | [] => LOk []
  | a :: rest =>
      let cons t r := match r with LOk ts => LOk (t :: ts) | LHelp ts => LHelp (t :: ts) | LErr => LErr end in
      if str_eqb a s_lp then cons TL (lex f (S pos) rest)
      else if str_eqb a s_rp then cons TR (lex f (S pos) rest)
      else if str_eqb a s_bang || str_eqb a s_not then cons TNot (lex f (S pos) rest)
      else if str_eqb a s_a || str_eqb a s_and then cons TAnd (lex f (S pos) rest)
      else if str_eqb a s_o || str_eqb a s_or then cons TOr (lex f (S pos) rest)
      else if str_eqb a s_comma then cons TComma (lex f (S pos) rest)
      else if is_one_of a helpish then LHelp []
      else if str_eqb a s_exec || str_eqb a s_execdir then
        (* args[i+1] is the executable; the scan starts there with args[i] as "previous" *)
        match exec_scan a rest [] with
        | None => LErr
        | Some (before, plus, rest') =>
            (* at least the executable (and "{}" for +) *)
            if length before <? (if plus then 2 else 1) then LErr
            else if plus && negb (length (filter (fun x => str_eqb x s_braces) (tl before)) =? 1) then LErr
            else if negb (valid a before) then LErr
            else cons (TP {| pid := pos; pk := if exec_is_action then KAction else KTest |}) (lex f (S pos) rest')
        end
      else match lookup a primaries with
           | Some (arity, k) =>
               if length rest <? arity then LErr
               else let ops := firstn arity rest in
                    if negb (valid a ops) then LErr
                    else cons (TP {| pid := pos; pk := kind_of k |}) (lex f (S pos) (skipn arity rest))
           | None =>
               if newer_xy a then
                 match rest with
                 | [] => LErr
                 | op :: rest' => if negb (valid a [op]) then LErr
                                  else cons (TP {| pid := pos; pk := KTest |}) (lex f (S pos) rest')
                 end
               else LErr                      (* Unrecognized flag *)
           end
  end end.

(* build_top_level_matcher: Ok = accepted *)
Definition parse_argv (argv : list str) : result matcher :=
  match lex (S (length argv)) 1 argv with
  | LOk ts => build_top ts
  | LHelp _ => Ok (MAnd [])          (* help/version requested: nothing is evaluated *)
  | LErr => Error
  end.
End L.
