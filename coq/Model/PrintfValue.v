(* The path-valued -printf directives (format_directive in printf.rs) over PathModel.  Definitions only. *)
Require Import PathModel Paths.
From Coq Require Import List Arith Bool.
Import ListNotations.

(* split_last_component (printf.rs): the path as spelled, cut at its last component - trailing slashes are ignored,
   "." and ".." count as components, a path of slashes only is "/" with an empty directory part.
   %f is the last component: the same text -name matches against *)
Definition pv_f (path : str) : str := name_subject path.
(* the text before the last slash of [s]; [acc] is what has been read so far *)
Fixpoint dir_seg (s acc : str) (dir : option str) : option str :=
  match s with
  | [] => dir
  | c :: s' => if c =? SL then dir_seg s' (acc ++ [c]) (Some acc) else dir_seg s' (acc ++ [c]) dir
  end.
(* %h: the part before the last component; "." when there is none, "" for "/" and for paths directly under "/" *)
Definition pv_h (path : str) : str :=
  match trim_end_sl path, path with
  | [], _ :: _ => []
  | t, _ => match dir_seg t [] None with Some d => d | None => [DOT] end
  end.
(* %H: the starting point as it was given - process_dir records its length, and every path reported below it
   begins with exactly that text (C18: entry_path_prefix) *)
Definition pv_H (path : str) (root_len : nat) : option str :=
  if root_len <=? length path then Some (firstn root_len path) else None.
(* %P: path.strip_prefix(starting point) *)
Definition pv_P (path : str) (root_len : nat) : option str :=
  match pv_H path root_len with Some h => strip_prefix path h | None => None end.

(* ---- the numeric directives: %s %n %i %U %G %d print their value in decimal, %m the permission bits in octal
   (format!("{}"), format!("{:o}")): the digits of the number, most significant first, nothing else ---- *)
From Coq Require Import NArith.
Fixpoint to_digits (fuel : nat) (b n : N) (acc : list nat) : list nat :=
  match fuel with
  | 0 => acc
  | S f => let acc' := (48 + N.to_nat (n mod b))%nat :: acc in
           if (n / b =? 0)%N then acc' else to_digits f b (n / b) acc'
  end.
Definition render_num (b n : N) : list nat := to_digits (S (N.to_nat (N.log2 n))) b n [].
(* how such a text is read back *)
Fixpoint value_of (b : N) (ds : list nat) (acc : N) : N :=
  match ds with [] => acc | d :: ds' => value_of b ds' (acc * b + N.of_nat (d - 48))%N end.
