(* The path-valued -printf directives (format_directive in printf.rs) over PathModel.  Definitions only. *)
Require Import PathModel.
From Coq Require Import List Arith Bool.
Import ListNotations.

(* WalkEntry::file_name: the text of the last component (whatever its kind), or the whole path when there is none *)
Definition pv_f (path : str) : str :=
  match rev (components path) with c :: _ => comp_text path c | [] => path end.
(* %h: "" for "/" and for paths directly under "/", "." when there is no directory part *)
Definition pv_h (path : str) : str :=
  match parent path with
  | None => []
  | Some p => if str_eqb p [] then [DOT]
              else match components p with
                   | [c] => match ck c with CRoot => [] | _ => p end
                   | _ => p
                   end
  end.
(* %H: the starting point as it was given - process_dir records its length, and every path reported below it
   begins with exactly that text (C18: entry_path_prefix) *)
Definition pv_H (path : str) (root_len : nat) : option str :=
  if root_len <=? length path then Some (firstn root_len path) else None.
(* %P: path.strip_prefix(starting point) *)
Definition pv_P (path : str) (root_len : nat) : option str :=
  match pv_H path root_len with Some h => strip_prefix path h | None => None end.
