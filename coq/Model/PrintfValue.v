(* The path-valued -printf directives (format_directive in printf.rs) over PathModel.  Definitions only. *)
Require Import PathModel.
From Coq Require Import List Arith Bool.
Import ListNotations.

(* WalkEntry::file_name: the text of the last component (whatever its kind), or the whole path when there is none *)
Definition pv_f (path : str) : str :=
  match rev (components path) with c :: _ => comp_text path c | [] => path end.
(* %h: "" for "/" and for paths directly under "/", "." when there is no directory part *)
Definition pv_h (path : str) : str :=
  match parent path with
  | None => []
  | Some p => if str_eqb p [] then [DOT]
              else match components p with
                   | [c] => match ck c with CRoot => [] | _ => p end
                   | _ => p
                   end
  end.
(* %H: get_starting_point = path.ancestors().nth(depth) *)
Definition pv_H (path : str) (depth : nat) : option str := ancestor (S (length path)) path depth.
(* %P: path.strip_prefix(starting point) *)
Definition pv_P (path : str) (depth : nat) : option str :=
  match pv_H path depth with Some h => strip_prefix path h | None => None end.
