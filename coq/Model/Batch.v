(* Generic flush-and-retry loop: xargs process_input; find -exec ... {} + has the same shape.
   Definitions only; process_spec is in Proofs/BatchProofs.v *)
From Coq Require Import List Arith Bool.
Import ListNotations.

Section Greedy.
Variable A S : Type.
Variable tmpl : S.                       (* limiter state of an empty invocation (initial arguments already charged) *)
Variable acc : S -> A -> option S.       (* try_arg: Some = accepted with new state, None = refused *)
Variable fatal : S -> A -> bool.         (* refusal that ends the run at once (-x with -n/-L on a size overflow) *)
Variable r : bool.                       (* --no-run-if-empty *)

Inductive outcome := Ran (bs : list (list A)) | TooLarge (bs : list (list A)).

Fixpoint process (ls : S) (cur : list A) (pending : bool) (args : list A) (done : list (list A)) : outcome :=
  match args with
  | [] => Ran (if negb r || pending then done ++ [cur] else done)
  | a :: rest =>
      match acc ls a with
      | Some ls' => process ls' (cur ++ [a]) true rest done
      | None =>
          if fatal ls a then TooLarge done
          else let done' := if pending then done ++ [cur] else done in
               match acc tmpl a with
               | Some ls' => process ls' [a] true rest done'
               | None => TooLarge done'
               end
      end
  end.

Definition run (args : list A) := process tmpl [] false args [].

(* state reached by charging a batch to the template *)
Fixpoint charge (ls : S) (b : list A) : option S :=
  match b with [] => Some ls | a :: b' => match acc ls a with Some ls' => charge ls' b' | None => None end end.
Definition fits (b : list A) : Prop := charge tmpl b <> None.

(* a batch list is a greedy batching: every batch fits and is non-empty, and the first argument
   of each later batch did not fit into its predecessor *)
Fixpoint greedy (bs : list (list A)) : Prop :=
  match bs with
  | [] => True
  | b :: bs' => fits b /\ b <> [] /\
                match bs' with [] => True | b' :: _ => match b' with a :: _ => ~ fits (b ++ [a]) | [] => False end end /\
                greedy bs'
  end.
End Greedy.
Arguments Ran {A}. Arguments TooLarge {A}.
