(* Model of FormatStringParser and Printf::print (src/find/matchers/printf.rs, after the repairs):
   a format string is a list of Unicode scalar values; escapes and directive letters come from the
   tables regenerated from the source.  Definitions only. *)
Require Import Tables.
From Coq Require Import List Arith Bool.
Import ListNotations.

Definition char := nat.
Definition utf8_len (c : char) : nat := if c <? 128 then 1 else if c <? 2048 then 2 else if c <? 65536 then 3 else 4.
Fixpoint blen (s : list char) : nat := match s with [] => 0 | c :: s' => utf8_len c + blen s' end.

Inductive res (A : Type) := Ok (a : A) | Err.
Arguments Ok {A}. Arguments Err {A}.

Inductive justify := JLeft | JRight.
Inductive comp :=
| Lit (s : list char)
| Flush
| Dir (d : char) (width : option nat) (j : justify)
| DirP (d : char) (width : option nat) (j : justify) (precision : nat).   (* "%.3p", "%10.5d" *)

Definition is_octal (c : char) := (48 <=? c) && (c <=? 55).
Definition is_digit (c : char) := (48 <=? c) && (c <=? 57).
Definition octal_val (c : char) := c - 48.
Fixpoint assoc (k : nat) (t : list (nat * nat)) : option nat :=
  match t with [] => None | (k', v) :: t' => if k =? k' then Some v else assoc k t' end.

(* str::get(0..3): Some only when the first three BYTES end on a character boundary *)
Fixpoint split_bytes (n : nat) (s : list char) : option (list char * list char) :=
  match n with
  | 0 => Some ([], s)
  | _ => match s with
         | [] => None
         | c :: s' => if utf8_len c <=? n
                      then match split_bytes (n - utf8_len c) s' with Some (a, b) => Some (c :: a, b) | None => None end
                      else None
         end
  end.

(* \NNN is the byte with that value (of three octal digits the low eight bits count).  The output of the model is a list of
   characters; a byte that is not ASCII is no character, and is written here as raw_base + the byte (raw_base is one more than
   the largest code point, so it cannot be mistaken for a character of the format or of a value). *)
Definition raw_base : nat := 1114112.
Definition oct_out (a b c : char) : list char :=
  let v := (octal_val a * 64 + octal_val b * 8 + octal_val c) mod 256 in
  if v <? 128 then [v] else [v + raw_base].

(* parse_escape_sequence: three octal digits first, else one escape letter; \c = flush *)
Definition parse_escape (s : list char) : res (comp * list char) :=
  match s with
  | [] => Err
  | first :: s' =>
      let fallthrough :=
        if first =? 99 then Ok (Flush, s')
        else match assoc first printf_escapes with Some c => Ok (Lit [c], s') | None => Err end in
      if is_octal first then
        match split_bytes 3 s with
        | Some ([a; b; c], rest) =>
            if is_octal a && is_octal b && is_octal c
            then Ok (Lit (oct_out a b c), rest)
            else fallthrough
        | _ => fallthrough
        end
      else fallthrough
  end.

Fixpoint skip_flags (s : list char) (j : justify) : res (justify * list char) :=
  match s with
  | [] => Err                                              (* front()? *)
  | c :: s' => if c =? 32 then skip_flags s' j else if c =? 45 then skip_flags s' JLeft else Ok (j, s)
  end.

Fixpoint take_digits (s : list char) (acc : list char) : list char * list char :=
  match s with
  | c :: s' => if is_digit c then take_digits s' (acc ++ [c]) else (acc, s)
  | [] => (acc, [])
  end.
Fixpoint dec_val (ds : list char) (acc : nat) : nat := match ds with [] => acc | d :: r => dec_val r (acc * 10 + (d - 48)) end.
(* a width beyond a C int (2147483647) is an invalid width: 10 or more digits are refused here (widths between 10^9 and
   2^31 are accepted by the code and rejected here - never generated, never printable) *)
Definition width_of (ds : list char) : res (option nat) :=
  match ds with
  | [] => Ok None
  | _ => if 9 <? length ds then Err else Ok (Some (dec_val ds 0))
  end.

Definition is_time_directive (c : char) := (c =? 65) || (c =? 67) || (c =? 84).

Section P.
Variable strftime_ok : char -> bool.     (* chrono's verdict on "%c" *)

Definition parse_spec (s : list char) : res (comp * list char) :=
  match skip_flags s JRight with
  | Err => Err
  | Ok (j, s1) =>
      let '(ds, s2) := take_digits s1 [] in
      match width_of ds with
      | Err => Err
      | Ok w =>
          (* a precision: "." and digits (none: 0); the conversion character has to follow *)
          let pr := match s2 with
                    | c :: s2' => if c =? 46 then let '(ps, s2'') := take_digits s2' [] in
                                                  match width_of ps with
                                                  | Err => Err
                                                  | Ok p => Ok (Some (match p with Some n => n | None => 0 end), s2'')
                                                  end
                                  else Ok (None, s2)
                    | [] => Ok (None, s2)
                    end in
          match pr with
          | Err => Err
          | Ok (prec, s2) =>
          let mk d := match prec with None => Dir d w j | Some p => DirP d w j p end in
          match s2 with
          | [] => Err
          | first :: s3 =>
              if first =? 37 then Ok (Lit [37], s3)
              else if is_time_directive first then
                match s3 with
                | [] => Err
                | c :: s4 => if (c =? 64) || (c =? 83) || strftime_ok c then Ok (mk first, s4) else Err
                end
              else match assoc first printf_directives with
                   | Some _ => Ok (mk first, s3)
                   | None => if (first =? 123) || (first =? 91) || (first =? 40) then Err      (* %{ %[ %( : reserved *)
                             else Ok (Lit [first], s3)
                   end
          end
          end
      end
  end.

Fixpoint take_lit (s : list char) (acc : list char) : list char * list char :=
  match s with
  | c :: s' => if (c =? 37) || (c =? 92) then (acc, s) else take_lit s' (acc ++ [c])
  | [] => (acc, [])
  end.

Fixpoint parse (fuel : nat) (s : list char) : res (list comp) :=
  match fuel with 0 => Err | S f =>
  let '(lit, rest) := take_lit s [] in
  let pre := match lit with [] => [] | _ => [Lit lit] end in
  match rest with
  | [] => Ok pre
  | c :: rest' =>
      let r := if c =? 92 then parse_escape rest' else parse_spec rest' in
      match r with
      | Err => Err
      | Ok (cmp, rest'') => match parse f rest'' with
                            | Ok l => Ok (pre ++ cmp :: l) | Err => Err end
      end
  end end.
End P.

(* rendering: padding counts characters, never truncates *)
Definition pad (w : option nat) (j : justify) (v : list char) : list char :=
  match w with
  | None => v
  | Some w => let fill := repeat 32 (w - length v) in
              match j with JLeft => v ++ fill | JRight => fill ++ v end
  end.
(* a precision, as C's printf has it: at least that many digits for the numbers (%d, %m; none at all for 0 under ".0"), at most
   that many characters for everything else *)
Definition with_precision (d : char) (p : nat) (v : list char) : list char :=
  if (d =? 100) || (d =? 109) then
    (if (p =? 0) && (match v with [48] => true | _ => false end) then [] else repeat 48 (p - length v) ++ v)
  else firstn p v.
Fixpoint render (value : char -> list char) (cs : list comp) : list char :=
  match cs with
  | [] => []
  | Lit s :: r => s ++ render value r
  | Flush :: _ => []                      (* \c: nothing more is printed for this file *)
  | Dir d w j :: r => pad w j (value d) ++ render value r
  | DirP d w j p :: r => pad w j (with_precision d p (value d)) ++ render value r
  end.
Definition run_printf (strftime_ok : char -> bool) (value : char -> list char) (fmt : list char) : res (list char) :=
  match parse strftime_ok (S (length fmt)) fmt with
  | Ok cs => Ok (render value cs) | Err => Err
  end.
