(* find as a whole, at the level C01 needs: the matcher built from the token list is evaluated on
   every entry the walk visits (its prune verdict steering the walk), until -quit; starting points
   one after the other (do_find).  Definitions only. *)
Require Import Walk Expr.
From Coq Require Import List Arith Bool.
Import ListNotations.

Section F.
Variable tvf : rpath -> nat -> bool.      (* truth of primary [pid] on the entry at [rp] (an oracle) *)
Variable m : matcher.

(* what process_dir asks of the expression on a directory: did it evaluate -prune *)
Definition prune_of : rpath -> nat -> bool := fun rp _ => pruned (snd (eval (tvf rp) m io0)).

(* evaluation on the visited entries in order; the first entry on which -quit is evaluated ends everything *)
Fixpoint eval_visits (vs : list event) : list (rpath * list nat) * bool :=
  match vs with
  | [] => ([], false)
  | Err _ :: vs' => eval_visits vs'
  | Ent rp _ _ :: vs' =>
      let s := snd (eval (tvf rp) m io0) in
      if quit s then ([(rp, trace s)], true)
      else let '(l, q) := eval_visits vs' in ((rp, trace s) :: l, q)
  end.
End F.

Definition find_root (c : cfg) (tvf : rpath -> nat -> bool) (m : matcher) (n : node) :=
  eval_visits tvf m (walk c (prune_of tvf m) n).

(* do_find: the starting points in order; nothing after a quit *)
Fixpoint find_roots (c : cfg) (m : matcher) (roots : list ((rpath -> nat -> bool) * node))
  : list (list (rpath * list nat)) :=
  match roots with
  | [] => []
  | (tvf, n) :: roots' =>
      let '(l, q) := find_root c tvf m n in
      if q then [l] else l :: find_roots c m roots'
  end.

Definition find_main_model (c : cfg) (ts : list tok) (roots : list ((rpath -> nat -> bool) * node))
  : result (list (list (rpath * list nat))) :=
  match build_top ts with
  | Ok m => Ok (find_roots c m roots)
  | Error => Error
  end.
