(* Model of src/xargs/mod.rs: limiter chain, CommandBuilderOptions::new, process_input,
   CommandBuilder::execute's classification, xargs_main's exit status.  Definitions only. *)
Require Import Batch Tables.
From Coq Require Import List NArith Bool.
Import ListNotations.
Local Open Scope N_scope.

Inductive kind := Initial | Hard | Soft.
(* the bytes themselves play no role in batching: an argument is its index in the input, its length, its terminator *)
Record arg := { aid : N; alen : N; akind : kind }.
Definition cost (a : arg) : N := alen a + 1.                 (* count_osstr_chars_for_exec *)
Definition is_hard (a : arg) := match akind a with Hard => true | _ => false end.
Definition is_initial (a : arg) := match akind a with Initial => true | _ => false end.

(* MaxArgs / MaxLines / MaxChars(-s, or the system one with per-argument overhead and single-argument bound) *)
Inductive limiter := LArgs (cur max : N) | LLines (cur max : N) | LChars (cur max ovh single : N).
Inductive verdict := Acc (ls : list limiter) | Refuse (out_of_chars : bool).

(* each limiter checks itself, then asks the rest of the chain, then updates itself *)
Fixpoint try_arg (ls : list limiter) (a : arg) : verdict :=
  match ls with
  | [] => Acc []
  | LArgs c m :: r =>
      if c <? m then match try_arg r a with
                     | Acc r' => Acc (LArgs (if is_initial a then c else c + 1) m :: r')
                     | Refuse o => Refuse o end
      else Refuse false
  | LLines c m :: r =>
      if c <=? m then match try_arg r a with
                      | Acc r' => Acc (LLines (if is_hard a then c + 1 else c) m :: r')
                      | Refuse o => Refuse o end
      else Refuse false
  | LChars c m o s :: r =>
      if (cost a <=? s) && (c + (cost a + o) <=? m)
      then match try_arg r a with
           | Acc r' => Acc (LChars (c + (cost a + o)) m o s :: r')
           | Refuse o' => Refuse o' end
      else Refuse true
  end.

Definition usize_max : N := 18446744073709551615.

(* MaxCharsCommandSizeLimiter::new_system: ARG_MAX - 2048 (headroom) - (2 * 4096 + 256) (the file name the kernel copies when it
   executes the command, up to PATH_MAX, once more for a "#!" script together with the interpreter line) - sum over env of (|k|+1 + |v|+1 + 8) - 16, saturating *)
Definition env_size (env : list (N * N)) : N :=
  fold_right (fun kv s => (fst kv + 1) + (snd kv + 1) + 8 + s) 0 env.
Definition sys_budget (arg_max : N) (env : list (N * N)) : N := arg_max - (2048 + 8448 + env_size env + 16).
Definition max_single_arg : N := 131072.

Record config := {
  c_n : option N; c_L : option N; c_s : option N;
  c_x : bool; c_r : bool;
  c_sys : N;                    (* sys_budget *)
  c_init : list N;              (* lengths of the command and initial arguments *)
  c_replace : bool;             (* -I / -i in force (after normalize_options) *)
  c_subst : N -> list N         (* -I: lengths of the command and the initial arguments once a line of the given length is put in *)
}.

(* do_xargs: the chain in the order it is built *)
Definition limiters0 (c : config) : list limiter :=
  (match c_n c with Some n => [LArgs 0 n] | None => [] end) ++
  (match c_L c with Some l => [LLines 1 l] | None => [] end) ++
  (* with -I, -s is applied to the command line after the line has been put in (fits_system), not here *)
  (match c_s c with Some s => if c_replace c then [] else [LChars 0 s 0 usize_max] | None => [] end) ++
  [LChars 0 (c_sys c) 8 max_single_arg].

(* CommandBuilderOptions::new: charge the initial arguments; None = "Base command ... too large" *)
Fixpoint charge_init (ls : list limiter) (init : list N) : option (list limiter) :=
  match init with
  | [] => Some ls
  | l :: init' => match try_arg ls {| aid := 0; alen := l; akind := Initial |} with
                  | Acc ls' => charge_init ls' init'
                  | Refuse _ => None end
  end.

Definition accf (ls : list limiter) (a : arg) : option (list limiter) :=
  match try_arg ls a with Acc l => Some l | Refuse _ => None end.
Definition fatalf (c : config) (ls : list limiter) (a : arg) : bool :=
  match try_arg ls a with
  | Refuse true => c_x c && (match c_n c with Some _ => true | None => false end
                             || match c_L c with Some _ => true | None => false end)
  | _ => false end.

(* ---- execution ---- *)
Inductive child := Exit (code : N) | Signal | NotFound | CannotRun.
Inductive cres := Success | Failure.
Inductive cerr := Urgent | Killed | CantRun | Missing.
Definition classify (o : child) : cres + cerr :=
  match o with
  | Exit c => if c =? 0 then inl Success else if c =? 255 then inr Urgent else inl Failure
  | Signal => inr Killed
  | NotFound => inr Missing
  | CannotRun => inr CantRun
  end.
Definition combine (r o : cres) : cres := match r with Success => o | Failure => Failure end.
(* xargs_main's arms, regenerated from the source (Generated/Tables.v) *)
Definition status_ok (r : cres) : N := match r with Success => nth 0 xargs_status 99 | Failure => nth 1 xargs_status 99 end.
Definition status_err (e : cerr) : N :=
  match e with Urgent => nth 2 xargs_status 99 | Killed => nth 3 xargs_status 99
             | CantRun => nth 4 xargs_status 99 | Missing => nth 5 xargs_status 99 end.

(* state of the run: combined result so far, scripted outcomes still to come, invocations made *)
Record xs := { res : cres; outs : list child; log : list (list arg) }.
Definition next_out (l : list child) : child := match l with o :: _ => o | [] => Exit 0 end.

(* with -I the substituted command line is put to a fresh system limiter before it is run (9eccde5) *)
Definition fits_system (c : config) (lens : list N) : bool :=
  (match c_s c with Some s => fold_right (fun l t => l + 1 + t) 0 lens <=? s | None => true end) &&
  (forallb (fun l => l + 1 <=? max_single_arg) lens && (fold_right (fun l s => l + 1 + 8 + s) 0 lens <=? c_sys c)).
Definition subst_fits (c : config) (b : list arg) : bool :=
  match b with a :: _ => fits_system c (c_subst c (alen a)) | [] => true end.

(* CommandBuilder::execute; inr = the run ends here with this exit status *)
Definition exec (c : config) (st : xs) (b : list arg) : xs + (N * list (list arg)) :=
  if c_replace c && (match b with [] => true | _ => false end) then inl st   (* -I, nothing to substitute *)
  else if c_replace c && negb (subst_fits c b) then inr (1, log st)           (* "Argument too large" *)
  else let log' := log st ++ [b] in
       match classify (next_out (outs st)) with
       | inl cr => inl {| res := combine (res st) cr; outs := tl (outs st); log := log' |}
       | inr e => inr (status_err e, log')
       end.

(* process_input, with the executions interleaved as in the code.
   [input_err]: the reader fails (unterminated quote) after the last of [args]. *)
Fixpoint process_x (c : config) (tmpl ls : list limiter) (cur : list arg) (pending : bool)
         (args : list arg) (input_err : bool) (st : xs) : N * list (list arg) :=
  match args with
  | [] =>
      (* the reader failed: the error is reported at once; the arguments of the batch being collected are not run
         (the repository's xargs_unterminated_quote pins exactly that: nothing on stdout) *)
      if input_err then (1, log st)
      else if negb (c_r c) || pending then
        match exec c st cur with
        | inl st' => (status_ok (res st'), log st')
        | inr stop => stop end
      else (status_ok (res st), log st)
  | a :: rest =>
      match try_arg ls a with
      | Acc ls' =>
          if c_replace c then
            (* -I: the line is complete, its command is run now - not when the next line has been read *)
            match exec c st (cur ++ [a]) with
            | inr stop => stop
            | inl st' => process_x c tmpl tmpl [] false rest input_err st'
            end
          else process_x c tmpl ls' (cur ++ [a]) true rest input_err st
      | Refuse _ =>
          if fatalf c ls a then (1, log st)
          else match (if pending then exec c st cur else inl st) with
               | inr stop => stop
               | inl st' =>
                   match try_arg tmpl a with
                   | Acc ls' =>
                       if c_replace c then
                         match exec c st' [a] with
                         | inr stop => stop
                         | inl st'' => process_x c tmpl tmpl [] false rest input_err st''
                         end
                       else process_x c tmpl ls' [a] true rest input_err st'
                   | Refuse _ => (1, log st')
                   end
               end
      end
  end.

(* what the template limiters are charged with: the command and the initial arguments as written - with -I, as they are once an
   empty line is put in (without the replacement string) *)
Definition charged (c : config) : list N := if c_replace c then c_subst c 0 else c_init c.

(* do_xargs + xargs_main: exit status and the batches of appended arguments, in order *)
Definition xargs_run (c : config) (args : list arg) (input_err : bool) (outcomes : list child)
  : N * list (list arg) :=
  (* with -I the initial arguments are charged without the replacement string (the lengths once an empty line is put in): they are
     not run as written, and the command line is held against the limits again when a line has been put in (fits_system) *)
  match charge_init (limiters0 c) (charged c) with
  | None => (1, [])
  | Some tmpl => process_x c tmpl tmpl [] false args input_err {| res := Success; outs := outcomes; log := [] |}
  end.
