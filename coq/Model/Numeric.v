(* Model of the numeric operand handling of find: convert_arg_to_comparable_value(_and_suffix),
   ComparableValue::matches/imatches (matchers/mod.rs), -size's unit table and rounding
   (matchers/size.rs), the age computation of -mtime/-mmin & co and the -newer tests
   (matchers/time.rs), mode_bits_match (matchers/perm.rs).  Definitions only. *)
Require Import Tables.
From Coq Require Import List NArith ZArith Bool Arith.
Import ListNotations.

Inductive cmp := MoreThan (n : N) | EqualTo (n : N) | LessThan (n : N).

Definition matches (c : cmp) (v : N) : bool :=
  match c with MoreThan n => (n <? v)%N | EqualTo n => (v =? n)%N | LessThan n => (v <? n)%N end.

(* imatches on a signed value: the i64 -> u64 cast only happens for non-negative values *)
Definition imatches (c : cmp) (v : Z) : bool :=
  match c with
  | MoreThan n => (0 <=? v)%Z && (n <? Z.to_N v)%N
  | EqualTo n => (0 <=? v)%Z && (Z.to_N v =? n)%N
  | LessThan n => (v <? 0)%Z || (Z.to_N v <? n)%N
  end.

(* ---- operand syntax: optional sign, decimal digits, then any suffix without newline; then a u64 parse; characters as byte values ---- *)
Definition is_digit (c : nat) : bool := (48 <=? c) && (c <=? 57).
Fixpoint span_digits (s : list nat) : list nat * list nat :=
  match s with
  | c :: s' => if is_digit c then let '(d, r) := span_digits s' in (c :: d, r) else ([], s)
  | [] => ([], [])
  end.
Definition digits_val (ds : list nat) : N := fold_left (fun acc c => (acc * 10 + N.of_nat (c - 48))%N) ds 0%N.
Definition u64_max : N := 18446744073709551615.

Definition parse_cv (s : list nat) : option (cmp * list nat) :=
  let '(sign, rest) := match s with 43 :: r => (1, r) | 45 :: r => (2, r) | _ => (0, s) end in
  let '(ds, suffix) := span_digits rest in
  match ds with
  | [] => None
  | _ => if existsb (Nat.eqb 10) suffix then None      (* '.' does not match a newline *)
         else let v := digits_val ds in
              if (v <=? u64_max)%N
              then Some (match sign with 1 => MoreThan v | 2 => LessThan v | _ => EqualTo v end, suffix)
              else None
  end.
(* the variant without suffix *)
Definition parse_cv_plain (s : list nat) : option cmp :=
  match parse_cv s with Some (c, []) => Some c | _ => None end.

(* ---- -size ---- *)
Fixpoint list_eqb (a b : list nat) : bool :=
  match a, b with [], [] => true | x :: a', y :: b' => (x =? y) && list_eqb a' b' | _, _ => false end.
Fixpoint assoc_str (k : list nat) (t : list (list nat * N)) : option N :=
  match t with [] => None | (k', v) :: t' => if list_eqb k k' then Some v else assoc_str k t' end.
Definition unit_bits (suffix : list nat) : option N := assoc_str suffix size_units.   (* Unit::from_str + the shift table *)

(* byte_size_to_unit_size *)
Definition unit_size (bits size : N) : N :=
  (if size =? 0 then 0 else if bits =? 0 then size else N.shiftr (size - 1) bits + 1)%N.

(* -size OPERAND on a file of [size] bytes: None = operand rejected at parse time *)
Definition size_test (operand : list nat) (size : N) : option bool :=
  match parse_cv operand with
  | None => None
  | Some (c, suffix) => match unit_bits suffix with
                        | None => None
                        | Some bits => Some (matches c (unit_size bits size))
                        end
  end.
(* -links / -inum / -uid / -gid OPERAND on the measured value *)
Definition num_test (operand : list nat) (v : N) : option bool :=
  match parse_cv_plain operand with None => None | Some c => Some (matches c v) end.

(* ---- time tests: now and timestamps in nanoseconds since the epoch ---- *)
(* FileTimeMatcher (period 86400) / FileAgeRangeMatcher (period 60), today_start = false:
   age = |now - ts| truncated to whole seconds, signed, divided (towards zero) by the period,
   minus 1 when the timestamp is in the future *)
Definition age_units (period now ts : Z) : Z :=
  let d := (now - ts)%Z in
  if (0 <=? d)%Z then ((d / 1000000000) / period)%Z
  else (Z.quot (- ((- d) / 1000000000)) period - 1)%Z.
Definition age_test (period : Z) (operand : list nat) (now ts : Z) : option bool :=
  match parse_cv_plain operand with None => None | Some c => Some (imatches c (age_units period now ts)) end.

(* NewerMatcher / NewerOptionMatcher: reference.duration_since(entry).is_err() *)
Definition newer (entry_ts ref_ts : Z) : bool := (ref_ts <? entry_ts)%Z.

(* ---- -perm: mode_bits_match ---- *)
Inductive pcmp := Exact | AtLeast | AnyOf.
Definition mode_bits_match (c : pcmp) (pattern value : N) : bool :=
  match c with
  | Exact => (N.land 4095 value =? pattern)%N
  | AtLeast => (N.land value pattern =? pattern)%N
  | AnyOf => (pattern =? 0)%N || (0 <? N.land value pattern)%N
  end.
