(* Model of build_matcher_tree / build_top_level_matcher (src/find/matchers/mod.rs) at token
   level (a primary with its operands is one token) and of the And/Or/List/Not matchers
   (logical_matchers.rs).  Definitions only.
   [more] is the conjunction of are_more_expressions (end of input or ")" after an operator is an
   error) and of the expecting_operand test made at the start of the next iteration (a binary
   operator directly after an operator or "!" is an error): the two together reject exactly when
   [more rest] is false, and nothing observable happens in between. *)
From Coq Require Import List Arith Bool Lia.
Import ListNotations.

(* ---------------- primaries, tokens ---------------- *)
Inductive pkind := KTest | KAction | KQuit | KPrune.
Record prim := { pid : nat; pk : pkind }.
Inductive tok := TP (p : prim) | TNot | TAnd | TOr | TComma | TL | TR.

(* ---------------- the matcher tree the code builds ---------------- *)
Inductive matcher :=
| MPrim (p : prim) | MNot (m : matcher)
| MAnd (l : list matcher) | MOr (l : list matcher) | MList (l : list matcher).

Definition b_and (l : list matcher) := match l with [m] => m | _ => MAnd l end.
Definition b_or  (l : list matcher) := match l with [m] => m | _ => MOr l end.
Definition b_list (l : list matcher) := match l with [m] => m | _ => MList l end.

(* List > Or > And builders, as (closed or-groups, closed and-groups of the open or-group, units of the open and-group) *)
Record sigma := { ors : list matcher; ands : list matcher; cur : list matcher }.
Definition sigma0 := {| ors := []; ands := []; cur := [] |}.
Definition push (m : matcher) (s : sigma) := {| ors := ors s; ands := ands s; cur := cur s ++ [m] |}.
Definition new_or (s : sigma) := {| ors := ors s; ands := ands s ++ [b_and (cur s)]; cur := [] |}.
Definition new_list (s : sigma) := {| ors := ors s ++ [b_or (ands s ++ [b_and (cur s)])]; ands := []; cur := [] |}.
Definition finish_sigma (s : sigma) : matcher := b_list (ors s ++ [b_or (ands s ++ [b_and (cur s)])]).
Definition mnot (b : bool) (m : matcher) := if b then MNot m else m.

(* build_matcher_tree with its recursion on "(" made explicit as a stack of suspended frames *)
Record state := { stack : list (sigma * bool); sg : sigma; inv : bool; prevL : bool }.
Inductive result (A : Type) := Ok (a : A) | Error.
Arguments Ok {A}. Arguments Error {A}.

Definition more (rest : list tok) : bool :=          (* are_more_expressions + expecting_operand *)
  match rest with
  | [] | TR :: _ | TAnd :: _ | TOr :: _ | TComma :: _ => false
  | _ => true
  end.
Definition nonempty {A} (l : list A) := match l with [] => false | _ => true end.

Definition step (st : state) (t : tok) (rest : list tok) : result state :=
  match t with
  | TP p => Ok {| stack := stack st; sg := push (mnot (inv st) (MPrim p)) (sg st); inv := false; prevL := false |}
  | TNot => if more rest then Ok {| stack := stack st; sg := sg st; inv := negb (inv st); prevL := false |} else Error
  | TAnd => if more rest && nonempty (cur (sg st))
            then Ok {| stack := stack st; sg := sg st; inv := inv st; prevL := false |} else Error
  | TOr => if more rest && nonempty (cur (sg st))
            then Ok {| stack := stack st; sg := new_or (sg st); inv := inv st; prevL := false |} else Error
  | TComma => if more rest && nonempty (cur (sg st))
            then Ok {| stack := stack st; sg := new_list (sg st); inv := inv st; prevL := false |} else Error
  | TL => Ok {| stack := (sg st, inv st) :: stack st; sg := sigma0; inv := false; prevL := true |}
  | TR => match stack st with
          | [] => Error
          | (s0, i0) :: stk =>
              if prevL st then Error
              else Ok {| stack := stk; sg := push (mnot i0 (finish_sigma (sg st))) s0; inv := false; prevL := false |}
          end
  end.

Fixpoint run (st : state) (ts : list tok) : result matcher :=
  match ts with
  | [] => match stack st with [] => Ok (finish_sigma (sg st)) | _ => Error end
  | t :: rest => match step st t rest with Ok st' => run st' rest | Error => Error end
  end.

Definition st0 := {| stack := []; sg := sigma0; inv := false; prevL := false |}.

(* ---------------- evaluation of the tree (logical_matchers.rs) ---------------- *)
Record io := { trace : list nat; quit : bool; pruned : bool }.
Section Sem.
Variable tv : nat -> bool.
Definition eval_prim (p : prim) (s : io) : bool * io :=
  let s1 := {| trace := trace s ++ [pid p]; quit := quit s; pruned := pruned s |} in
  match pk p with
  | KTest | KAction => (tv (pid p), s1)
  | KQuit => (true, {| trace := trace s1; quit := true; pruned := pruned s1 |})
  | KPrune => (true, {| trace := trace s1; quit := quit s1; pruned := true |})
  end.

Fixpoint eval (m : matcher) (s : io) {struct m} : bool * io :=
  match m with
  | MPrim p => eval_prim p s
  | MNot m => let '(b, s') := eval m s in (negb b, s')
  | MAnd l => (fix go (l : list matcher) (s : io) : bool * io :=
                 match l with [] => (true, s) | x :: l' =>
                 let '(b, s') := eval x s in if negb b then (false, s') else if quit s' then (true, s') else go l' s' end) l s
  | MOr l => (fix go (l : list matcher) (s : io) : bool * io :=
                 match l with [] => (false, s) | x :: l' =>
                 let '(b, s') := eval x s in if b then (true, s') else if quit s' then (false, s') else go l' s' end) l s
  | MList l => (fix go (l : list matcher) (rc : bool) (s : io) : bool * io :=
                 match l with [] => (rc, s) | x :: l' =>
                 let '(b, s') := eval x s in if quit s' then (b, s') else go l' b s' end) l false s
  end.

(* ---------------- reference: expressions and their textbook evaluation; quit aborts ---------------- *)
Inductive expr := EP (p : prim) | ENot (e : expr) | EAnd (a b : expr) | EOr (a b : expr) | EComma (a b : expr).

Fixpoint evalE (e : expr) (s : io) : option bool * io :=
  match e with
  | EP p => let '(b, s') := eval_prim p s in ((if quit s' then None else Some b), s')
  | ENot e => let '(o, s') := evalE e s in (option_map negb o, s')
  | EAnd a b => match evalE a s with
                | (Some true, s') => evalE b s'
                | r => r
                end
  | EOr a b => match evalE a s with
               | (Some false, s') => evalE b s'
               | r => r
               end
  | EComma a b => match evalE a s with
                  | (Some _, s') => evalE b s'
                  | r => r
                  end
  end.

Definition obs (r : bool * io) : option bool * io := ((if quit (snd r) then None else Some (fst r)), snd r).
End Sem.

(* m ≈ e: same observable behaviour from every state in which quit has not fired *)
Definition equiv (m : matcher) (e : expr) : Prop :=
  forall tv s, quit s = false -> obs (eval tv m s) = evalE tv e s.

Fixpoint side (m : matcher) : bool :=
  match m with
  | MPrim p => match pk p with KAction => true | _ => false end
  | MNot m => side m
  | MAnd l | MOr l | MList l => (fix any (l : list matcher) := match l with [] => false | x :: l' => side x || any l' end) l
  end.
Definition print_prim := {| pid := 0; pk := KAction |}.
Definition build_top (ts : list tok) : result matcher :=
  match run st0 ts with
  | Ok m => Ok (if side m then m else MAnd [m; MPrim print_prim])
  | Error => Error
  end.
Definition io0 := {| trace := []; quit := false; pruned := false |}.
Definition eval_file (tv : nat -> bool) (m : matcher) : list nat * bool := let '(_, s) := eval tv m io0 in (trace s, quit s).
