(* Model of find ... -delete: the -depth visit sequence (C03) with each directory carrying the
   names it listed, DeleteMatcher's remove_file / remove_dir (rmdir succeeds iff every listed child
   has been removed), failure -> false + exit status, walk continues.  Definitions only. *)
From Coq Require Import List Arith Bool.
Import ListNotations.

Definition name := nat.
Definition rpath := list name.
Inductive node := File | Dir (ch : list (name * node)).

Fixpoint rp_eqb (a b : rpath) : bool :=
  match a, b with [], [] => true | x :: a', y :: b' => (x =? y) && rp_eqb a' b' | _, _ => false end.
Definition mem (p : rpath) (l : list rpath) := existsb (rp_eqb p) l.

(* the -depth visit sequence (C03), each directory event carrying the names it listed when it was opened *)
Inductive event := EFile (rp : rpath) | EDir (rp : rpath) (kids : list name).
Fixpoint posto (rp : rpath) (n : node) : list event :=
  match n with
  | File => [EFile rp]
  | Dir ch => (fix go (l : list (name * node)) : list event :=
                 match l with [] => [] | (nm, x) :: l' => posto (nm :: rp) x ++ go l' end) ch
              ++ [EDir rp (map fst ch)]
  end.

Section D.
Variable M : rpath -> bool.          (* the expression before -delete is true *)

(* DeleteMatcher over the walk: state = entries removed so far (in order) and whether any removal failed *)
Record dst := { removed : list rpath; failed : bool }.
Definition delete_step (s : dst) (e : event) : dst :=
  match e with
  | EFile rp => if M rp then {| removed := removed s ++ [rp]; failed := failed s |} else s
  | EDir rp kids =>
      if M rp then
        if forallb (fun k => mem (k :: rp) (removed s)) kids      (* rmdir succeeds iff the directory is empty now *)
        then {| removed := removed s ++ [rp]; failed := failed s |}
        else {| removed := removed s; failed := true |}
      else s
  end.
Definition delete_run (rp : rpath) (n : node) (s : dst) : dst := fold_left delete_step (posto rp n) s.

(* reference: what should be gone, computed on the tree *)
Fixpoint gone (rp : rpath) (n : node) : list rpath * bool (* everything below and including rp removed *) :=
  match n with
  | File => if M rp then ([rp], true) else ([], false)
  | Dir ch =>
      let r := (fix go (l : list (name * node)) : list rpath * bool :=
                  match l with
                  | [] => ([], true)
                  | (nm, x) :: l' => let '(a, oka) := gone (nm :: rp) x in
                                     let '(b, okb) := go l' in (a ++ b, oka && okb)
                  end) ch in
      if M rp && snd r then (fst r ++ [rp], true) else (fst r, false)
  end.
End D.

