From Coq Require Import List Arith Bool Lia.
Import ListNotations.
Set Implicit Arguments.

(* ---------- file tree as the walker sees it ---------- *)
Definition name := nat.
Inductive node :=
| Leaf : node
| Dang : node    (* dangling link under a follow mode: walkdir yields an error, find turns it back into an entry *)
| Bad  : node
| Dir  : list (name * node) -> node.

Definition rpath := list name.            (* reversed component list below the root *)
Inductive event := Ent (rp : rpath) (d : nat) (isdir : bool) | Err (rp : rpath).

Record cfg := { mind : nat; maxd : nat; post : bool }.

Section W.
Variable c : cfg.
Variable P : rpath -> nat -> bool.      (* prune verdict of the expression on a directory entry *)
Variable fixed : bool.   (* true: the repaired code (skip_current_dir only when not depth-first; depth filter on converted entries) *)

Definition inr (d : nat) : bool := (mind c <=? d) && (d <=? maxd c).

(* ---------- walkdir::IntoIter, transcribed ---------- *)
Record st := {
  start    : option node;
  stack    : list (rpath * list (name * node));   (* deepest first *)
  deferred : list (rpath * nat);                    (* top first *)
  depth    : nat
}.

Definition skippable (s : st) : bool := (depth s <? mind c) || (maxd c <? depth s).

(* handle_entry: returns new state and optional yielded event *)
Definition handle_entry (s : st) (rp : rpath) (d : nat) (n : node) : st * option event :=
  match n with
  | Bad => (s, Some (Err rp))
  | Dang => (s, if fixed && skippable s then None else Some (Ent rp d false))
      (* pinned code: the error-turned-entry never meets walkdir's depth filter *)
  | Leaf => (s, if skippable s then None else Some (Ent rp d false))
  | Dir ch =>
      let s1 := {| start := start s; stack := (rp, ch) :: stack s; deferred := deferred s; depth := depth s |} in
      if post c then
        ({| start := start s1; stack := stack s1; deferred := (rp, d) :: deferred s1; depth := depth s1 |}, None)
      else (s1, if skippable s then None else Some (Ent rp d true))
  end.

Definition get_deferred (s : st) : st * option event :=
  if post c then
    if depth s <? length (deferred s) then
      match deferred s with
      | (rp, d) :: rest =>
          let s' := {| start := start s; stack := stack s; deferred := rest; depth := depth s |} in
          (s', if skippable s then None else Some (Ent rp d true))
      | [] => (s, None)
      end
    else (s, None)
  else (s, None).

Definition set_depth (s : st) (d : nat) : st :=
  {| start := start s; stack := stack s; deferred := deferred s; depth := d |}.
Definition pop (s : st) : st :=
  {| start := start s; stack := tl (stack s); deferred := deferred s; depth := depth s |}.

(* one iteration of the loops inside next(): either yields, or makes progress, or is finished *)
Inductive res := Yield (e : event) (s : st) | Step (s : st) | Done.

Definition iter (s : st) : res :=
  match start s with
  | Some n =>
      let s0 := {| start := None; stack := stack s; deferred := deferred s; depth := depth s |} in
      let '(s1, o) := handle_entry s0 [] 0 n in
      match o with Some e => Yield e s1 | None => Step s1 end
  | None =>
      match stack s with
      | [] =>
          if post c then
            let s0 := set_depth s 0 in
            let '(s1, o) := get_deferred s0 in
            match o with Some e => Yield e s1 | None => Done end
          else Done
      | (prp, ch) :: rest =>
          let s0 := set_depth s (length (stack s)) in
          let '(s1, o) := get_deferred s0 in
          match o with
          | Some e => Yield e s1
          | None =>
              if maxd c <? depth s1 then Step (pop s1)
              else match ch with
                   | [] => Step (pop s1)
                   | (nm, n) :: ch' =>
                       let s2 := {| start := start s1; stack := (prp, ch') :: rest; deferred := deferred s1; depth := depth s1 |} in
                       let '(s3, o) := handle_entry s2 (nm :: prp) (depth s1) n in
                       match o with Some e => Yield e s3 | None => Step s3 end
                   end
          end
      end
  end.

(* process_dir: drive the iterator; after an entry on which the expression pruned, skip_current_dir *)
Definition after_event (e : event) (s : st) : st :=
  match e with
  | Ent rp d true =>
      if P rp d && negb (fixed && post c) then (match stack s with [] => s | _ => pop s end) else s
  | _ => s
  end.

Fixpoint run (fuel : nat) (s : st) : list event :=
  match fuel with
  | 0 => []
  | S f =>
      match iter s with
      | Done => []
      | Step s' => run f s'
      | Yield e s' => e :: run f (after_event e s')
      end
  end.

Definition init (n : node) : st := {| start := Some n; stack := []; deferred := []; depth := 0 |}.

(* ---------- reference: recursive depth-first traversal ---------- *)
Fixpoint size (n : node) : nat :=
  match n with
  | Dir ch => S (S (S (fold_right (fun x a => size (snd x) + a) 0 ch)))
  | _ => 1
  end.

Fixpoint pre (rp : rpath) (d : nat) (n : node) {struct n} : list event :=
  match n with
  | Leaf | Dang => if inr d then [Ent rp d false] else []
  | Bad => [Err rp]
  | Dir ch =>
      (if inr d then [Ent rp d true] else []) ++
      (if (maxd c <=? d) || (inr d && P rp d) then []
       else (fix go (l : list (name * node)) : list event :=
               match l with
               | [] => []
               | (nm, x) :: l' => pre (nm :: rp) (S d) x ++ go l'
               end) ch)
  end.

Fixpoint posto (rp : rpath) (d : nat) (n : node) {struct n} : list event :=
  match n with
  | Leaf | Dang => if inr d then [Ent rp d false] else []
  | Bad => [Err rp]
  | Dir ch =>
      (if (maxd c <=? d) then []
       else (fix go (l : list (name * node)) : list event :=
               match l with
               | [] => []
               | (nm, x) :: l' => posto (nm :: rp) (S d) x ++ go l'
               end) ch)
      ++ (if inr d then [Ent rp d true] else [])
  end.
End W.

(* ---------- process_dir (src/find/mod.rs) on top of the iterator ----------
   walkdir always runs in pre-order, without a depth floor (mind = 0, post = false); find filters -mindepth itself
   and, with -depth, keeps each directory pending until something that is not beneath it arrives. *)
Definition wcfg (c : cfg) : cfg := {| mind := 0; maxd := maxd c; post := false |}.
Definition edepth (e : event) : nat := match e with Ent _ d _ => d | Err rp => length rp end.
(* entries below -mindepth are walked but not evaluated; diagnostics are never filtered *)
Definition keepd (c : cfg) (e : event) : bool := match e with Ent _ d _ => mind c <=? d | Err _ => true end.

(* the pending directories (deepest first) that are due when something of depth d arrives *)
Fixpoint flush (d : nat) (pend : list event) : list event * list event :=
  match pend with
  | p :: rest => if d <=? edepth p then let '(em, rem) := flush d rest in (p :: em, rem) else ([], pend)
  | [] => ([], [])
  end.
Fixpoint defer (mn : nat) (evs pend : list event) : list event :=
  match evs with
  | [] => pend                                         (* end of the walk: everything still pending, deepest first *)
  | e :: evs' =>
      let '(em, rem) := flush (edepth e) pend in
      match e with
      | Ent _ d true => if d <? mn then em ++ defer mn evs' rem else em ++ defer mn evs' (e :: rem)
      | Ent _ d false => if d <? mn then em ++ defer mn evs' rem else em ++ e :: defer mn evs' rem
      | Err _ => em ++ e :: defer mn evs' rem
      end
  end.

(* process_dir as a whole.  [size n] steps always suffice for the iterator (walk_pre_correct).  The prune verdict is
   only ever asked for entries that are evaluated, and is ignored with -depth. *)
Definition walk (c : cfg) (P : rpath -> nat -> bool) (n : node) : list event :=
  if post c then defer (mind c) (run (wcfg c) (fun _ _ => false) true (size n) (init n)) []
  else filter (keepd c) (run (wcfg c) (fun rp d => (mind c <=? d) && P rp d) true (size n) (init n)).
