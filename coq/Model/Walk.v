From Coq Require Import List Arith Bool Lia.
Import ListNotations.
Set Implicit Arguments.

(* ---------- file tree as the walker sees it ---------- *)
Definition name := nat.
Inductive node :=
| Leaf : node
| Dang : node    (* dangling link under a follow mode: walkdir yields an error, find turns it back into an entry *)
| Bad  : node
| Dir  : list (name * node) -> node.

Definition rpath := list name.            (* reversed component list below the root *)
Inductive event := Ent (rp : rpath) (d : nat) (isdir : bool) | Err (rp : rpath).

Record cfg := { mind : nat; maxd : nat; post : bool }.

Section W.
Variable c : cfg.
Variable P : rpath -> nat -> bool.      (* prune verdict of the expression on a directory entry *)
Variable fixed : bool.   (* true: the repaired code (skip_current_dir only when not depth-first; depth filter on converted entries) *)

Definition inr (d : nat) : bool := (mind c <=? d) && (d <=? maxd c).

(* ---------- walkdir::IntoIter, transcribed ---------- *)
Record st := {
  start    : option node;
  stack    : list (rpath * list (name * node));   (* deepest first *)
  deferred : list (rpath * nat);                    (* top first *)
  depth    : nat
}.

Definition skippable (s : st) : bool := (depth s <? mind c) || (maxd c <? depth s).

(* handle_entry: returns new state and optional yielded event *)
Definition handle_entry (s : st) (rp : rpath) (d : nat) (n : node) : st * option event :=
  match n with
  | Bad => (s, Some (Err rp))
  | Dang => (s, if fixed && skippable s then None else Some (Ent rp d false))
      (* pinned code: the error-turned-entry never meets walkdir's depth filter *)
  | Leaf => (s, if skippable s then None else Some (Ent rp d false))
  | Dir ch =>
      let s1 := {| start := start s; stack := (rp, ch) :: stack s; deferred := deferred s; depth := depth s |} in
      if post c then
        ({| start := start s1; stack := stack s1; deferred := (rp, d) :: deferred s1; depth := depth s1 |}, None)
      else (s1, if skippable s then None else Some (Ent rp d true))
  end.

Definition get_deferred (s : st) : st * option event :=
  if post c then
    if depth s <? length (deferred s) then
      match deferred s with
      | (rp, d) :: rest =>
          let s' := {| start := start s; stack := stack s; deferred := rest; depth := depth s |} in
          (s', if skippable s then None else Some (Ent rp d true))
      | [] => (s, None)
      end
    else (s, None)
  else (s, None).

Definition set_depth (s : st) (d : nat) : st :=
  {| start := start s; stack := stack s; deferred := deferred s; depth := d |}.
Definition pop (s : st) : st :=
  {| start := start s; stack := tl (stack s); deferred := deferred s; depth := depth s |}.

(* one iteration of the loops inside next(): either yields, or makes progress, or is finished *)
Inductive res := Yield (e : event) (s : st) | Step (s : st) | Done.

Definition iter (s : st) : res :=
  match start s with
  | Some n =>
      let s0 := {| start := None; stack := stack s; deferred := deferred s; depth := depth s |} in
      let '(s1, o) := handle_entry s0 [] 0 n in
      match o with Some e => Yield e s1 | None => Step s1 end
  | None =>
      match stack s with
      | [] =>
          if post c then
            let s0 := set_depth s 0 in
            let '(s1, o) := get_deferred s0 in
            match o with Some e => Yield e s1 | None => Done end
          else Done
      | (prp, ch) :: rest =>
          let s0 := set_depth s (length (stack s)) in
          let '(s1, o) := get_deferred s0 in
          match o with
          | Some e => Yield e s1
          | None =>
              if maxd c <? depth s1 then Step (pop s1)
              else match ch with
                   | [] => Step (pop s1)
                   | (nm, n) :: ch' =>
                       let s2 := {| start := start s1; stack := (prp, ch') :: rest; deferred := deferred s1; depth := depth s1 |} in
                       let '(s3, o) := handle_entry s2 (nm :: prp) (depth s1) n in
                       match o with Some e => Yield e s3 | None => Step s3 end
                   end
          end
      end
  end.

(* process_dir: drive the iterator; after an entry on which the expression pruned, skip_current_dir *)
Definition after_event (e : event) (s : st) : st :=
  match e with
  | Ent rp d true =>
      if P rp d && negb (fixed && post c) then (match stack s with [] => s | _ => pop s end) else s
  | _ => s
  end.

Fixpoint run (fuel : nat) (s : st) : list event :=
  match fuel with
  | 0 => []
  | S f =>
      match iter s with
      | Done => []
      | Step s' => run f s'
      | Yield e s' => e :: run f (after_event e s')
      end
  end.

Definition init (n : node) : st := {| start := Some n; stack := []; deferred := []; depth := 0 |}.

(* ---------- reference: recursive depth-first traversal ---------- *)
Fixpoint size (n : node) : nat :=
  match n with
  | Dir ch => S (S (S (fold_right (fun x a => size (snd x) + a) 0 ch)))
  | _ => 1
  end.

Fixpoint pre (rp : rpath) (d : nat) (n : node) {struct n} : list event :=
  match n with
  | Leaf | Dang => if inr d then [Ent rp d false] else []
  | Bad => [Err rp]
  | Dir ch =>
      (if inr d then [Ent rp d true] else []) ++
      (if (maxd c <=? d) || (inr d && P rp d) then []
       else (fix go (l : list (name * node)) : list event :=
               match l with
               | [] => []
               | (nm, x) :: l' => pre (nm :: rp) (S d) x ++ go l'
               end) ch)
  end.

Fixpoint posto (rp : rpath) (d : nat) (n : node) {struct n} : list event :=
  match n with
  | Leaf | Dang => if inr d then [Ent rp d false] else []
  | Bad => [Err rp]
  | Dir ch =>
      (if (maxd c <=? d) then []
       else (fix go (l : list (name * node)) : list event :=
               match l with
               | [] => []
               | (nm, x) :: l' => posto (nm :: rp) (S d) x ++ go l'
               end) ch)
      ++ (if inr d then [Ent rp d true] else [])
  end.
End W.

(* process_dir as a whole, for the repaired code: an empty depth range selects nothing; otherwise
   the iterator is driven to the end.  [size n] steps always suffice (walk_pre/post_correct). *)
Definition walk (c : cfg) (P : rpath -> nat -> bool) (n : node) : list event :=
  if maxd c <? mind c then [] else run c P true (size n) (init n).
