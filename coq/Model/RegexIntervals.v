(* Model of check_intervals (src/find/matchers/regex.rs): the bounds of every interval (lower <= upper, each at most RE_DUP_MAX),
   and in the syntaxes that write their operators with a backslash where the operators stand - GNU's posix-basic refuses "\{" with
   nothing to repeat and an interval or "*" directly behind another repetition; its grep takes the former for a brace.  The
   pieces are those of basic_pieces (the same states as RegexWrap.pre, with: a repetition has just been read).  Definitions only. *)
Require Import RegexWrap.
From Coq Require Import List Arith Bool NArith.
Import ListNotations.

Definition c_comma := 44.
Fixpoint take_ds (l : list nat) : list nat * list nat :=
  match l with c :: l' => if is_digit c then let '(a, b) := take_ds l' in (c :: a, b) else ([], l) | [] => ([], []) end.
(* the value of a run of digits, capped (everything above RE_DUP_MAX is refused alike) *)
Fixpoint dval (acc : N) (ds : list nat) : N :=
  match ds with [] => acc | d :: r => let v := (acc * 10 + N.of_nat (d - 48))%N in dval (if (40000 <? v)%N then 40000%N else v) r end.
Definition re_dup_max : N := 32767%N.
(* the text behind the opening of an interval *)
Definition bounds_ok (l : list nat) : bool :=
  let '(low, after_low) := take_ds l in
  let high := match after_low with c :: r => if c =? c_comma then fst (take_ds r) else low | [] => low end in
  let nonempty (x : list nat) := match x with [] => false | _ => true end in
  negb (nonempty low && nonempty high && (dval 0 high <? dval 0 low)%N) &&
  negb (nonempty low && (re_dup_max <? dval 0 low)%N) && negb (nonempty high && (re_dup_max <? dval 0 high)%N).

(* posix-extended: "{" outside bracket expressions, not quoted *)
Inductive est := ET | EE | EB (may_caret may_rb : bool) | EK (d : nat) (prev : bool).
Fixpoint ere_ok (q : est) (s : list nat) : bool :=
  match s with
  | [] => true
  | c :: s' =>
    match q with
    | ET => if c =? c_lbrace then bounds_ok s' && ere_ok ET s'
            else if c =? c_bs then ere_ok EE s'
            else if c =? c_lb then ere_ok (EB true true) s'
            else ere_ok ET s'
    | EE => ere_ok ET s'
    | EB mc mr =>
        if mc && (c =? c_caret) then ere_ok (EB false true) s'
        else if mr && (c =? c_rb) then ere_ok (EB false false) s'
        else if c =? c_rb then ere_ok ET s'
        else if c =? c_lb then
          match s' with
          | d :: s'' => if (d =? c_colon) || (d =? c_dot) || (d =? c_eq) then ere_ok (EK d false) s'' else ere_ok (EB false false) s'
          | [] => true
          end
        else ere_ok (EB false false) s'
    | EK d prev => if prev && (c =? c_rb) then ere_ok (EB false false) s' else ere_ok (EK d (c =? d)) s'
    end
  end.

(* grep ([strict] = false) and posix-basic ([strict] = true) *)
Inductive ist := IT (start anchored after_rep : bool) | IE (start after_rep : bool) | IB (may_caret may_rb : bool) | IK (d : nat) (prev : bool) | II (prev_bs : bool).
Fixpoint basic_ok (strict nl : bool) (q : ist) (s : list nat) : bool :=
  match s with
  | [] => true
  | c :: s' =>
    match q with
    | IT st an ar =>
        if c =? c_bs then basic_ok strict nl (IE st ar) s'
        else if c =? c_lb then basic_ok strict nl (IB true true) s'
        else if nl && (c =? c_nl) then basic_ok strict nl (IT true false false) s'
        else if st && negb an && (c =? c_caret) then basic_ok strict nl (IT true true false) s'
        else if c =? 42 then
          (if st then basic_ok strict nl (IT false false false) s'
           else if strict && ar then false else basic_ok strict nl (IT false false true) s')
        else basic_ok strict nl (IT false false false) s'
    | IE st ar =>
        if (c =? c_lp) || (c =? c_bar) then basic_ok strict nl (IT true false false) s'
        else if c =? c_lbrace then
          (if st then (if strict then false else basic_ok strict nl (IT false false false) s')
           else if strict && ar then false else bounds_ok s' && basic_ok strict nl (II false) s')
        else if (c =? c_plus) || (c =? c_qm) then basic_ok strict nl (IT false false (negb st)) s'
        else basic_ok strict nl (IT false false false) s'
    | IB mc mr =>
        if mc && (c =? c_caret) then basic_ok strict nl (IB false true) s'
        else if mr && (c =? c_rb) then basic_ok strict nl (IB false false) s'
        else if c =? c_rb then basic_ok strict nl (IT false false false) s'
        else if c =? c_lb then
          match s' with
          | d :: s'' => if (d =? c_colon) || (d =? c_dot) || (d =? c_eq) then basic_ok strict nl (IK d false) s'' else basic_ok strict nl (IB false false) s'
          | [] => true
          end
        else basic_ok strict nl (IB false false) s'
    | IK d prev => if prev && (c =? c_rb) then basic_ok strict nl (IB false false) s' else basic_ok strict nl (IK d (c =? d)) s'
    | II prev => if prev && (c =? c_rbrace) then basic_ok strict nl (IT false false true) s' else basic_ok strict nl (II (c =? c_bs)) s'
    end
  end.

(* ty: 0 emacs (no intervals), 1 grep, 2 posix-basic, 3 posix-extended *)
Definition intervals_ok (ty : nat) (pattern : list nat) : bool :=
  match ty with
  | 0 => true
  | 1 => basic_ok false true (IT true false false) pattern
  | 2 => basic_ok true false (IT true false false) pattern
  | _ => ere_ok ET pattern
  end.
