(* Model of check_back_references (src/find/matchers/regex.rs): which back-references of a -regex pattern refer to a group that is
   complete where they stand.  [ref_lex]: the pattern as the operators the check looks at (groups, alternation, references; a quoted
   character and a bracket expression are skipped); [ref_run]: one pass with the set of complete groups and, for the pattern and
   every group still open, what was complete where it began and what its earlier alternatives completed.  Definitions only. *)
Require Import RegexWrap.
From Coq Require Import List Arith Bool.
Import ListNotations.

Inductive rtok := TOpen | TClose | TAlt | TRef (n : nat) | TOther.

(* ---- the operators of a pattern.  ext: posix-extended (operators without a backslash); nl: a newline is an alternation (grep);
   cls: "[:" opens a class inside a bracket expression (all but emacs) ---- *)
Inductive lst := LT | LE | LB (may_caret may_rb : bool) | LK (d : nat) (prev : bool).
Fixpoint ref_lex (ext nl cls : bool) (q : lst) (s : list nat) : list rtok :=
  match s with
  | [] => []
  | c :: s' =>
    match q with
    | LT =>
        if c =? c_bs then ref_lex ext nl cls LE s'
        else if c =? c_lb then TOther :: ref_lex ext nl cls (LB true true) s'
        else if ext && (c =? c_lp) then TOpen :: ref_lex ext nl cls LT s'
        else if ext && (c =? c_rp) then TClose :: ref_lex ext nl cls LT s'
        else if ext && (c =? c_bar) then TAlt :: ref_lex ext nl cls LT s'
        else if nl && (c =? c_nl) then TAlt :: ref_lex ext nl cls LT s'
        else TOther :: ref_lex ext nl cls LT s'
    | LE =>
        (if negb ext && (c =? c_lp) then TOpen
         else if negb ext && (c =? c_rp) then TClose
         else if negb ext && (c =? c_bar) then TAlt
         else if is_ref c then TRef (c - 48)
         else TOther) :: ref_lex ext nl cls LT s'
    | LB mc mr =>
        if mc && (c =? c_caret) then ref_lex ext nl cls (LB false true) s'
        else if mr && (c =? c_rb) then ref_lex ext nl cls (LB false false) s'
        else if c =? c_rb then ref_lex ext nl cls LT s'
        else if c =? c_lb then
          match s' with
          | d :: s'' => if (cls && (d =? c_colon)) || (d =? c_dot) || (d =? c_eq) then ref_lex ext nl cls (LK d false) s''
                        else ref_lex ext nl cls (LB false false) s'
          | [] => []
          end
        else ref_lex ext nl cls (LB false false) s'
    | LK d prev => if prev && (c =? c_rb) then ref_lex ext nl cls (LB false false) s' else ref_lex ext nl cls (LK d (c =? d)) s'
    end
  end.

(* ---- the pass ---- *)
Definition rframe := (nat * list nat * list nat)%type.       (* the group, what was complete where it began, what its earlier alternatives completed *)
Record refst := { opened : nat; complete : list nat; stack : list rframe }.
Definition ref_mem (n : nat) (l : list nat) : bool := existsb (Nat.eqb n) l.
Definition ref_step (s : refst) (t : rtok) : option refst :=
  match t with
  | TOpen => Some {| opened := S (opened s); complete := complete s; stack := (S (opened s), complete s, []) :: stack s |}
  | TClose =>
      match stack s with
      | (g, _, earlier) :: (f :: rest) => Some {| opened := opened s; complete := g :: earlier ++ complete s; stack := f :: rest |}
      | _ => Some s                                              (* a ")" that closes nothing is an ordinary character *)
      end
  | TAlt =>
      match stack s with
      | (g, began, earlier) :: rest => Some {| opened := opened s; complete := began; stack := (g, began, earlier ++ complete s) :: rest |}
      | [] => Some s
      end
  | TRef n => if ref_mem n (complete s) then Some s else None
  | TOther => Some s
  end.
Fixpoint ref_run (s : refst) (ts : list rtok) : bool :=
  match ts with
  | [] => true
  | t :: ts' => match ref_step s t with Some s' => ref_run s' ts' | None => false end
  end.
Definition ref_start : refst := {| opened := 0; complete := []; stack := [(0, [], [])] |}.
Definition refs_ok (ts : list rtok) : bool := ref_run ref_start ts.
Definition back_references_ok (ext nl cls : bool) (pattern : list nat) : bool := refs_ok (ref_lex ext nl cls LT pattern).
