(* Model of the sibling order under find's -sorted extension: walkdir's sort_by(|a, b| a.file_name().cmp(b.file_name()))
   compares OsStr, i.e. the names byte by byte (a proper prefix first).  Definitions only. *)
From Coq Require Import List Arith Bool.
Import ListNotations.

Definition bname := list nat.          (* a file name as bytes *)

(* lexicographic "less or equal" on byte strings *)
Fixpoint bytes_leb (a b : bname) : bool :=
  match a, b with
  | [], _ => true
  | _ :: _, [] => false
  | x :: a', y :: b' => if x <? y then true else if y <? x then false else bytes_leb a' b'
  end.

(* the children of one directory, as read (any order), put into that order; stable like slice::sort_by *)
Fixpoint insert_name {A} (e : bname * A) (l : list (bname * A)) : list (bname * A) :=
  match l with
  | [] => [e]
  | f :: l' => if bytes_leb (fst f) (fst e) then f :: insert_name e l' else e :: l
  end.
Fixpoint sort_names {A} (l : list (bname * A)) : list (bname * A) :=
  match l with [] => [] | e :: l' => insert_name e (sort_names l') end.
