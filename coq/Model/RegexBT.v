(* The regular-expression engine as -regex uses it: a backtracking matcher started at the beginning of the
   path, alternatives tried in the order written, repetition greedy, the first success wins.  [k] is what
   follows the user's pattern: nothing (the pinned code), "$" (end of text or before a final newline) or the
   end-of-text anchor (the repaired code); Regex::is_match then demands that the match found spans the
   whole string.  Definitions only; theorems in Proofs/RegexBTProofs.v *)
Require Import Regex.
From Coq Require Import List Arith Bool.
Import ListNotations.

Section BT.
Context {A : Type}.
(* the continuation receives the unread rest of the subject *)
Fixpoint bt (r : re) (s : list char) (k : list char -> option A) {struct r} : option A :=
  match r with
  | Emp => None
  | Eps => k s
  | Chr f => match s with c :: s' => if f c then k s' else None | [] => None end
  | Cat a b => bt a s (fun s' => bt b s' k)
  | Alt a b => match bt a s k with Some x => Some x | None => bt b s k end
  | Star a =>
      (* greedy; an iteration that consumes nothing is not repeated (the engine's empty-loop check) *)
      (fix star (n : nat) (s : list char) {struct n} : option A :=
         match n with
         | 0 => k s
         | S n' => match bt a s (fun s' => if length s' <? length s then star n' s' else None) with
                   | Some x => Some x
                   | None => k s
                   end
         end) (length s) s
  end.

Definition star_loop (a : re) (k : list char -> option A) :=
  fix star (n : nat) (s : list char) {struct n} : option A :=
    match n with
    | 0 => k s
    | S n' => match bt a s (fun s' => if length s' <? length s then star n' s' else None) with
              | Some x => Some x
              | None => k s
              end
    end.
End BT.

(* what follows the pattern *)
Definition k_none (rest : list char) : option (list char) := Some rest.                       (* b4c751e: P *)
Definition k_dollar (rest : list char) : option (list char) :=                                 (* 0fb5b61: (P)$ *)
  match rest with [] => Some rest | [10] => Some rest | _ => None end.
Definition k_end (rest : list char) : option (list char) :=                                    (* a7cf9c3: (P)\' *)
  match rest with [] => Some rest | _ => None end.

(* Regex::is_match: a match at position 0 whose length is the length of the text *)
Definition is_match_with (k : list char -> option (list char)) (r : re) (s : list char) : bool :=
  match bt r s k with Some [] => true | _ => false end.
Definition regex_is_match := is_match_with k_end.
