(* Model of xargs -I: normalize_options (which of -I/-n/-L is in force) and the substitution
   performed by CommandBuilder::execute.  Definitions only. *)
From Coq Require Import List Arith Bool NArith.
Import ListNotations.

Definition byte := nat.

Fixpoint is_prefix (r s : list byte) : bool :=
  match r, s with
  | [], _ => true
  | a :: r', b :: s' => (a =? b) && is_prefix r' s'
  | _ :: _, [] => false
  end.

(* str::replace: leftmost, non-overlapping occurrences of R replaced by x (R non-empty) *)
Fixpoint replace_all (fuel : nat) (R x s : list byte) : list byte :=
  match fuel with
  | 0 => s
  | S f => match s with
           | [] => []
           | a :: s' => if is_prefix R s then x ++ replace_all f R x (skipn (length R) s)
                        else a :: replace_all f R x s'
           end
  end.
Definition str_replace (R x s : list byte) : list byte := replace_all (length s) R x s.

(* execute() in replace mode: program name unchanged, every initial argument rewritten, nothing appended *)
Definition replace_argv (R line : list byte) (cmd : list (list byte)) : list (list byte) :=
  match cmd with
  | [] => []
  | prog :: init => prog :: map (str_replace R line) init
  end.

(* batch_mode: -n N, -L N and -I R / -i / --replace[=R] in the order they were given.  Each replaces the others, except that
   -n 1 leaves an earlier -I in force.  The state is (max_args, max_lines, replace?). *)
Inductive bopt := ON (n : N) | OL (n : N) | OI.
Definition bstate := (option N * option N * bool)%type.
Definition bstep (st : bstate) (o : bopt) : bstate :=
  let '(n, l, r) := st in
  match o with
  | OI => (None, None, true)
  | OL k => (None, Some k, false)
  | ON k => if N.eqb k 1 && r then st else (Some k, None, false)
  end.
Definition batch_mode (os : list bopt) : bstate := fold_left bstep os (None, None, false).
(* normalize_options: replace mode means one argument (one line) per run *)
Definition normalize (os : list bopt) : bstate :=
  let '(n, l, r) := batch_mode os in if r then (Some 1%N, None, true) else (n, l, false).
