(* Model of xargs -I: normalize_options (which of -I/-n/-L is in force) and the substitution
   performed by CommandBuilder::execute.  Definitions only. *)
From Coq Require Import List Arith Bool NArith.
Import ListNotations.

Definition byte := nat.

Fixpoint is_prefix (r s : list byte) : bool :=
  match r, s with
  | [], _ => true
  | a :: r', b :: s' => (a =? b) && is_prefix r' s'
  | _ :: _, [] => false
  end.

(* str::replace: leftmost, non-overlapping occurrences of R replaced by x (R non-empty) *)
Fixpoint replace_all (fuel : nat) (R x s : list byte) : list byte :=
  match fuel with
  | 0 => s
  | S f => match s with
           | [] => []
           | a :: s' => if is_prefix R s then x ++ replace_all f R x (skipn (length R) s)
                        else a :: replace_all f R x s'
           end
  end.
Definition str_replace (R x s : list byte) : list byte := replace_all (length s) R x s.

(* execute() in replace mode: program name unchanged, every initial argument rewritten, nothing appended *)
Definition replace_argv (R line : list byte) (cmd : list (list byte)) : list (list byte) :=
  match cmd with
  | [] => []
  | prog :: init => prog :: map (str_replace R line) init
  end.

(* normalize_options: effective (max_args, max_lines, replace?) from the parsed options and the
   position of the last occurrence of each (None = absent; Option's order: None < Some _) *)
Definition olt (a b : option nat) : bool :=
  match a, b with
  | None, None => false | None, Some _ => true | Some _, None => false
  | Some x, Some y => x <? y end.

Definition normalize (n l : option N) (repl : bool) (i_n i_l i_r : option nat)
  : option N * option N * bool :=
  match n, l, repl with
  | None, None, true => (Some 1%N, None, true)
  | Some 1%N, None, true => (Some 1%N, None, true)
  | Some _, None, false | None, Some _, false | None, None, false => (n, l, false)
  | _, _, _ =>
      if olt i_n i_l && olt i_r i_l then (None, l, false)
      else if olt i_l i_n && olt i_r i_n then (n, None, false)
      else (Some 1%N, None, repl)
  end.
