(* Model of src/find/matchers/glob.rs: glob_to_regex (with regex_push_literal and
   extract_bracket_expr) producing the text of a POSIX basic regular expression, and of the way
   Oniguruma reads that text back (parse_bre) for the fragment glob_to_regex can produce.
   Characters are code points (nat).  Definitions only. *)
Require Import GlobEngine.
From Coq Require Import List Arith Bool.
Import ListNotations.

Definition ch_q := 63.  Definition ch_star := 42.  Definition ch_bs := 92.  Definition ch_lb := 91.  Definition ch_rb := 93.
Definition ch_bang := 33.  Definition ch_caret := 94.  Definition ch_dot := 46.  Definition ch_dollar := 36.
Definition ch_minus := 45.  Definition ch_colon := 58.  Definition ch_eq := 61.

(* regex_push_literal: . [ \ * ^ $ are escaped *)
Definition needs_escape (c : nat) : bool :=
  (c =? ch_dot) || (c =? ch_lb) || (c =? ch_bs) || (c =? ch_star) || (c =? ch_caret) || (c =? ch_dollar).
Definition push_literal (c : nat) : list nat := if needs_escape c then [ch_bs; c] else [c].

(* ---- Oniguruma's reading of a bracket expression (posix-basic syntax; backslash is literal) ---- *)
Inductive bitem := BChar (c : nat) | BRange (lo hi : nat) | BClass (k : nat).
(* class names: 0 alpha 1 digit 2 alnum 3 upper 4 lower 5 space 6 blank 7 punct 8 print 9 graph 10 cntrl 11 xdigit 12 word 13 ascii *)
Definition class_names : list (list nat * nat) :=
  [([97;108;112;104;97], 0); ([100;105;103;105;116], 1); ([97;108;110;117;109], 2); ([117;112;112;101;114], 3);
   ([108;111;119;101;114], 4); ([115;112;97;99;101], 5); ([98;108;97;110;107], 6); ([112;117;110;99;116], 7);
   ([112;114;105;110;116], 8); ([103;114;97;112;104], 9); ([99;110;116;114;108], 10); ([120;100;105;103;105;116], 11);
   ([119;111;114;100], 12); ([97;115;99;105;105], 13)].
Fixpoint list_eqb (a b : list nat) : bool :=
  match a, b with [], [] => true | x :: a', y :: b' => (x =? y) && list_eqb a' b' | _, _ => false end.
Fixpoint class_of (name : list nat) (t : list (list nat * nat)) : option nat :=
  match t with [] => None | (n, k) :: t' => if list_eqb name n then Some k else class_of name t' end.

Definition in_range (lo hi c : nat) : bool := (lo <=? c) && (c <=? hi).
Definition is_upper c := in_range 65 90 c.  Definition is_lower c := in_range 97 122 c.  Definition is_dig c := in_range 48 57 c.
Definition class_mem (k c : nat) : bool :=
  match k with
  | 0 => is_upper c || is_lower c
  | 1 => is_dig c
  | 2 => is_upper c || is_lower c || is_dig c
  | 3 => is_upper c
  | 4 => is_lower c
  | 5 => (c =? 32) || in_range 9 13 c
  | 6 => (c =? 32) || (c =? 9)
  | 7 => in_range 33 47 c || in_range 58 64 c || in_range 91 96 c || in_range 123 126 c
  | 8 => in_range 32 126 c
  | 9 => in_range 33 126 c
  | 10 => in_range 0 31 c || (c =? 127)
  | 11 => is_dig c || in_range 65 70 c || in_range 97 102 c
  | 12 => is_upper c || is_lower c || is_dig c || (c =? 95)
  | _ => c <=? 127
  end.
Definition bitem_mem (b : bitem) (c : nat) : bool :=
  match b with BChar x => c =? x | BRange lo hi => in_range lo hi c | BClass k => class_mem k c end.

Inductive cc_res := CCOk (neg : bool) (items : list bitem) (rest : list nat) | CCErr | CCUnsupported.

(* take the characters up to ":]" *)
Fixpoint take_class (s : list nat) (acc : list nat) : option (list nat * list nat) :=
  match s with
  | a :: ((b :: s') as t) => if (a =? ch_colon) && (b =? ch_rb) then Some (acc, s') else take_class t (acc ++ [a])
  | _ => None
  end.

(* items until the closing bracket; [first]: a "]" here is literal *)
Fixpoint cc_items (fuel : nat) (s : list nat) (first : bool) (acc : list bitem) : cc_res :=
  match fuel with 0 => CCErr | S f =>
  match s with
  | [] => CCErr                                              (* premature end of char-class *)
  | c :: s1 =>
      if (c =? ch_rb) && negb first then CCOk false acc s1
      else if (c =? ch_lb) && (match s1 with d :: _ => (d =? ch_colon) | [] => false end) then
        match take_class (tl s1) [] with
        | Some (name, s2) =>
            match class_of name class_names with
            | Some k =>
                (* a "-" after a class that is not the last character is an error *)
                match s2 with
                | m :: n :: _ => if (m =? ch_minus) && negb (n =? ch_rb) then CCErr else cc_items f s2 false (acc ++ [BClass k])
                | _ => cc_items f s2 false (acc ++ [BClass k])
                end
            | None => CCErr
            end
        | None => CCUnsupported
        end
      else if (c =? ch_lb) && (match s1 with d :: _ => (d =? ch_dot) || (d =? ch_eq) | [] => false end) then CCUnsupported
      else
        match s1 with
        | m :: hi :: s2 =>
            if (m =? ch_minus) && negb (hi =? ch_rb) then
              (* a range c-hi *)
              if (hi =? ch_lb) && (match s2 with d :: _ => (d =? ch_colon) || (d =? ch_dot) || (d =? ch_eq) | [] => false end) then CCUnsupported
              else if hi <? c then CCErr
              else match s2 with
                   | m2 :: n2 :: _ => if (m2 =? ch_minus) && negb (n2 =? ch_rb) then CCErr
                                      else cc_items f s2 false (acc ++ [BRange c hi])
                   | _ => cc_items f s2 false (acc ++ [BRange c hi])
                   end
            else cc_items f s1 false (acc ++ [BChar c])
        | _ => cc_items f s1 false (acc ++ [BChar c])
        end
  end end.

(* [s] is the text after "[" *)
Definition cc_parse (s : list nat) : cc_res :=
  match s with
  | c :: s' => if c =? ch_caret
               then match cc_items (S (length s')) s' true [] with CCOk _ it r => CCOk true it r | x => x end
               else cc_items (S (length s)) s true []
  | [] => CCErr
  end.

Definition punct_list : list nat := [33; 45; 47; 58; 45; 64; 91; 45; 96; 123; 45; 126].         (* !-/:-@[-`{-~ *)
Definition digit_list : list nat := [48; 45; 57].                                               (* 0-9 *)

(* the text before the first occurrence of [d] "]" and what follows it *)
Fixpoint find_close (d : nat) (s : list nat) (acc : list nat) : option (list nat * list nat) :=
  match s with
  | a :: ((b :: s') as t) => if (a =? d) && (b =? ch_rb) then Some (acc, s') else find_close d t (acc ++ [a])
  | _ => None
  end.

(* ---- extract_bracket_expr: the text of the bracket expression ("[" included) and what follows ----
   "[:" must be closed by ":]" and hold one of the twelve POSIX class names ([:punct:] and [:digit:] are spelled out: the
   engine's are Unicode categories); "[." and "[=" must be closed by ".]" and "=]" and are passed on as they are. *)
Fixpoint scan_bracket (fuel : nat) (s : list nat) (expr : list nat) : option (list nat * list nat) :=
  match fuel with 0 => None | S f =>
  match s with
  | [] => None                                   (* never closed *)
  | c :: s1 =>
      let expr1 := expr ++ [c] in
      if c =? ch_rb then Some (expr1, s1)
      else if c =? ch_lb then
        match s1 with
        | d :: s2 =>
            if d =? ch_colon then
              match take_class s2 [] with
              | None => None
              | Some (name, rest) =>
                  match class_of name class_names with
                  | Some k => if 12 <=? k then None
                              else if k =? 7 then scan_bracket f rest (expr ++ punct_list)
                              else if k =? 1 then scan_bracket f rest (expr ++ digit_list)
                              else scan_bracket f rest (expr1 ++ [ch_colon] ++ name ++ [ch_colon; ch_rb])
                  | None => None
                  end
              end
            else if (d =? ch_dot) || (d =? ch_eq) then
              match find_close d s2 [] with
              | None => None
              | Some (body, rest) => scan_bracket f rest (expr1 ++ [d] ++ body ++ [d; ch_rb])
              end
            else scan_bracket f s1 expr1          (* the next character is examined normally *)
        | [] => scan_bracket f s1 expr1
        end
      else scan_bracket f s1 expr1
  end end.

(* [s] is the pattern after "[": Some (expr, rest) when the text is a bracket expression Oniguruma accepts *)
Inductive br_res := BrOk (expr rest : list nat) | BrNone | BrUnsupported.
Definition extract_bracket (s : list nat) : br_res :=
  let '(e0, s0) := match s with c :: s' => if (c =? ch_bang) || (c =? ch_caret) then ([ch_lb; ch_caret], s') else ([ch_lb], s) | [] => ([ch_lb], s) end in
  let '(e1, s1) := match s0 with c :: s' => if c =? ch_rb then (e0 ++ [ch_rb], s') else (e0, s0) | [] => (e0, s0) end in
  match scan_bracket (S (length s1)) s1 e1 with
  | None => BrNone
  | Some (expr, rest) =>
      match cc_parse (tl expr) with
      | CCOk _ _ [] => BrOk expr rest         (* the whole text is one bracket expression *)
      | CCOk _ _ _ => BrUnsupported           (* Oniguruma closes the class earlier than the scanner: outside the fragment *)
      | CCErr => BrNone
      | CCUnsupported => BrUnsupported
      end
  end.

(* ---- glob_to_regex ---- *)
Inductive g2r := GText (t : list nat) | GNever | GUnsupported.
Fixpoint glob_to_regex (fuel : nat) (p : list nat) (acc : list nat) : g2r :=
  match fuel with 0 => GUnsupported | S f =>
  match p with
  | [] => GText acc
  | c :: p1 =>
      if c =? ch_q then glob_to_regex f p1 (acc ++ [ch_dot])
      else if c =? ch_star then glob_to_regex f p1 (acc ++ [ch_dot; ch_star])
      else if c =? ch_bs then
        match p1 with
        | [] => GNever
        | d :: p2 => glob_to_regex f p2 (acc ++ push_literal d)
        end
      else if c =? ch_lb then
        match extract_bracket p1 with
        | BrOk expr rest => if length rest <? length p1 then glob_to_regex f rest (acc ++ expr) else GUnsupported
        | BrNone => glob_to_regex f p1 (acc ++ push_literal c)
        | BrUnsupported => GUnsupported
        end
      else glob_to_regex f p1 (acc ++ push_literal c)
  end end.

(* ---- Oniguruma reading the regex text ---- *)
Definition ci_eq (ci : bool) (x c : nat) : bool :=
  (c =? x) || (ci && ((is_upper x && (c =? x + 32)) || (is_lower x && (c =? x - 32)))).
Definition swapcase (c : nat) : nat := if is_upper c then c + 32 else if is_lower c then c - 32 else c.
Definition cc_pred (ci neg : bool) (items : list bitem) (c : nat) : bool :=
  let m := existsb (fun b => bitem_mem b c) items || (ci && existsb (fun b => bitem_mem b (swapcase c)) items) in
  if neg then negb m else m.

Fixpoint parse_bre (fuel : nat) (ci : bool) (t : list nat) : option re :=
  match fuel with 0 => None | S f =>
  match t with
  | [] => Some []
  | c :: t1 =>
      if c =? ch_bs then
        match t1 with
        | d :: t2 => option_map (cons (RSingle (ci_eq ci d))) (parse_bre f ci t2)
        | [] => None
        end
      else if c =? ch_dot then
        match t1 with
        | d :: t2 => if d =? ch_star then option_map (cons RStar) (parse_bre f ci t2)
                     else option_map (cons (RSingle (fun _ => true))) (parse_bre f ci t1)
        | [] => Some [RSingle (fun _ => true)]
        end
      else if c =? ch_lb then
        match cc_parse t1 with
        | CCOk neg items rest => option_map (cons (RSingle (cc_pred ci neg items))) (parse_bre f ci rest)
        | _ => None
        end
      else option_map (cons (RSingle (ci_eq ci c))) (parse_bre f ci t1)
  end end.

(* Pattern::new + Pattern::matches (the pieces are compiled one by one and matched by [nfa]; their texts put together are the
   regular expression of glob_to_regex, which [parse_bre] reads back piece by piece).  0 = no match, 1 = match, 2 = the regex would not compile (a panic
   in Pattern::new), 3 = outside the modelled fragment (collating symbols, equivalence classes) *)
Definition glob_match (ci : bool) (p s : list nat) : nat :=
  match glob_to_regex (S (length p)) p [] with
  | GNever => 0
  | GUnsupported => 3
  | GText t => match parse_bre (S (length t)) ci t with
               | Some r => if nfa r s then 1 else 0
               | None => 2
               end
  end.
Definition glob_text (p : list nat) : option (option (list nat)) :=
  match glob_to_regex (S (length p)) p [] with
  | GNever => Some None | GUnsupported => None | GText t => Some (Some t) end.
