(* Model of SingleExecMatcher (src/find/matchers/exec.rs): templates split at "{}" when the
   expression is parsed, joined with the path for every file; -execdir's ./basename and working
   directory.  Definitions only. *)
Require Import PathModel Paths PrintfValue.
From Coq Require Import List Arith Bool.
Import ListNotations.

Definition byte := nat.
Definition LB := 123.  Definition RB := 125.     (* '{' '}' *)

(* SingleExecMatcher::new: a.split("{}") ; matches(): parts.join(path) *)
Fixpoint split_braces (s : list byte) (acc : list byte) : list (list byte) :=
  match s with
  | a :: ((b :: s') as t) => if (a =? LB) && (b =? RB) then acc :: split_braces s' [] else split_braces t (acc ++ [a])
  | [a] => [acc ++ [a]]
  | [] => [acc]
  end.
Fixpoint join (sep : list byte) (parts : list (list byte)) : list byte :=
  match parts with
  | [] => []
  | [p] => p
  | p :: ps => p ++ sep ++ join sep ps
  end.
Definition render (tmpl path : list byte) : list byte := join path (split_braces tmpl []).

(* reference: every occurrence of "{}" (leftmost, non-overlapping) replaced by the path, everything else unchanged *)
Fixpoint subst (path s : list byte) : list byte :=
  match s with
  | a :: ((b :: s') as t) => if (a =? LB) && (b =? RB) then path ++ subst path s' else a :: subst path t
  | [a] => [a]
  | [] => []
  end.


(* split_for_execdir: the directory to run in and the name of the entry from there, from the path as spelled - trailing
   slashes ignored, a final "." or ".." is a name like any other ("d/." is "./." in "d"); a path of slashes only is run
   from itself and named as it is.  The name is what %f prints and the directory what %h prints (PrintfValue). *)
Definition exec_path (execdir : bool) (path : list byte) : list byte :=
  if execdir then
    match trim_end_sl path with
    | [] => path
    | t => DOT :: SL :: last_seg t []
    end
  else path.
(* the working directory of the child: None = unchanged *)
Definition exec_cwd (execdir : bool) (path : list byte) : option (list byte) :=
  if execdir then
    match trim_end_sl path with
    | [] => Some path                   (* "/": run from it *)
    | t => match dir_seg t [] None with
           | None => None               (* "foo" is in the current directory: no chdir *)
           | Some [] => Some [SL]       (* "/foo" *)
           | Some d => Some d
           end
    end
  else None.
(* argv: the command word and one argument per template whatever the path contains, {} replaced in all of them *)
Definition exec_argv (execdir : bool) (exe : list byte) (tmpls : list (list byte)) (path : list byte) : list (list byte) :=
  map (fun t => render t (exec_path execdir path)) (exe :: tmpls).
