(* Model of SingleExecMatcher (src/find/matchers/exec.rs): templates split at "{}" when the
   expression is parsed, joined with the path for every file; -execdir's ./basename and working
   directory.  Definitions only. *)
Require Import PathModel.
From Coq Require Import List Arith Bool.
Import ListNotations.

Definition byte := nat.
Definition LB := 123.  Definition RB := 125.     (* '{' '}' *)

(* SingleExecMatcher::new: a.split("{}") ; matches(): parts.join(path) *)
Fixpoint split_braces (s : list byte) (acc : list byte) : list (list byte) :=
  match s with
  | a :: ((b :: s') as t) => if (a =? LB) && (b =? RB) then acc :: split_braces s' [] else split_braces t (acc ++ [a])
  | [a] => [acc ++ [a]]
  | [] => [acc]
  end.
Fixpoint join (sep : list byte) (parts : list (list byte)) : list byte :=
  match parts with
  | [] => []
  | [p] => p
  | p :: ps => p ++ sep ++ join sep ps
  end.
Definition render (tmpl path : list byte) : list byte := join path (split_braces tmpl []).

(* reference: every occurrence of "{}" (leftmost, non-overlapping) replaced by the path, everything else unchanged *)
Fixpoint subst (path s : list byte) : list byte :=
  match s with
  | a :: ((b :: s') as t) => if (a =? LB) && (b =? RB) then path ++ subst path s' else a :: subst path t
  | [a] => [a]
  | [] => []
  end.


(* the path handed to the command: as visited, or ./basename for -execdir: "." joined with the last component
   as spelled (also ".." or "."; "/" stays "/"), or with the whole path when it has no component *)
Definition exec_path (execdir : bool) (path : list byte) : list byte :=
  if execdir then
    match rev (components path) with
    | c :: _ => PathModel.join [DOT] (comp_text path c)
    | [] => PathModel.join [DOT] path
    end
  else path.
(* the working directory of the child: None = unchanged *)
Definition exec_cwd (execdir : bool) (path : list byte) : option (list byte) :=
  if execdir then
    match parent path with
    | None => Some path                 (* "/" has no parent: run from it *)
    | Some [] => None                   (* "foo" has parent "": no chdir *)
    | Some p => Some p
    end
  else None.
(* argv: the executable, then one argument per template whatever the path contains *)
Definition exec_argv (execdir : bool) (exe : list byte) (tmpls : list (list byte)) (path : list byte) : list (list byte) :=
  exe :: map (fun t => render t (exec_path execdir path)) tmpls.
