(* Model of check_classes (src/find/matchers/regex.rs): the bracket expressions of a -regex pattern as GNU reads them - a "]" first
   (after "^") is a member; "[:" (where the syntax has classes), "[." and "[=" run to their own ":]", ".]", "=]" - are closed, their
   classes are among the twelve POSIX names, their collating symbols and equivalence classes name one character, and an
   equivalence class is no end point of a range.  Definitions only. *)
Require Import Tables RegexWrap.
From Coq Require Import List Arith Bool.
Import ListNotations.

(* the first "d]" in l: what stands before it and what follows it *)
Fixpoint find_close (d : nat) (l : list nat) : option (list nat * list nat) :=
  match l with
  | [] => None
  | c :: l' =>
      match l' with
      | r :: l'' => if (c =? d) && (r =? c_rb) then Some ([], l'')
                    else match find_close d l' with Some (a, b) => Some (c :: a, b) | None => None end
      | [] => None
      end
  end.
(* the first "[" or "]" in l: what stands before it, which it is, what follows *)
Fixpoint next_sq (l : list nat) : option (list nat * nat * list nat) :=
  match l with
  | [] => None
  | c :: l' => if (c =? c_lb) || (c =? c_rb) then Some ([], c, l')
               else match next_sq l' with Some (b, x, a) => Some (c :: b, x, a) | None => None end
  end.
(* where a scan of the members stands with respect to ranges: nothing a range could start from; a member one could start from;
   a "-" waiting for its end point; a range just completed (a "-" here can only be the last member) *)
Inductive rstate := RNo | RStart | ROpen | RDone.
Definition rstate_eqb (a b : rstate) : bool :=
  match a, b with RNo, RNo | RStart, RStart | ROpen, ROpen | RDone, RDone => true | _, _ => false end.
(* plain members read from a state; [last]: the closing "]" follows them.  None: a "-" behind a complete range that is not the
   last member *)
Fixpoint scan_members (l : list nat) (st : rstate) (last : bool) : option rstate :=
  match l with
  | [] => Some st
  | c :: l' =>
      match st with
      | ROpen => scan_members l' RDone last
      | RDone => if c =? c_minus then (match l' with [] => if last then Some RStart else None | _ :: _ => None end)
                 else scan_members l' RStart last
      | RStart => if c =? c_minus then scan_members l' ROpen last else scan_members l' RStart last
      | RNo => scan_members l' RStart last
      end
  end.
Definition dash_with_end (l : list nat) : bool :=
  match l with c :: r :: _ => (c =? c_minus) && negb (r =? c_rb) | [c] => c =? c_minus | [] => false end.

(* from inside a bracket expression: Some rest - it is closed and [rest] follows; None - refused *)
Fixpoint members_ok (fuel : nat) (cls : bool) (st : rstate) (m : list nat) : option (list nat) :=
  match fuel with
  | 0 => None
  | S f =>
    match next_sq m with
    | None => None                                             (* never closed *)
    | Some (before, c, after) =>
        if c =? c_rb then (match scan_members before st true with Some _ => Some after | None => None end)
        else
        match scan_members before st false with
        | None => None
        | Some st1 =>
             match after with
             | d :: inner =>
                 if cls && (d =? c_colon) then
                   match find_close c_colon inner with
                   | Some (name, rest) => if existsb (w_eqb name) regex_class_names then members_ok f cls RNo rest else None
                   | None => None
                   end
                 else if (d =? c_dot) || (d =? c_eq) then
                   match find_close d inner with
                   | Some ([_], rest) =>
                       if (d =? c_eq) && (rstate_eqb st1 ROpen || dash_with_end rest) then None
                       else members_ok f cls (if d =? c_eq then RNo else if rstate_eqb st1 ROpen then RDone else RStart) rest
                   | _ => None
                   end
                 else (match scan_members [c_lb] st1 false with Some st2 => members_ok f cls st2 after | None => None end)
             | [] => (match scan_members [c_lb] st1 false with Some st2 => members_ok f cls st2 after | None => None end)
             end
        end
    end
  end.

Fixpoint classes_scan (fuel : nat) (cls : bool) (s : list nat) : bool :=
  match fuel with
  | 0 => true
  | S f =>
    match s with
    | [] => true
    | c :: s' =>
        if c =? c_bs then classes_scan f cls (tl s')
        else if c =? c_lb then
          let m1 := match s' with x :: r => if x =? c_caret then r else s' | [] => s' end in
          let st := match m1 with x :: _ => if x =? c_rb then RStart else RNo | [] => RNo end in
          let m2 := match m1 with x :: r => if x =? c_rb then r else m1 | [] => m1 end in
          match members_ok (S (length m2)) cls st m2 with
          | Some rest => classes_scan f cls rest
          | None => false
          end
        else classes_scan f cls s'
    end
  end.
Definition classes_ok (cls : bool) (pattern : list nat) : bool := classes_scan (S (length pattern)) cls pattern.
