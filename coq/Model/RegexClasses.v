(* Model of check_classes (src/find/matchers/regex.rs): the bracket expressions of a -regex pattern as GNU reads them - a "]" first
   (after "^") is a member; "[:" (where the syntax has classes), "[." and "[=" run to their own ":]", ".]", "=]" - are closed, their
   classes are among the twelve POSIX names, their collating symbols and equivalence classes name one character, and an
   equivalence class is no end point of a range.  Definitions only. *)
Require Import Tables RegexWrap.
From Coq Require Import List Arith Bool.
Import ListNotations.

(* the first "d]" in l: what stands before it and what follows it *)
Fixpoint find_close (d : nat) (l : list nat) : option (list nat * list nat) :=
  match l with
  | [] => None
  | c :: l' =>
      match l' with
      | r :: l'' => if (c =? d) && (r =? c_rb) then Some ([], l'')
                    else match find_close d l' with Some (a, b) => Some (c :: a, b) | None => None end
      | [] => None
      end
  end.
(* the first "[" or "]" in l: what stands before it, which it is, what follows *)
Fixpoint next_sq (l : list nat) : option (list nat * nat * list nat) :=
  match l with
  | [] => None
  | c :: l' => if (c =? c_lb) || (c =? c_rb) then Some ([], c, l')
               else match next_sq l' with Some (b, x, a) => Some (c :: b, x, a) | None => None end
  end.
(* plain members ending in a "-" that waits for the end point of its range *)
Fixpoint open_range (has_start : bool) (l : list nat) : bool :=
  match l with
  | [] => false
  | c :: l' => if (c =? c_minus) && has_start then match l' with [] => true | _ :: l'' => open_range false l'' end
               else open_range true l'
  end.
Definition dash_with_end (l : list nat) : bool :=
  match l with c :: r :: _ => (c =? c_minus) && negb (r =? c_rb) | [c] => c =? c_minus | [] => false end.

(* from inside a bracket expression: Some rest - it is closed and [rest] follows; None - refused *)
Fixpoint members_ok (fuel : nat) (cls first : bool) (m : list nat) : option (list nat) :=
  match fuel with
  | 0 => None
  | S f =>
    match next_sq m with
    | None => None                                             (* never closed *)
    | Some (before, c, after) =>
        if c =? c_rb then Some after
        else match after with
             | d :: inner =>
                 if cls && (d =? c_colon) then
                   match find_close c_colon inner with
                   | Some (name, rest) => if existsb (w_eqb name) regex_class_names then members_ok f cls false rest else None
                   | None => None
                   end
                 else if (d =? c_dot) || (d =? c_eq) then
                   match find_close d inner with
                   | Some ([_], rest) =>
                       if (d =? c_eq) && (open_range (negb first) before || dash_with_end rest) then None
                       else members_ok f cls false rest
                   | _ => None
                   end
                 else members_ok f cls false after
             | [] => members_ok f cls false after
             end
    end
  end.

Fixpoint classes_scan (fuel : nat) (cls : bool) (s : list nat) : bool :=
  match fuel with
  | 0 => true
  | S f =>
    match s with
    | [] => true
    | c :: s' =>
        if c =? c_bs then classes_scan f cls (tl s')
        else if c =? c_lb then
          let m1 := match s' with x :: r => if x =? c_caret then r else s' | [] => s' end in
          let first := match m1 with x :: _ => negb (x =? c_rb) | [] => true end in
          let m2 := match m1 with x :: r => if x =? c_rb then r else m1 | [] => m1 end in
          match members_ok (S (length m2)) cls first m2 with
          | Some rest => classes_scan f cls rest
          | None => false
          end
        else classes_scan f cls s'
    end
  end.
Definition classes_ok (cls : bool) (pattern : list nat) : bool := classes_scan (S (length pattern)) cls pattern.
