(* -regex / -iregex: what "the whole path belongs to the language of the pattern" means, and a
   derivative-based matcher that decides it (proved in Proofs/RegexProofs.v).  The repaired code hands
   Oniguruma the pattern wrapped as (P)$, which makes the backtracking engine try every alternative
   until the end of the path is reached; the extracted [matches] is the oracle it is compared with.
   Definitions only. *)
From Coq Require Import List Arith Bool.
Import ListNotations.

Definition char := nat.
Inductive re :=
| Emp                      (* matches nothing *)
| Eps
| Chr (f : char -> bool)   (* literal, any, bracket expression *)
| Cat (a b : re)
| Alt (a b : re)
| Star (a : re).

(* the language of a pattern: what "belongs to the language of PATTERN" means, whatever the order of alternatives *)
Inductive L : re -> list char -> Prop :=
| L_eps : L Eps []
| L_chr f c : f c = true -> L (Chr f) [c]
| L_cat a b s t : L a s -> L b t -> L (Cat a b) (s ++ t)
| L_altl a b s : L a s -> L (Alt a b) s
| L_altr a b s : L b s -> L (Alt a b) s
| L_star0 a : L (Star a) []
| L_star1 a s t : L a s -> L (Star a) t -> L (Star a) (s ++ t).

Fixpoint nullable (r : re) : bool :=
  match r with
  | Emp => false | Eps => true | Chr _ => false
  | Cat a b => nullable a && nullable b
  | Alt a b => nullable a || nullable b
  | Star _ => true
  end.
Fixpoint deriv (c : char) (r : re) : re :=
  match r with
  | Emp | Eps => Emp
  | Chr f => if f c then Eps else Emp
  | Cat a b => if nullable a then Alt (Cat (deriv c a) b) (deriv c b) else Cat (deriv c a) b
  | Alt a b => Alt (deriv c a) (deriv c b)
  | Star a => Cat (deriv c a) (Star a)
  end.
Fixpoint matches (r : re) (s : list char) : bool :=
  match s with [] => nullable r | c :: s' => matches (deriv c r) s' end.


(* derived forms *)
Definition Plus (a : re) : re := Cat a (Star a).
Definition Opt (a : re) : re := Alt a Eps.
Fixpoint Rep (n : nat) (a : re) : re := match n with 0 => Eps | S k => Cat a (Rep k a) end.
Fixpoint RepUpTo (n : nat) (a : re) : re := match n with 0 => Eps | S k => Alt Eps (Cat a (RepUpTo k a)) end.
Definition Interval (lo hi : nat) (a : re) : re := Cat (Rep lo a) (RepUpTo (hi - lo) a).

(* -regextype: the syntax in force for a -regex is the one named by the nearest preceding -regextype
   (parse order, parentheses and operators play no role), emacs (0) when there is none *)
Inductive rtok := RT (ty : nat) | RX (pat : nat) | ROther.
Fixpoint assign_types (cur : nat) (ts : list rtok) : list (nat * nat) :=
  match ts with
  | [] => []
  | RT ty :: ts' => assign_types ty ts'
  | RX p :: ts' => (p, cur) :: assign_types cur ts'
  | ROther :: ts' => assign_types cur ts'
  end.
