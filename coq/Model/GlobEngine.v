(* The regular-expression engine as glob patterns exercise it: a sequence of one-character tests
   and ".*", matched by Oniguruma-style backtracking at position 0 (greedy, first success wins).
   Definitions only; is_match_fnmatch is in Proofs/GlobBT.v *)
From Coq Require Import List Arith Bool Lia.
Import ListNotations.

(* translated glob: a sequence of one-character tests and ".*" *)
Inductive ritem := RSingle (f : nat -> bool) | RStar.
Definition re := list ritem.

(* Oniguruma-style backtracking match at position 0: greedy ".*", first success wins *)
Fixpoint bt (r : re) (s : list nat) {struct r} : option nat :=
  match r with
  | [] => Some 0
  | RSingle f :: r' =>
      match s with
      | c :: s' => if f c then option_map S (bt r' s') else None
      | [] => None
      end
  | RStar :: r' =>
      (fix star (s : list nat) : option nat :=
         match s with
         | [] => bt r' []
         | c :: s' => match star s' with
                      | Some m => Some (S m)          (* longest first *)
                      | None => bt r' (c :: s')
                      end
         end) s
  end.

Definition is_match (r : re) (s : list nat) : bool :=
  match bt r s with Some m => m =? length s | None => false end.

(* reference: fnmatch on the whole string *)
Fixpoint fn (r : re) (s : list nat) {struct r} : bool :=
  match r with
  | [] => match s with [] => true | _ => false end
  | RSingle f :: r' => match s with c :: s' => f c && fn r' s' | [] => false end
  | RStar :: r' =>
      (fix go (s : list nat) : bool :=
         fn r' s || match s with [] => false | _ :: s' => go s' end) s
  end.

Definition star (r' : re) := fix star (s : list nat) : option nat :=
  match s with
  | [] => bt r' []
  | c :: s' => match star s' with Some m => Some (S m) | None => bt r' (c :: s') end
  end.
Definition go (r' : re) := fix go (s : list nat) : bool :=
  fn r' s || match s with [] => false | _ :: s' => go s' end.
Lemma bt_star r' s : bt (RStar :: r') s = star r' s. Proof. reflexivity. Qed.
Lemma fn_star r' s : fn (RStar :: r') s = go r' s. Proof. reflexivity. Qed.


(* ---- Pattern::matches (glob.rs) since 7a55db0: no backtracking.  The pieces are taken from left to right while the set of
   positions of the subject that the pieces so far can reach is kept: reach[j] = "they can match exactly the first j characters" ---- *)
Fixpoint spread (seen : bool) (l : list bool) : list bool :=            (* after "*": everything from the first reachable position on *)
  match l with [] => [] | r :: l' => (seen || r) :: spread (seen || r) l' end.
Fixpoint shift (f : nat -> bool) (l : list bool) (s : list nat) : list bool :=   (* one character that passes the test *)
  match l, s with r :: l', c :: s' => (r && f c) :: shift f l' s' | _, _ => [] end.
Definition step_reach (s : list nat) (reach : list bool) (it : ritem) : list bool :=
  match it with RStar => spread false reach | RSingle f => false :: shift f reach s end.
Definition reach0 (s : list nat) : list bool := true :: repeat false (length s).
Definition nfa (r : re) (s : list nat) : bool := nth (length s) (fold_left (step_reach s) r (reach0 s)) false.
