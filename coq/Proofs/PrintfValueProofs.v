(* %f and %h (PrintfValue.v): the path as spelled is the directory part, a slash, the last component. *)
Require Import PathModel Paths PathsProofs PrintfValue.
From Coq Require Import List Arith Bool Lia.
Import ListNotations.

(* scanning [s] with both functions at once: what has been read is the directory part so far, a slash, the segment so far *)
Definition split_inv (acc cur : str) (dir : option str) : Prop :=
  match dir with None => acc = cur | Some d => acc = d ++ SL :: cur end.
Lemma dir_last_seg : forall (s acc cur : str) (dir : option str),
  split_inv acc cur dir -> split_inv (acc ++ s) (last_seg s cur) (dir_seg s acc dir).
Proof.
  induction s as [|c s IH]; intros acc cur dir H; cbn [dir_seg last_seg].
  - rewrite app_nil_r. exact H.
  - destruct (c =? SL) eqn:Ec.
    + apply Nat.eqb_eq in Ec. subst c.
      exact (eq_ind _ (fun l => split_inv l _ _) (IH (acc ++ [SL]) [] (Some acc) eq_refl) _ (eq_sym (app_assoc acc [SL] s))).
    + assert (H' : split_inv (acc ++ [c]) (cur ++ [c]) dir).
      { destruct dir as [d|]; cbn [split_inv] in *; subst acc; [|reflexivity]. now rewrite <- app_assoc. }
      exact (eq_ind _ (fun l => split_inv l _ _) (IH _ _ _ H') _ (eq_sym (app_assoc acc [c] s))).
Qed.

(* %h, '/' and %f recompose the path (trailing slashes apart); without a directory part %h is "." and %f the whole of it *)
Theorem h_f_recompose path : trim_end_sl path <> [] ->
  (pv_h path ++ SL :: pv_f path = trim_end_sl path /\ In SL (trim_end_sl path)) \/
  (pv_h path = [DOT] /\ pv_f path = trim_end_sl path /\ ~ In SL (trim_end_sl path)).
Proof.
  intros Hne. unfold pv_h, pv_f, name_subject.
  destruct (trim_end_sl path) as [|c t] eqn:E; [congruence|].
  pose proof (dir_last_seg (c :: t) [] [] None eq_refl) as H. unfold split_inv in H.
  destruct (dir_seg (c :: t) [] None) as [d|].
  - left. cbn [app] in H. split; [now rewrite <- H|]. rewrite H. apply in_or_app. right. now left.
  - right. cbn [app] in H. split; [reflexivity|]. split; [now rewrite <- H|].
    rewrite H. apply last_seg_no_sl. intros [].
Qed.

(* below a starting point: %f is the entry's own name and %h everything before it, as spelled ("d/." for "d/./x") *)
Lemma dir_seg_plain : forall (n acc : str) dir, ~ In SL n -> dir_seg n acc dir = dir.
Proof.
  induction n as [|c n IH]; intros acc dir Hn; cbn [dir_seg]; [reflexivity|].
  destruct (Nat.eqb_spec c SL) as [->|_]; [exfalso; apply Hn; now left|].
  apply IH. intros H. apply Hn. now right.
Qed.
Lemma dir_seg_app : forall (a acc : str) dir n, ~ In SL n -> dir_seg (a ++ SL :: n) acc dir = Some (acc ++ a).
Proof.
  induction a as [|c a IH]; intros acc dir n Hn; cbn [app dir_seg].
  - rewrite Nat.eqb_refl, app_nil_r. now apply dir_seg_plain.
  - destruct (c =? SL); rewrite IH by exact Hn; now rewrite <- app_assoc.
Qed.
Lemma pv_h_nonempty p : trim_end_sl p <> [] ->
  pv_h p = match dir_seg (trim_end_sl p) [] None with Some d => d | None => [DOT] end.
Proof. intros H. unfold pv_h. destruct (trim_end_sl p); [congruence|reflexivity]. Qed.
Theorem h_f_below base n : plainname n -> pv_f (base ++ SL :: n) = n /\ pv_h (base ++ SL :: n) = base.
Proof.
  intros Hn. split; [now apply name_subject_below|].
  pose proof (plain_no_trailing_sl n Hn) as He. destruct Hn as [Hne Hs].
  destruct n as [|c n]; [congruence|].
  assert (Hend : ends_with_sl (base ++ SL :: c :: n) = false).
  { replace (base ++ SL :: c :: n) with ((base ++ [SL]) ++ c :: n) by now rewrite <- app_assoc.
    now rewrite ends_with_sl_app. }
  rewrite pv_h_nonempty; rewrite trim_end_plain by exact Hend; [|destruct base; discriminate].
  now rewrite dir_seg_app by exact Hs.
Qed.

(* ---- numbers ---- *)
From Coq Require Import NArith Lia.
Open Scope N_scope.
Lemma to_digits_acc : forall fuel b n acc, to_digits fuel b n acc = to_digits fuel b n [] ++ acc.
Proof.
  induction fuel as [|f IH]; intros b n acc; cbn [to_digits]; [reflexivity|].
  set (d := (48 + N.to_nat (n mod b))%nat).
  destruct (n / b =? 0); [reflexivity|]. rewrite (IH b (n / b) (d :: acc)), (IH b (n / b) [d]), <- app_assoc. reflexivity.
Qed.
Lemma value_of_app b l1 l2 a : value_of b (l1 ++ l2) a = value_of b l2 (value_of b l1 a).
Proof. revert a. induction l1 as [|d l1 IH]; intros a; cbn [app value_of]; [reflexivity|apply IH]. Qed.

Lemma digit_back b n : 2 <= b -> b <= 10 -> N.of_nat (48 + N.to_nat (n mod b) - 48) = n mod b.
Proof.
  intros _ _. assert (H : (48 + N.to_nat (n mod b) - 48)%nat = N.to_nat (n mod b)) by (generalize (N.to_nat (n mod b)); intros x; lia).
  rewrite H. apply N2Nat.id.
Qed.

Lemma to_digits_value : forall fuel b n, 2 <= b -> b <= 10 -> n < 2 ^ N.of_nat fuel ->
  value_of b (to_digits fuel b n []) 0 = n.
Proof.
  induction fuel as [|f IH]; intros b n Hb1 Hb2 Hn.
  - cbn in Hn. assert (n = 0) by lia. subst. reflexivity.
  - cbn [to_digits]. destruct (n / b =? 0) eqn:E.
    + apply N.eqb_eq in E. cbn [value_of]. rewrite digit_back by assumption.
      pose proof (N.div_mod n b ltac:(lia)) as D. rewrite E in D. lia.
    + rewrite to_digits_acc, value_of_app. cbn [value_of]. rewrite digit_back by assumption.
      rewrite IH; [|assumption|assumption|].
      * pose proof (N.div_mod n b ltac:(lia)) as D. lia.
      * rewrite Nat2N.inj_succ, N.pow_succ_r' in Hn.
        apply N.div_lt_upper_bound; [lia|]. nia.
Qed.

Lemma log2_bound n : n < 2 ^ N.of_nat (S (N.to_nat (N.log2 n))).
Proof.
  rewrite Nat2N.inj_succ, N2Nat.id. destruct n as [|p]; [cbn; lia|].
  apply N.log2_spec. lia.
Qed.

Theorem render_num_value b n : 2 <= b -> b <= 10 -> value_of b (render_num b n) 0 = n.
Proof. intros H1 H2. unfold render_num. apply to_digits_value; [assumption|assumption|apply log2_bound]. Qed.

(* no padding: the first digit of a non-zero number is not 0, and zero is the single digit 0 *)
Lemma to_digits_first : forall fuel b n, 2 <= b -> 0 < n -> n < 2 ^ N.of_nat fuel ->
  exists d rest, to_digits fuel b n [] = d :: rest /\ d <> 48%nat.
Proof.
  induction fuel as [|f IH]; intros b n Hb Hp Hn.
  - cbn in Hn. lia.
  - cbn [to_digits]. destruct (n / b =? 0) eqn:E.
    + apply N.eqb_eq in E. eexists _, []. split; [reflexivity|].
      pose proof (N.div_mod n b ltac:(lia)) as D. rewrite E in D. assert (Hm : n mod b <> 0) by lia.
      assert (Hz : N.to_nat (n mod b) <> 0%nat). { intros Hz. apply Hm. rewrite <- (N2Nat.id (n mod b)), Hz. reflexivity. }
      revert Hz. generalize (N.to_nat (n mod b)). intros x Hx. lia.
    + apply N.eqb_neq in E. rewrite to_digits_acc.
      destruct (IH b (n / b) Hb (proj1 (N.neq_0_lt_0 _) E)) as (d & rest & -> & Hd).
      * rewrite Nat2N.inj_succ, N.pow_succ_r' in Hn. apply N.div_lt_upper_bound; [lia|]. nia.
      * eexists d, _. split; [reflexivity|exact Hd].
Qed.
Theorem render_num_canonical b n : 2 <= b ->
  (n = 0 -> render_num b n = [48%nat]) /\
  (0 < n -> exists d rest, render_num b n = d :: rest /\ d <> 48%nat).
Proof.
  intros Hb. split.
  - intros ->. unfold render_num. change (N.to_nat (N.log2 0)) with 0%nat. cbn [to_digits]. rewrite N.mod_0_l by lia. rewrite N.div_0_l by lia. reflexivity.
  - intros Hp. unfold render_num. apply to_digits_first; [assumption|assumption|apply log2_bound].
Qed.

(* every character is a digit of the base *)
Lemma to_digits_digits : forall fuel b n acc, 2 <= b -> b <= 10 -> Forall (fun d => (48 <= d)%nat /\ N.of_nat (d - 48) < b) acc ->
  Forall (fun d => (48 <= d)%nat /\ N.of_nat (d - 48) < b) (to_digits fuel b n acc).
Proof.
  induction fuel as [|f IH]; intros b n acc Hb Hb2 Ha; cbn [to_digits]; [exact Ha|].
  assert (Hd : (48 <= 48 + N.to_nat (n mod b))%nat /\ N.of_nat (48 + N.to_nat (n mod b) - 48) < b).
  { split; [generalize (N.to_nat (n mod b)); intros x; lia|]. rewrite (digit_back b n) by lia. apply N.mod_lt. lia. }
  destruct (n / b =? 0); [constructor; assumption|]. apply IH; [assumption|assumption|constructor; assumption].
Qed.
Theorem render_num_digits b n : 2 <= b -> b <= 10 -> Forall (fun d => (48 <= d)%nat /\ N.of_nat (d - 48) < b) (render_num b n).
Proof. intros Hb Hb2. unfold render_num. apply to_digits_digits; [assumption|assumption|constructor]. Qed.
Close Scope N_scope.
