(* %f and %h (PrintfValue.v): the path as spelled is the directory part, a slash, the last component. *)
Require Import PathModel Paths PathsProofs PrintfValue.
From Coq Require Import List Arith Bool Lia.
Import ListNotations.

(* scanning [s] with both functions at once: what has been read is the directory part so far, a slash, the segment so far *)
Definition split_inv (acc cur : str) (dir : option str) : Prop :=
  match dir with None => acc = cur | Some d => acc = d ++ SL :: cur end.
Lemma dir_last_seg : forall (s acc cur : str) (dir : option str),
  split_inv acc cur dir -> split_inv (acc ++ s) (last_seg s cur) (dir_seg s acc dir).
Proof.
  induction s as [|c s IH]; intros acc cur dir H; cbn [dir_seg last_seg].
  - rewrite app_nil_r. exact H.
  - destruct (c =? SL) eqn:Ec.
    + apply Nat.eqb_eq in Ec. subst c.
      exact (eq_ind _ (fun l => split_inv l _ _) (IH (acc ++ [SL]) [] (Some acc) eq_refl) _ (eq_sym (app_assoc acc [SL] s))).
    + assert (H' : split_inv (acc ++ [c]) (cur ++ [c]) dir).
      { destruct dir as [d|]; cbn [split_inv] in *; subst acc; [|reflexivity]. now rewrite <- app_assoc. }
      exact (eq_ind _ (fun l => split_inv l _ _) (IH _ _ _ H') _ (eq_sym (app_assoc acc [c] s))).
Qed.

(* %h, '/' and %f recompose the path (trailing slashes apart); without a directory part %h is "." and %f the whole of it *)
Theorem h_f_recompose path : trim_end_sl path <> [] ->
  (pv_h path ++ SL :: pv_f path = trim_end_sl path /\ In SL (trim_end_sl path)) \/
  (pv_h path = [DOT] /\ pv_f path = trim_end_sl path /\ ~ In SL (trim_end_sl path)).
Proof.
  intros Hne. unfold pv_h, pv_f, name_subject.
  destruct (trim_end_sl path) as [|c t] eqn:E; [congruence|].
  pose proof (dir_last_seg (c :: t) [] [] None eq_refl) as H. unfold split_inv in H.
  destruct (dir_seg (c :: t) [] None) as [d|].
  - left. cbn [app] in H. split; [now rewrite <- H|]. rewrite H. apply in_or_app. right. now left.
  - right. cbn [app] in H. split; [reflexivity|]. split; [now rewrite <- H|].
    rewrite H. apply last_seg_no_sl. intros [].
Qed.

(* below a starting point: %f is the entry's own name and %h everything before it, as spelled ("d/." for "d/./x") *)
Lemma dir_seg_plain : forall (n acc : str) dir, ~ In SL n -> dir_seg n acc dir = dir.
Proof.
  induction n as [|c n IH]; intros acc dir Hn; cbn [dir_seg]; [reflexivity|].
  destruct (Nat.eqb_spec c SL) as [->|_]; [exfalso; apply Hn; now left|].
  apply IH. intros H. apply Hn. now right.
Qed.
Lemma dir_seg_app : forall (a acc : str) dir n, ~ In SL n -> dir_seg (a ++ SL :: n) acc dir = Some (acc ++ a).
Proof.
  induction a as [|c a IH]; intros acc dir n Hn; cbn [app dir_seg].
  - rewrite Nat.eqb_refl, app_nil_r. now apply dir_seg_plain.
  - destruct (c =? SL); rewrite IH by exact Hn; now rewrite <- app_assoc.
Qed.
Lemma pv_h_nonempty p : trim_end_sl p <> [] ->
  pv_h p = match dir_seg (trim_end_sl p) [] None with Some d => d | None => [DOT] end.
Proof. intros H. unfold pv_h. destruct (trim_end_sl p); [congruence|reflexivity]. Qed.
Theorem h_f_below base n : plainname n -> pv_f (base ++ SL :: n) = n /\ pv_h (base ++ SL :: n) = base.
Proof.
  intros Hn. split; [now apply name_subject_below|].
  pose proof (plain_no_trailing_sl n Hn) as He. destruct Hn as [Hne Hs].
  destruct n as [|c n]; [congruence|].
  assert (Hend : ends_with_sl (base ++ SL :: c :: n) = false).
  { replace (base ++ SL :: c :: n) with ((base ++ [SL]) ++ c :: n) by now rewrite <- app_assoc.
    now rewrite ends_with_sl_app. }
  rewrite pv_h_nonempty; rewrite trim_end_plain by exact Hend; [|destruct base; discriminate].
  now rewrite dir_seg_app by exact Hs.
Qed.
