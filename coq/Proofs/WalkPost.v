Require Import Walk. From Coq Require Import List Arith Bool Lia. Import ListNotations.

Section Q.
Variable c : cfg.
Variable P : rpath -> nat -> bool.
Hypothesis Hpost : post c = true.

Notation run' := (run c P true).

Fixpoint forestp (rp : rpath) (d : nat) (l : list (name * node)) : list event :=
  match l with [] => [] | (nm, x) :: l' => posto c (nm :: rp) d x ++ forestp rp d l' end.

Lemma posto_dir rp d ch :
  posto c rp d (Dir ch) =
  (if maxd c <=? d then [] else forestp rp (S d) ch) ++ (if inr c d then [Ent rp d true] else []).
Proof.
  cbn [posto]. f_equal. destruct (maxd c <=? d); [reflexivity|].
  induction ch as [|[nm x] ch IH]; cbn [forestp]; [reflexivity|]. now rewrite IH.
Qed.

Definition stk := list (rpath * list (name * node)).
Definition dfr := list (rpath * nat).

Definition emit (x : rpath * nat) : list event := if inr c (snd x) then [Ent (fst x) (snd x) true] else [].

(* balanced state: one deferred directory per open list *)
Fixpoint psem (s : stk) (d : dfr) : list event :=
  match s, d with
  | (rp, ch) :: rest, x :: drest =>
      (if maxd c <? length s then [] else forestp rp (length s) ch) ++ emit x ++ psem rest drest
  | _, _ => []
  end.

Fixpoint wf (s : stk) (d : dfr) : Prop :=
  match s, d with
  | [], [] => True
  | (rp, _) :: rest, (rp', d') :: drest => rp' = rp /\ d' = length rest /\ wf rest drest
  | _, _ => False
  end.

Definition fsize (l : list (name * node)) := fold_right (fun x a => size (snd x) + a) 0 l.
Fixpoint smeasure (s : stk) : nat :=
  match s with [] => 0 | (_, ch) :: rest => S (S (fsize ch)) + smeasure rest end.
Lemma sm_child rp nm n ch rest : smeasure ((rp, (nm, n) :: ch) :: rest) = size n + smeasure ((rp, ch) :: rest).
Proof. cbn [smeasure fsize fold_right snd]. fold (fsize ch). lia. Qed.
Lemma sm_cons rp ch rest : smeasure ((rp, ch) :: rest) = S (S (fsize ch)) + smeasure rest.
Proof. reflexivity. Qed.
Lemma size_dir ch : size (Dir ch) = S (S (S (fsize ch))). Proof. reflexivity. Qed.

Definition mk (s : stk) (d : dfr) (k : nat) : st := {| start := None; stack := s; deferred := d; depth := k |}.

Lemma skippable_inr s : skippable c s = negb (inr c (depth s)).
Proof.
  unfold skippable, inr. destruct (Nat.ltb_spec (depth s) (mind c)), (Nat.leb_spec (mind c) (depth s)),
    (Nat.ltb_spec (maxd c) (depth s)), (Nat.leb_spec (depth s) (maxd c)); cbn; try reflexivity; lia.
Qed.

Lemma wf_len s d : wf s d -> length d = length s.
Proof. revert d; induction s as [|[rp ch] s IH]; intros [|[rp' d'] d]; cbn; try tauto. intros (_ & _ & H). f_equal. auto. Qed.

Lemma psem_in rp ch rest x drest : S (length rest) <= maxd c ->
  psem ((rp, ch) :: rest) (x :: drest) = forestp rp (S (length rest)) ch ++ emit x ++ psem rest drest.
Proof. intros H. cbn [psem length]. destruct (Nat.ltb_spec (maxd c) (S (length rest))); [lia|reflexivity]. Qed.
Lemma psem_out rp ch rest x drest : maxd c < S (length rest) ->
  psem ((rp, ch) :: rest) (x :: drest) = emit x ++ psem rest drest.
Proof. intros H. cbn [psem length]. destruct (Nat.ltb_spec (maxd c) (S (length rest))); [reflexivity|lia]. Qed.


Lemma ltb_true a b : a < b -> (a <? b) = true. Proof. intro; now apply Nat.ltb_lt. Qed.
Lemma ltb_false a b : b <= a -> (a <? b) = false. Proof. intro; now apply Nat.ltb_ge. Qed.

Lemma get_deferred_bal s d : length d = length s -> get_deferred c (mk s d (length s)) = (mk s d (length s), None).
Proof. intros H. unfold get_deferred, mk. cbn [depth deferred]. rewrite Hpost, H, Nat.ltb_irrefl. reflexivity. Qed.

Lemma get_deferred_pend s x d : length d = length s ->
  get_deferred c (mk s (x :: d) (length s)) =
  (mk s d (length s), if inr c (length s) then Some (Ent (fst x) (snd x) true) else None).
Proof.
  intros H. unfold get_deferred, mk. cbn [depth deferred length]. rewrite Hpost, H, ltb_true by lia.
  destruct x as [rp' d']. rewrite skippable_inr. cbn [depth fst snd start stack]. destruct (inr c (length s)); reflexivity.
Qed.

(* the body of one iteration after get_deferred returned nothing *)
Definition body (s1 : st) : res :=
  match stack s1 with
  | [] => Done
  | (prp, ch) :: rest =>
      if maxd c <? depth s1 then Step (pop s1)
      else match ch with
           | [] => Step (pop s1)
           | (nm, n) :: ch' =>
               let s2 := {| start := start s1; stack := (prp, ch') :: rest; deferred := deferred s1; depth := depth s1 |} in
               let '(s3, o) := handle_entry c true s2 (nm :: prp) (depth s1) n in
               match o with Some e => Yield e s3 | None => Step s3 end
           end
  end.

Ltac fold_mk := repeat match goal with
  | |- context [ {| start := None; stack := ?s; deferred := ?d; depth := ?k |} ] =>
      change {| start := None; stack := s; deferred := d; depth := k |} with (mk s d k) end.

Lemma iter_bal s d k : length d = length s -> iter c true (mk s d k) = body (mk s d (length s)).
Proof.
  intros H. unfold iter. cbn [mk start stack]. destruct s as [|[rp ch] rest].
  - rewrite Hpost. unfold set_depth, mk. cbn [start stack deferred depth]. fold_mk.
    pose proof (get_deferred_bal [] d H) as E. cbn [length] in E. rewrite E. reflexivity.
  - unfold set_depth, mk. cbn [start stack deferred depth]. fold_mk.
    rewrite get_deferred_bal by assumption. reflexivity.
Qed.

Lemma iter_pend s x d k : length d = length s ->
  iter c true (mk s (x :: d) k) =
  if inr c (length s) then Yield (Ent (fst x) (snd x) true) (mk s d (length s)) else body (mk s d (length s)).
Proof.
  intros H. unfold iter. cbn [mk start stack]. destruct s as [|[rp ch] rest].
  - rewrite Hpost. unfold set_depth, mk. cbn [start stack deferred depth]. fold_mk.
    pose proof (get_deferred_pend [] x d H) as E. cbn [length] in E. rewrite E. cbn [length].
    destruct (inr c 0); reflexivity.
  - unfold set_depth, mk. cbn [start stack deferred depth]. fold_mk.
    rewrite get_deferred_pend by assumption. destruct (inr c (length ((rp, ch) :: rest))); reflexivity.
Qed.

Definition cont (f : nat) (r : res) : list event :=
  match r with Done => [] | Step s' => run' f s' | Yield e s' => e :: run' f (after_event c P true e s') end.
Lemma run_S f s : run' (S f) s = cont f (iter c true s). Proof. reflexivity. Qed.

Lemma after_event_post e s : after_event c P true e s = s.
Proof. unfold after_event. destruct e as [rp d [|]|]; try reflexivity. now rewrite Hpost, andb_false_r. Qed.

Definition Bal (f : nat) := forall s d k, wf s d -> smeasure s <= f -> run' f (mk s d k) = psem s d.
Definition Pend (f : nat) := forall s x d k, wf s d -> snd x = length s -> S (smeasure s) <= f ->
  run' f (mk s (x :: d) k) = emit x ++ psem s d.

Lemma body_bal f s d : Bal f -> Pend f -> wf s d -> smeasure s <= S f ->
  cont f (body (mk s d (length s))) = psem s d.
Proof.
  intros HB HP Hwf Hm. pose proof (wf_len _ _ Hwf) as Hlen.
  unfold body, mk. cbn [stack depth start deferred].
  destruct s as [|[rp ch] rest]; [destruct d; [reflexivity|contradiction]|].
  destruct d as [|[rp' d'] drest]; [contradiction|]. destruct Hwf as (-> & -> & Hwf).
  cbn [length]. set (L := S (length rest)).
  destruct (Nat.ltb_spec (maxd c) L) as [Hgt|Hle].
  - (* exceeded max depth: pop, the deferred directory becomes pending *)
    unfold pop. cbn [cont stack tl start deferred depth].
    fold_mk.
    rewrite HP; [|assumption|reflexivity|rewrite sm_cons in Hm; lia].
    rewrite psem_out by (fold L; lia). reflexivity.
  - rewrite psem_in by (fold L; lia). fold L.
    destruct ch as [|[nm n] ch'].
    + unfold pop. cbn [cont stack tl start deferred depth forestp app].
      fold_mk.
      apply HP; [assumption|reflexivity|rewrite sm_cons in Hm; lia].
    + cbn [forestp]. rewrite <- app_assoc.
      assert (Hwf' : wf ((rp, ch') :: rest) ((rp, length rest) :: drest)) by (cbn; auto).
      assert (Hrest : smeasure ((rp, ch') :: rest) <= f ->
                run' f (mk ((rp, ch') :: rest) ((rp, length rest) :: drest) L)
                = forestp rp L ch' ++ emit (rp, length rest) ++ psem rest drest).
      { intros Hf. rewrite HB by assumption. rewrite psem_in by (fold L; lia). reflexivity. }
      destruct n as [| | |gch].
      * unfold handle_entry. rewrite skippable_inr. cbn [depth posto].
        fold_mk.
        destruct (inr c L); cbn [negb cont app]; rewrite ?after_event_post;
          (rewrite Hrest; [reflexivity|]); rewrite sm_child in Hm; cbn [size] in Hm; exact (le_S_n _ _ Hm).
      * unfold handle_entry. cbn [andb]. rewrite skippable_inr. cbn [depth posto].
        fold_mk.
        destruct (inr c L); cbn [negb cont app]; rewrite ?after_event_post;
          (rewrite Hrest; [reflexivity|]); rewrite sm_child in Hm; cbn [size] in Hm; exact (le_S_n _ _ Hm).
      * unfold handle_entry. cbn [posto cont app]. rewrite after_event_post.
        fold_mk.
        rewrite Hrest; [reflexivity|]. rewrite sm_child in Hm; cbn [size] in Hm. exact (le_S_n _ _ Hm).
      * unfold handle_entry. rewrite Hpost. cbn [start stack deferred depth cont].
        fold_mk.
        rewrite HB.
        2:{ cbn [wf length]. repeat split; auto. }
        2:{ rewrite sm_child, size_dir in Hm. rewrite sm_cons. lia. }
        rewrite posto_dir. unfold emit at 1. cbn [fst snd].
        destruct (Nat.leb_spec (maxd c) L).
        -- rewrite psem_out by (cbn [length]; fold L; lia). cbn [app].
           rewrite psem_in by (fold L; lia). unfold emit at 1. cbn [fst snd]. fold L.
           reflexivity.
        -- rewrite psem_in by (cbn [length]; fold L; lia). cbn [length]. fold L.
           rewrite psem_in by (fold L; lia). fold L. unfold emit at 1. cbn [fst snd].
           rewrite <- !app_assoc. reflexivity.
Qed.

Theorem run_post_inv : forall f, Bal f /\ Pend f.
Proof.
  induction f as [|f [HB HP]].
  - split.
    + intros s d k Hwf Hm. destruct s as [|[rp ch] rest]; [destruct d; [reflexivity|contradiction]|]. rewrite sm_cons in Hm; lia.
    + intros s x d k _ _ Hm. lia.
  - assert (HB' : Bal (S f)).
    { intros s d k Hwf Hm. rewrite run_S, iter_bal by (now apply wf_len). now apply body_bal. }
    split; [exact HB'|].
    intros s x d k Hwf Hx Hm. rewrite run_S, iter_pend by (now apply wf_len).
    destruct x as [rp' d']. cbn [fst snd] in *. subst d'. unfold emit. cbn [fst snd].
    destruct (inr c (length s)).
    + cbn [cont app]. rewrite after_event_post. f_equal. apply HB; [assumption|lia].
    + cbn [app]. apply body_bal; auto. lia.
Qed.

Theorem walk_post_correct n fuel : size n <= fuel -> run' fuel (init n) = posto c [] 0 n.
Proof.
  destruct fuel as [|f]; [destruct n; cbn; lia|]. intros Hf.
  rewrite run_S. unfold iter, init. cbn [start].
  destruct (run_post_inv f) as [HB HP].
  destruct n as [| | |ch].
  - unfold handle_entry. rewrite skippable_inr. cbn [depth posto stack deferred].
    change {| start := None; stack := []; deferred := []; depth := 0 |} with (mk [] [] 0).
    destruct (inr c 0); cbn [negb cont]; rewrite ?after_event_post, HB by (cbn; auto; lia); reflexivity.
  - unfold handle_entry. cbn [andb]. rewrite skippable_inr. cbn [depth posto stack deferred].
    change {| start := None; stack := []; deferred := []; depth := 0 |} with (mk [] [] 0).
    destruct (inr c 0); cbn [negb cont]; rewrite ?after_event_post, HB by (cbn; auto; lia); reflexivity.
  - unfold handle_entry. cbn [posto cont stack deferred depth]. rewrite after_event_post.
    change {| start := None; stack := []; deferred := []; depth := 0 |} with (mk [] [] 0).
    rewrite HB by (cbn; auto; lia). reflexivity.
  - unfold handle_entry. rewrite Hpost. cbn [start stack deferred depth cont].
    change {| start := None; stack := [([], ch)]; deferred := [([], 0)]; depth := 0 |} with (mk [([], ch)] [([], 0)] 0).
    rewrite HB.
    2:{ cbn. auto. }
    2:{ rewrite size_dir in Hf. rewrite sm_cons. cbn [smeasure]. lia. }
    rewrite posto_dir. unfold emit.
    destruct (Nat.leb_spec (maxd c) 0).
    + rewrite psem_out by (cbn [length]; lia). cbn [psem fst snd app]. now rewrite app_nil_r.
    + rewrite psem_in by (cbn [length]; lia). cbn [psem length fst snd]. now rewrite app_nil_r.
Qed.
End Q.
Check walk_post_correct.
Print Assumptions walk_post_correct.
