Require Import Entry.
From Coq Require Import List NArith Arith Bool Lia.
Import ListNotations.

(* All three statements are finite case analyses over the follow mode, depth 0 or deeper, link or
   not, and the result of stat. *)
Ltac unfold_all :=
  unfold seen, seen_xtype, lname_applies, expected, expected_xtype, from_walkdir, follow_metadata, entry_follow,
         entry_type, entry_metadata, metadata_at_depth, follow_at_depth in *.
Ltac step := cbn [negb andb orb option_map Bool.eqb is_lnk st_type v_lstat v_stat] in *.
Ltac cases v depth :=
  destruct (depth =? 0) eqn:?Ed; destruct (is_lnk (st_type (v_lstat v))) eqn:?El.

(* the record every test sees is the one the property names: lstat under -P; stat (lstat for dangling
   links) under -L; under -H stat for starting points only.  A stat error other than not-found
   (a link loop) yields a diagnostic instead of an entry: both sides are None. *)
Theorem seen_is_expected cfg depth v : coherent v -> seen cfg depth v = expected cfg depth v.
Proof.
  intros Hc. unfold coherent in Hc. unfold_all. destruct cfg; cases v depth; step;
    try (rewrite (Hc eq_refl) in *); step; try reflexivity;
    destruct (v_stat v) eqn:Es; step; rewrite ?Es; step; try reflexivity.
Qed.

(* -lname applies exactly when the record seen is that of a link: never for a link the follow mode resolves *)
Theorem lname_only_unresolved cfg depth v : coherent v ->
  lname_applies cfg depth v = match seen cfg depth v with Some r => is_lnk (st_type r) | None => false end.
Proof.
  intros Hc. unfold coherent in Hc. unfold_all. destruct cfg; cases v depth; step;
    try (rewrite (Hc eq_refl) in *); step; rewrite ?El; try reflexivity;
    destruct (v_stat v) eqn:Es; step; rewrite ?Es, ?El; step; rewrite ?El; try reflexivity.
Qed.

(* -xtype makes the opposite choice *)
Theorem xtype_is_opposite cfg depth v : coherent v -> resolved_ok v -> v_stat v <> SErr ->
  seen_xtype cfg depth v = expected_xtype cfg depth v.
Proof.
  intros Hc Hr Hne. unfold coherent, resolved_ok in *. unfold_all. destruct cfg; cases v depth; step;
    try (rewrite (Hc eq_refl) in *); step; rewrite ?El; step; try reflexivity;
    destruct (v_stat v) as [r| |] eqn:Es; try congruence; step; rewrite ?Es, ?El; step;
    try (rewrite (Hr r eq_refl)); step; rewrite ?El; step; try reflexivity.
Qed.
