(* process_dir on top of walkdir's pre-order iterator: the -mindepth filter and the -depth order that find
   produces itself (directories pending until the walk leaves them) give exactly the reference traversals. *)
Require Import Walk WalkPre WalkSpec.
From Coq Require Import List Arith Bool Lia.
Import ListNotations.

Section D.
Variable c : cfg.
Let c0 := wcfg c.
Let mn := mind c.

Lemma inr0 d : inr c0 d = (d <=? maxd c).
Proof. reflexivity. Qed.
Lemma inr_split d : d <= maxd c -> inr c d = (mind c <=? d).
Proof. intros H. unfold inr. apply Nat.leb_le in H. rewrite H. apply andb_true_r. Qed.

(* ---- the pre-order half: filtering by depth after the fact ---- *)
Definition Pm (P : rpath -> nat -> bool) : rpath -> nat -> bool := fun rp d => (mind c <=? d) && P rp d.

Lemma filter_app' {A} (f : A -> bool) a b : filter f (a ++ b) = filter f a ++ filter f b.
Proof. apply filter_app. Qed.

Lemma filter_pre P : forall n rp d, d <= maxd c -> filter (keepd c) (pre c0 (Pm P) rp d n) = pre c P rp d n.
Proof.
  induction n as [| | |ch IH] using node_ind2; intros rp d Hd.
  1-2: cbn [pre]; rewrite inr0; rewrite inr_split by exact Hd; apply Nat.leb_le in Hd; rewrite Hd; cbn [filter keepd];
       destruct (mind c <=? d); reflexivity.
  - reflexivity.
  - rewrite (pre_dir' c0), (pre_dir' c). rewrite inr0; rewrite inr_split by exact Hd.
    pose proof Hd as Hd'. apply Nat.leb_le in Hd'. rewrite Hd'. rewrite filter_app'. cbn [filter keepd].
    change (maxd c0) with (maxd c). unfold Pm at 1. cbn [andb].
    f_equal.
    destruct ((maxd c <=? d) || ((mind c <=? d) && P rp d)) eqn:E; [reflexivity|].
    apply orb_false_iff in E as [E _]. apply Nat.leb_gt in E.
    induction ch as [|[nm x] ch IHch]; [reflexivity|]. inversion IH as [|? ? Hx Hch]; subst.
    cbn [pforest]. rewrite filter_app'. rewrite IHch by exact Hch. f_equal. apply Hx. lia.
Qed.

(* ---- the -depth half ---- *)
Lemma flush_none d pend : Forall (fun p => edepth p < d) pend -> flush d pend = ([], pend).
Proof.
  destruct pend as [|p rest]; intros H; [reflexivity|]. inversion H as [|? ? Hp _]; subst.
  cbn [flush]. apply Nat.leb_gt in Hp. now rewrite Hp.
Qed.

Definition head_le (d : nat) (rest : list event) : Prop := match rest with e :: _ => edepth e <= d | [] => True end.

(* a pending directory of depth d leaves as soon as something of depth <= d arrives, or at the end *)
Lemma defer_pop E rest pend : head_le (edepth E) rest ->
  defer mn rest (E :: pend) = E :: defer mn rest pend.
Proof.
  destruct rest as [|e r]; intros H; [reflexivity|]. cbn in H. cbn [defer flush].
  apply Nat.leb_le in H. rewrite H. destruct (flush (edepth e) pend) as [em rem].
  destruct e as [p d [|]|p]; try destruct (d <? mn); reflexivity.
Qed.

Lemma pre0_head : forall n rp d, length rp = d -> d <= maxd c ->
  exists e t, pre c0 noP rp d n = e :: t /\ edepth e = d.
Proof.
  intros n rp d Hl Hd. apply Nat.leb_le in Hd. destruct n as [| | |ch].
  1-2: cbn [pre]; rewrite inr0, Hd; eauto.
  - cbn [pre]. eexists _, _. split; [reflexivity|exact Hl].
  - rewrite (pre_dir' c0), inr0, Hd. cbn [app]. eauto.
Qed.

Lemma defer_subtree : forall n rp d rest pend, length rp = d -> d <= maxd c ->
  Forall (fun p => edepth p < d) pend -> head_le d rest ->
  defer mn (pre c0 noP rp d n ++ rest) pend = posto c rp d n ++ defer mn rest pend.
Proof.
  induction n as [| | |ch IH] using node_ind2; intros rp d rest pend Hl Hd Hp Hr.
  1-2: cbn [pre posto]; rewrite inr0; rewrite inr_split by exact Hd; pose proof Hd as Hd'; apply Nat.leb_le in Hd'; rewrite Hd';
       cbn [app defer edepth]; rewrite flush_none by exact Hp; cbn [app];
       unfold mn; destruct (Nat.ltb_spec d (mind c)) as [H|H];
       [assert (E : (mind c <=? d) = false) by (apply Nat.leb_gt; lia)|assert (E : (mind c <=? d) = true) by (apply Nat.leb_le; lia)];
       rewrite E; reflexivity.
  - cbn [pre posto app defer edepth]. rewrite Hl. rewrite flush_none by exact Hp. reflexivity.
  - rewrite (pre_dir' c0), (posto_dir' c), inr0, inr_split by exact Hd.
    pose proof Hd as Hd'. apply Nat.leb_le in Hd'. rewrite Hd'. change (maxd c0) with (maxd c).
    unfold noP at 1. rewrite andb_false_r, orb_false_r.
    cbn [app defer edepth]. rewrite flush_none by exact Hp. cbn [app].
    (* the children, with any stack whose entries lie above them *)
    assert (Hkids : maxd c <=? d = false -> forall pend', Forall (fun p => edepth p < S d) pend' ->
              defer mn (pforest c0 noP rp (S d) ch ++ rest) pend' = poforest c rp (S d) ch ++ defer mn rest pend').
    { intros Hm pend' Hp'. apply Nat.leb_gt in Hm. clear Hp.
      induction ch as [|[nm x] ch IHch]; [reflexivity|]. inversion IH as [|? ? Hx Hch]; subst.
      cbn [pforest poforest]. rewrite <- !app_assoc. cbn [snd] in Hx.
      rewrite Hx; [|reflexivity|lia|exact Hp'|].
      - rewrite IHch by exact Hch. reflexivity.
      - destruct ch as [|[nm2 x2] ch2].
        + cbn [pforest app]. destruct rest as [|e r]; [exact Logic.I|]. cbn in Hr |- *. lia.
        + cbn [pforest]. destruct (pre0_head x2 (nm2 :: rp) (S (length rp)) eq_refl ltac:(lia)) as (e & t & E & He).
          rewrite E. cbn. lia. }
    unfold mn. destruct (Nat.ltb_spec d (mind c)) as [Hlt|Hge].
    + assert (E : (mind c <=? d) = false) by (apply Nat.leb_gt; lia). rewrite E, app_nil_r.
      destruct (maxd c <=? d) eqn:Hm; [reflexivity|].
      apply Hkids; [reflexivity|]. eapply Forall_impl; [|exact Hp]. cbn. intros; lia.
    + assert (E : (mind c <=? d) = true) by (apply Nat.leb_le; lia). rewrite E.
      destruct (maxd c <=? d) eqn:Hm.
      * cbn [app]. fold mn. rewrite defer_pop by exact Hr. reflexivity.
      * fold mn. rewrite Hkids; [|reflexivity|].
        -- rewrite defer_pop by exact Hr. now rewrite <- app_assoc.
        -- constructor; [cbn; lia|]. eapply Forall_impl; [|exact Hp]. cbn. intros; lia.
Qed.
End D.

(* ---------- the walk as a whole ---------- *)
Theorem walk_pre c P n : post c = false -> walk c P n = pre c P [] 0 n.
Proof.
  intros Hp. unfold walk. rewrite Hp.
  change (fun rp d => (mind c <=? d) && P rp d) with (Pm c P).
  rewrite (walk_pre_correct (wcfg c) (Pm c P) true eq_refl eq_refl n (size n) (le_n _)).
  apply filter_pre. lia.
Qed.
Theorem walk_post c P n : post c = true -> walk c P n = posto c [] 0 n.
Proof.
  intros Hp. unfold walk. rewrite Hp.
  rewrite (walk_pre_correct (wcfg c) (fun _ _ => false) true eq_refl eq_refl n (size n) (le_n _)).
  change (fun (_ : rpath) (_ : nat) => false) with noP.
  rewrite <- (app_nil_r (pre (wcfg c) noP [] 0 n)).
  rewrite defer_subtree; [now rewrite app_nil_r|reflexivity|lia|constructor|exact Logic.I].
Qed.

(* an empty depth range: no entry is evaluated, but what cannot be read is still diagnosed *)
Lemma pre_empty c P : maxd c < mind c -> forall n rp d, Forall (fun e => keepd c e = true -> match e with Err _ => True | _ => False end) (pre c P rp d n) /\
  Forall (fun e => match e with Err _ => True | _ => False end) (pre c P rp d n).
Proof.
  intros He. assert (Hin : forall d, inr c d = false).
  { intros d. unfold inr. destruct (Nat.leb_spec (mind c) d), (Nat.leb_spec d (maxd c)); try reflexivity. lia. }
  induction n as [| | |ch IH] using node_ind2; intros rp d.
  1-2: cbn [pre]; rewrite Hin; split; constructor.
  - cbn [pre]. split; repeat constructor.
  - rewrite pre_dir', Hin. cbn [app andb]. rewrite orb_false_r.
    destruct (maxd c <=? d); [split; constructor|].
    induction ch as [|[nm x] ch IHch]; [split; constructor|]. inversion IH as [|? ? Hx Hch]; subst.
    cbn [pforest]. destruct (Hx (nm :: rp) (S d)) as [H1 H2], (IHch Hch) as [H3 H4].
    split; apply Forall_app; split; assumption.
Qed.
Lemma posto_empty c : maxd c < mind c -> forall n rp d,
  Forall (fun e => match e with Err _ => True | _ => False end) (posto c rp d n).
Proof.
  intros He. assert (Hin : forall d, inr c d = false).
  { intros d. unfold inr. destruct (Nat.leb_spec (mind c) d), (Nat.leb_spec d (maxd c)); try reflexivity. lia. }
  induction n as [| | |ch IH] using node_ind2; intros rp d.
  1-2: cbn [posto]; rewrite Hin; constructor.
  - cbn [posto]. repeat constructor.
  - rewrite posto_dir', Hin, app_nil_r.
    destruct (maxd c <=? d); [constructor|].
    induction ch as [|[nm x] ch IHch]; [constructor|]. inversion IH as [|? ? Hx Hch]; subst.
    cbn [poforest]. apply Forall_app; split; [apply Hx|now apply IHch].
Qed.
Theorem walk_empty_range c P n : maxd c < mind c ->
  Forall (fun e => match e with Err _ => True | _ => False end) (walk c P n).
Proof.
  intros H. destruct (post c) eqn:Hp.
  - rewrite walk_post by exact Hp. now apply posto_empty.
  - rewrite walk_pre by exact Hp. now apply pre_empty.
Qed.

(* C02 in one statement: no -prune; either order *)
Theorem walk_every_entry_once c n :
  walk c noP n = filter (keep c) (if post c then nodes_post [] n else nodes [] n).
Proof.
  destruct (post c) eqn:Hp.
  - rewrite walk_post by assumption. apply (posto_all c n []). cbn. lia.
  - rewrite walk_pre by assumption. apply (pre_all c n []). cbn. lia.
Qed.

(* C03: default order with -prune; -depth ignores -prune *)
Theorem walk_prune_exact c P n : post c = false ->
  walk c P n = filter (fun e => negb (anc_pruned c P (ev_path e))) (walk c noP n).
Proof.
  intros Hp. rewrite !walk_pre by assumption. apply (prune_exact c P n []). reflexivity.
Qed.
Theorem walk_prune_noop_under_depth c P n : post c = true -> walk c P n = walk c noP n.
Proof. intros Hp. now rewrite !walk_post. Qed.
