Require Import PathModel Paths.
From Coq Require Import List Arith Bool Lia.
Import ListNotations.

Definition relname (n : str) : Prop := n <> [] /\ has_root n = false.   (* a directory entry name is never absolute *)

Lemma join_prefix a b : has_root b = false -> exists t, PathModel.join a b = a ++ t.
Proof.
  intros H. unfold PathModel.join. rewrite H.
  destruct ((match a with [] => true | _ => false end) || ends_with_sl a); eauto.
Qed.

(* every reported path begins with its starting point exactly as spelled *)
Theorem entry_path_prefix : forall names root, Forall relname names -> exists t, entry_path root names = root ++ t.
Proof.
  unfold entry_path. induction names as [|n names IH]; intros root H; [exists []; now rewrite app_nil_r|].
  inversion H as [|? ? [_ Hn] Hs]; subst. cbn [fold_left].
  destruct (join_prefix root n Hn) as [t Et]. destruct (IH (PathModel.join root n) Hs) as [t' Et'].
  exists (t ++ t'). rewrite Et', Et. now rewrite app_assoc.
Qed.

(* below a starting point: one '/' between components (none added after a trailing '/') and the names verbatim *)
Definition sep_after (a : str) : str := if (match a with [] => true | _ => false end) || ends_with_sl a then [] else [SL].
Lemma join_rel a b : has_root b = false -> PathModel.join a b = a ++ sep_after a ++ b.
Proof. intros H. unfold PathModel.join, sep_after. rewrite H. destruct (_ || _); reflexivity. Qed.

Lemma ends_with_sl_app a c b : ends_with_sl (a ++ c :: b) = ends_with_sl (c :: b).
Proof.
  unfold ends_with_sl. rewrite rev_app_distr. cbn [rev]. rewrite <- app_assoc.
  destruct (rev b) as [|x r] eqn:E; cbn; [reflexivity|]. reflexivity.
Qed.

Definition plainname (n : str) : Prop := n <> [] /\ ~ In SL n.
Lemma plain_rel n : plainname n -> relname n.
Proof. intros [Hne Hs]. split; [exact Hne|]. destruct n as [|c n]; [congruence|]. cbn. apply Nat.eqb_neq. intros ->. apply Hs. now left. Qed.
Lemma plain_no_trailing_sl n : plainname n -> ends_with_sl n = false.
Proof.
  intros [Hne Hs]. unfold ends_with_sl. destruct (rev n) as [|c r] eqn:E; [reflexivity|].
  apply Nat.eqb_neq. intros ->. apply Hs. rewrite (in_rev n SL). rewrite E. now left.
Qed.

Fixpoint slash_join (names : list str) : str :=
  match names with [] => [] | [n] => n | n :: ns => n ++ [SL] ++ slash_join ns end.

Theorem entry_path_shape : forall names root, root <> [] -> Forall plainname names -> names <> [] ->
  entry_path root names = root ++ sep_after root ++ slash_join names.
Proof.
  unfold entry_path. induction names as [|n names IH]; intros root Hr H Hne; [congruence|].
  inversion H as [|? ? Hn Hs]; subst. cbn [fold_left]. rewrite join_rel by (apply plain_rel; assumption).
  destruct names as [|n2 names]; [cbn; reflexivity|].
  rewrite IH; [|destruct root; [congruence|discriminate]|assumption|discriminate].
  assert (Hsep : sep_after (root ++ sep_after root ++ n) = [SL]).
  { unfold sep_after at 1. destruct Hn as [Hnn Hsl]. destruct n as [|c n]; [congruence|].
    replace (root ++ sep_after root ++ c :: n) with ((root ++ sep_after root) ++ c :: n) by now rewrite app_assoc.
    rewrite ends_with_sl_app, (plain_no_trailing_sl (c :: n)) by (split; assumption).
    destruct (root ++ sep_after root) eqn:E; [destruct root; [congruence|discriminate]|reflexivity]. }
  rewrite Hsep. cbn [slash_join]. now rewrite <- !app_assoc.
Qed.

(* ---- -files0-from: the names come back exactly, with or without the final NUL ---- *)
Definition goodname (n : str) : Prop := n <> [] /\ ~ In 0 n.

Lemma split_on_acc d cur p rest : ~ In d p -> split_on d cur (p ++ rest) = split_on d (cur ++ p) rest.
Proof.
  revert cur. induction p as [|c p IH]; intros cur Hn; [now rewrite app_nil_r|].
  cbn [app split_on]. destruct (Nat.eqb_spec c d) as [->|_]; [exfalso; apply Hn; now left|].
  rewrite IH by (intros H; apply Hn; now right). now rewrite <- app_assoc.
Qed.

Lemma split_join0 : forall names, Forall goodname names ->
  split_on 0 [] (concat (map (fun n => n ++ [0]) names)) = names ++ [[]].
Proof.
  induction names as [|n names IH]; intros H; [reflexivity|]. inversion H as [|? ? [Hne Hn0] Hs]; subst.
  cbn [map concat]. rewrite <- app_assoc. rewrite split_on_acc by assumption. cbn [app split_on]. rewrite Nat.eqb_refl.
  cbn [app]. now rewrite IH.
Qed.

Lemma filter_good names : Forall goodname names -> filter nonempty names = names /\ existsb (fun s => negb (nonempty s)) names = false.
Proof.
  induction names as [|n names IH]; intros H; [split; reflexivity|]. inversion H as [|? ? [Hne _] Hs]; subst.
  destruct (IH Hs) as [E1 E2]. destruct n; [congruence|]. cbn. now rewrite E1, E2.
Qed.

Lemma drop_final (l : list str) : (match rev (l ++ [[]]) with [] :: r => rev r | _ => l ++ [[]] end) = l.
Proof. rewrite rev_app_distr. cbn. apply rev_involutive. Qed.

Theorem files0_roundtrip names : Forall goodname names ->
  files0_names (concat (map (fun n => n ++ [0]) names)) = (names, false).
Proof.
  intros H. unfold files0_names. rewrite split_join0 by assumption. rewrite rev_app_distr. cbn [rev app].
  rewrite rev_involutive. destruct (filter_good names H) as [-> ->]. reflexivity.
Qed.

(* without the final NUL *)
Theorem files0_roundtrip_nofinal names last : Forall goodname names -> goodname last ->
  files0_names (concat (map (fun n => n ++ [0]) names) ++ last) = (names ++ [last], false).
Proof.
  intros H [Hne Hn0]. unfold files0_names.
  assert (E : split_on 0 [] (concat (map (fun n => n ++ [0]) names) ++ last) = names ++ [last]).
  { induction names as [|n names IH].
    - cbn [map concat app]. rewrite <- (app_nil_r last) at 1. rewrite split_on_acc by assumption. reflexivity.
    - inversion H as [|? ? [Hne' Hn0'] Hs]; subst. cbn [map concat]. rewrite <- !app_assoc.
      rewrite split_on_acc by assumption. cbn [app split_on]. rewrite Nat.eqb_refl. cbn [app]. now rewrite IH. }
  rewrite E. rewrite rev_app_distr. destruct last as [|c l]; [congruence|]. cbn [rev app]. cbv iota.
  assert (Hg : Forall goodname (names ++ [c :: l])) by (apply Forall_app; split; [assumption|repeat constructor; assumption]).
  destruct (filter_good _ Hg) as [E1 E2]. f_equal; [exact E1|exact E2].
Qed.

Lemma split_names_tail : forall a tail, Forall goodname a ->
  split_on 0 [] (concat (map (fun n => n ++ [0]) a) ++ tail) = a ++ split_on 0 [] tail.
Proof.
  induction a as [|n a IH]; intros tail Ha; [reflexivity|].
  inversion Ha as [|? ? [Hne Hn0] Hs]; subst. cbn [map concat]. rewrite <- !app_assoc.
  rewrite split_on_acc by assumption. cbn [app split_on]. rewrite Nat.eqb_refl. cbn [app]. now rewrite IH.
Qed.

(* an empty name is diagnosed and skipped; the others are kept in order *)
Theorem files0_empty_skipped a b : Forall goodname a -> Forall goodname b ->
  files0_names (concat (map (fun n => n ++ [0]) a) ++ [0] ++ concat (map (fun n => n ++ [0]) b)) = (a ++ b, true).
Proof.
  intros Ha Hb. unfold files0_names. rewrite split_names_tail by assumption.
  change ([0] ++ concat (map (fun n => n ++ [0]) b)) with (0 :: concat (map (fun n => n ++ [0]) b)).
  cbn [split_on]. rewrite Nat.eqb_refl, split_join0 by assumption.
  change (a ++ [] :: b ++ [[]]) with (a ++ (([] :: b) ++ [[]])). rewrite app_assoc, drop_final.
  destruct (filter_good a Ha) as [Ea1 Ea2], (filter_good b Hb) as [Eb1 Eb2].
  f_equal.
  - rewrite filter_app. cbn [filter nonempty]. f_equal; [exact Ea1|exact Eb1].
  - rewrite existsb_app. cbn [existsb nonempty negb]. apply orb_true_iff. right. reflexivity.
Qed.

(* no starting point means "." ; operands are kept in order, exactly as spelled *)
Theorem default_dot e rest : is_operand e = false -> starting_points (e :: rest) = ([[46]], e :: rest).
Proof. intros H. unfold starting_points. cbn. now rewrite H. Qed.
Theorem operands_in_order ps e rest : ps <> [] -> forallb is_operand ps = true -> is_operand e = false ->
  starting_points (ps ++ e :: rest) = (ps, e :: rest).
Proof.
  intros Hne Hp He. unfold starting_points.
  assert (E : take_operands (ps ++ e :: rest) = (ps, e :: rest)).
  { clear Hne. induction ps as [|p ps IH]; cbn [app take_operands]; [now rewrite He|].
    cbn in Hp. apply andb_true_iff in Hp as [Hp1 Hp2]. rewrite Hp1, IH by assumption. reflexivity. }
  rewrite E. destruct ps; [congruence|reflexivity].
Qed.

(* ---- the subject of -name ---- *)
Lemma last_seg_acc : forall n cur, ~ In SL n -> last_seg n cur = cur ++ n.
Proof.
  induction n as [|c n IH]; intros cur H; cbn [last_seg]; [now rewrite app_nil_r|].
  destruct (Nat.eqb_spec c SL) as [->|_]; [exfalso; apply H; now left|].
  rewrite IH by (intros H'; apply H; now right). now rewrite <- app_assoc.
Qed.
Lemma last_seg_app : forall a cur n, last_seg (a ++ SL :: n) cur = last_seg n [].
Proof.
  induction a as [|c a IH]; intros cur n; cbn [app last_seg]; [now rewrite Nat.eqb_refl|].
  destruct (c =? SL); apply IH.
Qed.

Lemma trim_sl_rev_plain r c : (c =? SL) = false -> trim_sl_rev (c :: r) = c :: r.
Proof. intros H. cbn. now rewrite H. Qed.

Lemma trim_end_plain s : ends_with_sl s = false -> trim_end_sl s = s.
Proof.
  unfold ends_with_sl, trim_end_sl. destruct (rev s) as [|c r] eqn:E; intros H.
  - cbn. rewrite <- (rev_involutive s), E. reflexivity.
  - rewrite trim_sl_rev_plain by exact H. rewrite <- (rev_involutive s). now rewrite E.
Qed.

Lemma name_subject_plain_end p : p <> [] -> ends_with_sl p = false -> name_subject p = last_seg p [].
Proof. intros Hp He. unfold name_subject. rewrite trim_end_plain by exact He. destruct p; [congruence|reflexivity]. Qed.

(* below a starting point the subject is the entry's own name, whatever the spelling of what precedes it *)
Theorem name_subject_below base n : plainname n -> name_subject (base ++ SL :: n) = n.
Proof.
  intros Hn. pose proof (plain_no_trailing_sl n Hn) as He. destruct Hn as [Hne Hs].
  destruct n as [|c n]; [congruence|].
  assert (Hend : ends_with_sl (base ++ SL :: c :: n) = false).
  { replace (base ++ SL :: c :: n) with ((base ++ [SL]) ++ c :: n) by now rewrite <- app_assoc.
    now rewrite ends_with_sl_app. }
  rewrite name_subject_plain_end; [|destruct base; discriminate|exact Hend].
  rewrite last_seg_app. now rewrite last_seg_acc.
Qed.

(* trailing slashes are ignored *)
Lemma trim_end_sl_snoc s : trim_end_sl (s ++ [SL]) = trim_end_sl s.
Proof. unfold trim_end_sl. rewrite rev_app_distr. cbn. reflexivity. Qed.
Theorem name_subject_trailing_slash s : trim_end_sl s <> [] -> name_subject (s ++ [SL]) = name_subject s.
Proof.
  intros H. unfold name_subject. rewrite trim_end_sl_snoc.
  destruct (trim_end_sl s) eqn:E; [congruence|]. destruct (s ++ [SL]), s; reflexivity.
Qed.

(* the subject never contains a slash, except that it is "/" for a path made of slashes only *)
Lemma last_seg_no_sl : forall s cur, ~ In SL cur -> ~ In SL (last_seg s cur).
Proof.
  induction s as [|c s IH]; intros cur H; cbn [last_seg]; [exact H|].
  destruct (Nat.eqb_spec c SL) as [->|Hc]; [apply IH; intros []|].
  apply IH. intros Hin. apply in_app_or in Hin as [Hin|[->|[]]]; [now apply H|congruence].
Qed.
Theorem name_subject_no_slash p : name_subject p = [SL] \/ ~ In SL (name_subject p).
Proof.
  unfold name_subject. destruct (trim_end_sl p) eqn:E.
  - destruct p; [right; intros []|now left].
  - right. apply last_seg_no_sl. intros [].
Qed.
