Require Import ExecMulti.
From Coq Require Import List NArith Arith Bool Lia.
Import ListNotations.

Section P.
Variable execdir : bool.
Variable budget : N.
Variable ok : nat -> bool.
Notation step := (step execdir budget ok).
Notation matches := (matches execdir budget ok).
Notation finish := (finish execdir ok).
Notation run := (run execdir budget ok).

Definition pending (s : st) : list entry := match cmd s with Some (b, _) => b | None => [] end.
Definition total (b : list entry) : N := fold_right (fun e a => (ecost e + a)%N) 0%N b.
Definition delivered (s : st) : list entry := concat (map snd (runs s)) ++ pending s.
Definition allfit (es : list entry) : Prop := Forall (fun e => reached e = true -> fits e budget = true) es.

Lemma total_app a b : total (a ++ b) = (total a + total b)%N.
Proof. unfold total. induction a as [|x a IH]; cbn [app fold_right]; [lia|]. rewrite IH. lia. Qed.

(* ---- invariant ---- *)
Record inv (s : st) : Prop := {
  inv_budget : match cmd s with Some (b, rem) => (total b + rem = budget)%N | None => True end;
  inv_runs : Forall (fun r => (total (snd r) <= budget)%N) (runs s);
  inv_dir : execdir = true ->
            Forall (fun e => eparent e = current_dir s /\ eparent e <> None) (pending s) /\
            Forall (fun r => Forall (fun e => eparent e = fst r) (snd r) /\ (snd r <> [] -> fst r <> None)) (runs s);
  inv_failed : failed s = true <-> exists i, (i < length (runs s))%nat /\ ok i = false
}.

Lemma opt_eqb_eq a b : opt_eqb a b = true <-> a = b.
Proof. destruct a, b; cbn; try (split; congruence). rewrite Nat.eqb_eq. split; congruence. Qed.

Lemma failed_run cwd b s : inv s ->
  (failed (run_cmd ok cwd b s) = true <-> exists i, (i < length (runs (run_cmd ok cwd b s)))%nat /\ ok i = false).
Proof.
  intros I. unfold run_cmd. cbn [failed runs]. rewrite app_length. cbn [length].
  rewrite orb_true_iff, (inv_failed s I), negb_true_iff. split.
  - intros [(i & Hi & Ho)|Ho]; [exists i; split; [lia|exact Ho]|exists (length (runs s)); split; [lia|exact Ho]].
  - intros (i & Hi & Ho). destruct (Nat.eq_dec i (length (runs s))) as [->|Hn]; [now right|left; exists i; split; [lia|exact Ho]].
Qed.

Lemma matches_inv s e : inv s -> fits e budget = true ->
  (execdir = true -> eparent e = current_dir s /\ eparent e <> None) ->
  inv (matches e s) /\ delivered (matches e s) = delivered s ++ [e] /\ current_dir (matches e s) = current_dir s.
Proof.
  intros I Hfit Hd. unfold matches.
  assert (Hb : match cmd s with Some c => c | None => ([], budget) end = (pending s, match cmd s with Some (_, r) => r | None => budget end)).
  { unfold pending. destruct (cmd s) as [[b r]|]; reflexivity. }
  rewrite Hb. set (b := pending s). set (rem := match cmd s with Some (_, r) => r | None => budget end).
  assert (Hrem : (total b + rem = budget)%N).
  { pose proof (inv_budget s I) as H. unfold b, rem, pending. destruct (cmd s) as [[b0 r0]|]; [exact H|cbn; lia]. }
  destruct (fits e rem) eqn:Ef.
  - split; [|split; [|reflexivity]].
    + unfold fits in Ef. apply andb_true_iff in Ef as [_ Ef]. apply N.leb_le in Ef.
      constructor; cbn [cmd runs current_dir failed].
      * rewrite total_app. cbn [total fold_right]. lia.
      * apply (inv_runs s I).
      * intros He. destruct (inv_dir s I He) as [Hp Hr]. split; [|exact Hr].
        unfold pending at 1. cbn [cmd]. apply Forall_app. split; [exact Hp|]. constructor; [|constructor]. now apply Hd.
      * apply (inv_failed s I).
    + unfold delivered, pending at 1. cbn [cmd runs]. fold b. now rewrite app_assoc.
  - assert (Hne : run_batch ok (if execdir then eparent e else None) b s = run_cmd ok (if execdir then eparent e else None) b s).
    { destruct b as [|x b'] eqn:Eb; [|reflexivity]. exfalso.
      (* with nothing pending the whole budget is left, and the entry fits it *)
      cbn [total fold_right] in Hrem. assert (rem = budget) by lia. subst rem. congruence. }
    rewrite Hne.
    assert (I1 : inv (run_cmd ok (if execdir then eparent e else None) b s)).
    { constructor; cbn [run_cmd cmd runs current_dir].
      - exact Logic.I.
      - apply Forall_app. split; [apply (inv_runs s I)|]. constructor; [cbn [snd]; lia|constructor].
      - intros He. destruct (inv_dir s I He) as [Hp Hr]. split; [unfold pending; cbn; constructor|].
        apply Forall_app. split; [exact Hr|]. constructor; [|constructor]. cbn [fst snd]. rewrite He.
        destruct (Hd He) as [Hc Hn]. split.
        + eapply Forall_impl; [|exact Hp]. cbn. intros a [Ha _]. congruence.
        + intros _. exact Hn.
      - now apply failed_run. }
    rewrite Hfit. split; [|split; [|reflexivity]].
    + unfold fits in Hfit. apply andb_true_iff in Hfit as [_ Hf]. apply N.leb_le in Hf.
      constructor; cbn [cmd runs current_dir failed].
      * cbn [total fold_right]. lia.
      * apply (inv_runs _ I1).
      * intros He. destruct (inv_dir _ I1 He) as [_ Hr]. split; [|exact Hr].
        unfold pending. cbn [cmd]. constructor; [|constructor]. cbn [run_cmd current_dir]. now apply Hd.
      * apply (inv_failed _ I1).
    + unfold delivered. cbn [cmd runs run_cmd]. unfold pending at 1. cbn [cmd]. rewrite map_app, concat_app.
      cbn [map concat snd]. rewrite app_nil_r. reflexivity.
Qed.

Lemma finished_dir_inv d s : inv s -> (execdir = true -> current_dir s = Some d) ->
  inv (finished_dir execdir ok d s) /\ delivered (finished_dir execdir ok d s) = delivered s /\
  (execdir = true -> cmd (finished_dir execdir ok d s) = None).
Proof.
  intros I Hd. unfold finished_dir. destruct execdir eqn:He; [|split; [exact I|split; [reflexivity|discriminate]]].
  destruct (cmd s) as [[b r]|] eqn:Ec; [|split; [exact I|split; [reflexivity|auto]]].
  destruct b as [|x b'] eqn:Eb; cbn [run_batch].
  { (* nothing pending: nothing is run *)
    split; [|split; [|reflexivity]].
    - constructor; cbn [cmd runs current_dir failed].
      + exact Logic.I.
      + apply (inv_runs s I).
      + intros _. destruct (inv_dir s I He) as [_ Hr]. split; [unfold pending; cbn; constructor|exact Hr].
      + apply (inv_failed s I).
    - unfold delivered, pending. cbn [cmd runs]. rewrite Ec. reflexivity. }
  rewrite <- Eb in *. clear Eb.
  split; [|split; [|reflexivity]].
  - constructor; cbn [run_cmd cmd runs current_dir].
    + exact Logic.I.
    + apply Forall_app. split; [apply (inv_runs s I)|]. constructor; [|constructor]. cbn [snd].
      pose proof (inv_budget s I) as H. rewrite Ec in H. lia.
    + intros _. destruct (inv_dir s I He) as [Hp Hr]. split; [unfold pending; cbn; constructor|].
      apply Forall_app. split; [exact Hr|]. constructor; [|constructor]. cbn [fst snd].
      unfold pending in Hp. rewrite Ec in Hp. rewrite (Hd eq_refl) in Hp. split.
      * eapply Forall_impl; [|exact Hp]. cbn. tauto.
      * discriminate.
    + now apply failed_run.
  - unfold delivered, pending. cbn [run_cmd cmd runs]. rewrite Ec, map_app, concat_app. cbn. now rewrite !app_nil_r.
Qed.

Lemma flush_dir_inv s : inv s -> (execdir = true -> current_dir s = None -> cmd s = None) ->
  inv (flush_dir execdir ok s) /\ delivered (flush_dir execdir ok s) = delivered s /\
  (execdir = true -> cmd (flush_dir execdir ok s) = None).
Proof.
  intros I Hn. unfold flush_dir. destruct (current_dir s) as [d|] eqn:Ed.
  - apply finished_dir_inv; auto.
  - split; [exact I|split; [reflexivity|]]. intros He. now apply Hn.
Qed.

Lemma set_dir_inv d s : inv s -> (execdir = true -> cmd s = None) ->
  inv (set_dir d s) /\ delivered (set_dir d s) = delivered s.
Proof.
  intros I Hc. split; [|reflexivity].
  constructor; cbn [set_dir cmd runs current_dir failed]; try apply I.
  intros He. destruct (inv_dir _ I He) as [_ Hr]. split; [|exact Hr].
  unfold pending. cbn [set_dir cmd]. rewrite (Hc He). constructor.
Qed.

Lemma step_inv s e : inv s -> (execdir = true -> eparent e <> None) -> (reached e = true -> fits e budget = true) ->
  (execdir = true -> current_dir s = None -> cmd s = None) ->
  inv (step s e) /\ delivered (step s e) = delivered s ++ (if reached e then [e] else []) /\
  (execdir = true -> current_dir (step s e) = None -> cmd (step s e) = None).
Proof.
  intros I Hp Hfit Hnone. unfold step.
  set (s1 := if opt_eqb (eparent e) (current_dir s) && negb (eown e) then s else _).
  assert (I1 : inv s1 /\ delivered s1 = delivered s /\ (execdir = true -> current_dir s1 = eparent e)).
  { unfold s1. destruct (opt_eqb (eparent e) (current_dir s) && negb (eown e)) eqn:E.
    - apply andb_true_iff in E as [E _]. apply opt_eqb_eq in E. split; [exact I|split; [reflexivity|auto]].
    - destruct (flush_dir_inv s I Hnone) as (I' & Hdel & Hc).
      destruct (set_dir_inv (eparent e) _ I' Hc) as (I'' & Hdel').
      split; [exact I''|]. split; [now rewrite Hdel', Hdel|reflexivity]. }
  clearbody s1. destruct I1 as (I1 & Hdel & Hcd).
  set (s2 := if reached e then matches e s1 else s1).
  assert (I2 : inv s2 /\ delivered s2 = delivered s ++ (if reached e then [e] else []) /\ current_dir s2 = current_dir s1).
  { unfold s2. destruct (reached e) eqn:Er.
    - destruct (matches_inv s1 e I1 (Hfit eq_refl)) as (I2 & Hd2 & Hc2).
      { intros He. split; [symmetry; now apply Hcd|now apply Hp]. }
      split; [exact I2|]. split; [now rewrite Hd2, Hdel|exact Hc2].
    - split; [exact I1|]. split; [now rewrite Hdel, app_nil_r|reflexivity]. }
  clearbody s2. destruct I2 as (I2 & Hd2 & Hc2).
  assert (Hn2 : execdir = true -> current_dir s2 = None -> cmd s2 = None).
  { intros He Hn. rewrite Hc2, (Hcd He) in Hn. exfalso. now apply (Hp He). }
  destruct (eown e).
  - destruct (flush_dir_inv s2 I2 Hn2) as (I3 & Hd3 & Hc3).
    destruct (set_dir_inv None _ I3 Hc3) as (I4 & Hd4).
    split; [exact I4|]. split; [now rewrite Hd4, Hd3|]. intros He _. cbn [set_dir cmd]. now apply Hc3.
  - split; [exact I2|]. split; [exact Hd2|exact Hn2].
Qed.

Lemma fold_inv : forall es s, inv s -> Forall (fun e => execdir = true -> eparent e <> None) es -> allfit es ->
  (execdir = true -> current_dir s = None -> cmd s = None) ->
  inv (fold_left step es s) /\ delivered (fold_left step es s) = delivered s ++ filter reached es /\
  (execdir = true -> current_dir (fold_left step es s) = None -> cmd (fold_left step es s) = None).
Proof.
  induction es as [|e es IH]; intros s I Hp Hf Hn.
  - cbn. now rewrite app_nil_r.
  - inversion Hp as [|? ? Hp1 Hp2]; subst. inversion Hf as [|? ? Hf1 Hf2]; subst.
    destruct (step_inv s e I Hp1 Hf1 Hn) as (I1 & Hd1 & Hn1).
    cbn [fold_left filter]. destruct (IH _ I1 Hp2 Hf2 Hn1) as (I2 & Hd2 & Hn2).
    split; [exact I2|]. split; [|exact Hn2]. rewrite Hd2, Hd1, <- app_assoc. destruct (reached e); reflexivity.
Qed.

Lemma inv0 : inv st0.
Proof.
  constructor; cbn [st0 cmd runs failed current_dir pending length].
  - exact Logic.I.
  - constructor.
  - intros _. split; constructor.
  - split; [discriminate|intros (i & Hi & _); lia].
Qed.

(* the whole run over one starting point *)
Theorem run_spec es : Forall (fun e => execdir = true -> eparent e <> None) es -> allfit es ->
  let s := run es in
  cmd s = None /\                                                                (* nothing pending at the end *)
  concat (map snd (runs s)) = filter reached es /\                               (* each once, in order *)
  Forall (fun r => (total (snd r) <= budget)%N) (runs s) /\                      (* every invocation within the budget *)
  (execdir = true -> Forall (fun r => Forall (fun e => eparent e = fst r) (snd r) /\ (snd r <> [] -> fst r <> None)) (runs s)) /\
  (failed s = true <-> exists i, (i < length (runs s))%nat /\ ok i = false).    (* exit status *)
Proof.
  intros Hp Hf. cbn zeta. unfold ExecMulti.run.
  destruct (fold_inv es st0 inv0 Hp Hf (fun _ _ => eq_refl)) as (I & Hd & Hn).
  set (s := fold_left step es st0) in *. clearbody s.
  change (delivered st0 ++ filter reached es) with (filter reached es) in Hd.
  unfold ExecMulti.finish.
  set (s1 := flush_dir execdir ok s).
  assert (I1 : inv s1 /\ delivered s1 = delivered s /\ (execdir = true -> cmd s1 = None)).
  { unfold s1. now apply flush_dir_inv. }
  clearbody s1. destruct I1 as (I1 & Hd1 & Hc1).
  unfold finished. destruct execdir eqn:He.
  - specialize (Hc1 eq_refl). split; [exact Hc1|]. split.
    + unfold delivered, pending in Hd1. rewrite Hc1, app_nil_r in Hd1. rewrite Hd1. exact Hd.
    + split; [apply I1|]. split; [intros _; apply (inv_dir _ I1 He)|apply I1].
  - destruct (cmd s1) as [[b r]|] eqn:Ec.
    + destruct b as [|x b'] eqn:Eb; cbn [run_batch].
      { (* nothing pending: nothing is run *)
        cbn [cmd runs failed]. split; [reflexivity|]. split.
        - unfold delivered, pending in Hd1. rewrite Ec, app_nil_r in Hd1. rewrite Hd1. exact Hd.
        - split; [apply I1|]. split; [discriminate|apply I1]. }
      rewrite <- Eb in *. clear Eb.
      cbn [run_cmd cmd runs failed]. split; [reflexivity|]. split.
      * rewrite map_app, concat_app. cbn. rewrite app_nil_r.
        unfold delivered, pending in Hd1. rewrite Ec in Hd1. rewrite Hd1. exact Hd.
      * split.
        -- apply Forall_app. split; [apply I1|]. constructor; [|constructor]. cbn [snd].
           pose proof (inv_budget _ I1) as H. rewrite Ec in H. lia.
        -- split; [discriminate|]. apply (failed_run None b s1 I1).
    + split; [exact Ec|]. split.
      * unfold delivered, pending in Hd1. rewrite Ec, app_nil_r in Hd1. rewrite Hd1. exact Hd.
      * split; [apply I1|]. split; [discriminate|apply I1].
Qed.

(* no invocation without a path - whatever fits or does not *)
Definition nonempty_runs (s : st) : Prop := Forall (fun r => snd r <> []) (runs s).
Lemma run_batch_ne cwd b s : nonempty_runs s -> nonempty_runs (run_batch ok cwd b s).
Proof.
  intros H. destruct b as [|x b']; cbn [run_batch]; [exact H|]. unfold nonempty_runs, run_cmd. cbn [runs].
  apply Forall_app. split; [exact H|]. constructor; [discriminate|constructor].
Qed.
Lemma matches_ne e s : nonempty_runs s -> nonempty_runs (matches e s).
Proof.
  intros H. unfold ExecMulti.matches. destruct (match cmd s with Some c => c | None => ([], budget) end) as [b rem].
  destruct (fits e rem); [exact H|]. pose proof (run_batch_ne (if execdir then eparent e else None) b s H) as H1.
  destruct (fits e budget); exact H1.
Qed.
Lemma finished_dir_ne d s : nonempty_runs s -> nonempty_runs (finished_dir execdir ok d s).
Proof. intros H. unfold finished_dir. destruct execdir; [|exact H]. destruct (cmd s) as [[b r]|]; [now apply run_batch_ne|exact H]. Qed.
Lemma flush_dir_ne s : nonempty_runs s -> nonempty_runs (flush_dir execdir ok s).
Proof. intros H. unfold flush_dir. destruct (current_dir s); [now apply finished_dir_ne|exact H]. Qed.
Lemma step_ne s e : nonempty_runs s -> nonempty_runs (step s e).
Proof.
  intros H. unfold ExecMulti.step.
  set (s1 := if opt_eqb (eparent e) (current_dir s) && negb (eown e) then s else _).
  assert (H1 : nonempty_runs s1).
  { unfold s1. destruct (opt_eqb (eparent e) (current_dir s) && negb (eown e)); [exact H|]. unfold nonempty_runs. cbn [set_dir runs].
    now apply flush_dir_ne. }
  clearbody s1.
  set (s2 := if reached e then matches e s1 else s1).
  assert (H2 : nonempty_runs s2). { unfold s2. destruct (reached e); [now apply matches_ne|exact H1]. }
  clearbody s2. destruct (eown e); [|exact H2]. unfold nonempty_runs. cbn [set_dir runs]. now apply flush_dir_ne.
Qed.
Theorem run_never_empty es : nonempty_runs (run es).
Proof.
  unfold ExecMulti.run, ExecMulti.finish.
  assert (H : nonempty_runs (fold_left step es st0)).
  { assert (G : forall s, nonempty_runs s -> nonempty_runs (fold_left step es s)).
    { induction es as [|e es IH]; intros s Hs; [exact Hs|]. cbn [fold_left]. apply IH. now apply step_ne. }
    apply G. constructor. }
  set (s := fold_left step es st0) in *. clearbody s.
  pose proof (flush_dir_ne s H) as H1.
  unfold finished. destruct execdir; [exact H1|].
  destruct (cmd _) as [[b r]|]; [now apply run_batch_ne|exact H1].
Qed.

(* ---- an entry that is its own directory ("/") shares its invocation with nothing ---- *)
Definition nonown (b : list entry) : Prop := Forall (fun e => eown e = false) b.
Definition okb (b : list entry) : Prop := nonown b \/ exists e, b = [e].
Definition alone (r : option dir * list entry) : Prop := forall e, In e (snd r) -> eown e = true -> snd r = [e].
Lemma okb_alone r : okb (snd r) -> alone r.
Proof.
  intros [H|(e' & H)] e Hin Ho.
  - unfold nonown in H. rewrite Forall_forall in H. rewrite (H e Hin) in Ho. discriminate.
  - rewrite H in *. destruct Hin as [->|[]]. reflexivity.
Qed.
Definition okruns (s : st) : Prop := Forall (fun r => okb (snd r)) (runs s).

Lemma run_batch_facts cwd b s :
  cmd (run_batch ok cwd b s) = None /\ current_dir (run_batch ok cwd b s) = current_dir s /\
  (okruns s -> okb b -> okruns (run_batch ok cwd b s)).
Proof.
  destruct b as [|x b']; cbn [run_batch run_cmd cmd current_dir]; (split; [reflexivity|split; [reflexivity|]]).
  - intros H _. exact H.
  - intros H Hb. unfold okruns. cbn [runs]. apply Forall_app. split; [exact H|]. constructor; [exact Hb|constructor].
Qed.

Lemma finished_dir_facts d s : execdir = true ->
  cmd (finished_dir execdir ok d s) = None /\ current_dir (finished_dir execdir ok d s) = current_dir s /\
  (okruns s -> okb (pending s) -> okruns (finished_dir execdir ok d s)).
Proof.
  intros He. unfold finished_dir. rewrite He. unfold pending. destruct (cmd s) as [[b r]|] eqn:Ec.
  - apply run_batch_facts.
  - split; [exact Ec|split; [reflexivity|auto]].
Qed.

Lemma flush_dir_facts s : execdir = true -> (current_dir s = None -> cmd s = None) ->
  cmd (flush_dir execdir ok s) = None /\ (okruns s -> okb (pending s) -> okruns (flush_dir execdir ok s)).
Proof.
  intros He Hn. unfold flush_dir. destruct (current_dir s) as [d|].
  - destruct (finished_dir_facts d s He) as (A & _ & C). split; assumption.
  - split; [now apply Hn|auto].
Qed.

Lemma matches_facts e s : okruns s -> nonown (pending s) ->
  current_dir (matches e s) = current_dir s /\ okruns (matches e s) /\
  (eown e = false -> nonown (pending (matches e s))) /\
  (pending s = [] -> pending (matches e s) = [e] \/ pending (matches e s) = []).
Proof.
  intros Hr Hp. unfold ExecMulti.matches.
  assert (Hb : match cmd s with Some c => c | None => ([], budget) end = (pending s, match cmd s with Some (_, r) => r | None => budget end)).
  { unfold pending. destruct (cmd s) as [[b r]|]; reflexivity. }
  rewrite Hb. set (b := pending s) in *. set (rem := match cmd s with Some (_, r) => r | None => budget end).
  destruct (fits e rem).
  - cbn [current_dir runs]. split; [reflexivity|]. split; [exact Hr|]. unfold pending. cbn [cmd]. split.
    + intros Ho. apply Forall_app. split; [exact Hp|]. constructor; [exact Ho|constructor].
    + intros ->. left. reflexivity.
  - destruct (run_batch_facts (if execdir then eparent e else None) b s) as (_ & Hcd & Hok).
    specialize (Hok Hr (or_introl Hp)).
    destruct (fits e budget); cbn [current_dir runs]; (split; [exact Hcd|]); (split; [exact Hok|]); unfold pending; cbn [cmd]; split.
    + intros Ho. constructor; [exact Ho|constructor].
    + intros _. left. reflexivity.
    + intros _. constructor.
    + intros _. right. reflexivity.
Qed.

Record jnv (s : st) : Prop := {
  j_none : current_dir s = None -> cmd s = None;
  j_pending : nonown (pending s);
  j_runs : okruns s
}.

Lemma step_jnv s e : execdir = true -> eparent e <> None -> jnv s -> jnv (step s e).
Proof.
  intros He Hpar J. unfold ExecMulti.step.
  set (s1 := if opt_eqb (eparent e) (current_dir s) && negb (eown e) then s else _).
  assert (J1 : jnv s1 /\ current_dir s1 = eparent e /\ (eown e = true -> pending s1 = [])).
  { unfold s1. destruct (opt_eqb (eparent e) (current_dir s) && negb (eown e)) eqn:E.
    - apply andb_true_iff in E as [E Eo]. apply opt_eqb_eq in E. apply negb_true_iff in Eo.
      split; [exact J|]. split; [now symmetry|]. intros Ho. congruence.
    - destruct (flush_dir_facts s He (j_none s J)) as (Hc & Hok).
      assert (Hpe : pending (set_dir (eparent e) (flush_dir execdir ok s)) = []).
      { unfold pending. cbn [set_dir cmd]. now rewrite Hc. }
      split; [|split; [reflexivity|intros _; exact Hpe]].
      constructor.
      + intros _. exact Hc.
      + rewrite Hpe. constructor.
      + unfold okruns. cbn [set_dir runs]. apply Hok; [apply J|left; apply J]. }
  clearbody s1. destruct J1 as (J1 & Hcd1 & Hown1).
  set (s2 := if reached e then matches e s1 else s1).
  assert (J2 : current_dir s2 = eparent e /\ okruns s2 /\ (eown e = false -> nonown (pending s2)) /\
               (eown e = true -> pending s2 = [e] \/ pending s2 = [])).
  { unfold s2. destruct (reached e).
    - destruct (matches_facts e s1 (j_runs _ J1) (j_pending _ J1)) as (A & B & C & D).
      split; [now rewrite A|]. split; [exact B|]. split; [exact C|]. intros Ho. apply D. now apply Hown1.
    - split; [exact Hcd1|]. split; [apply J1|]. split; [intros _; apply J1|]. intros Ho. right. now apply Hown1. }
  clearbody s2. destruct J2 as (Hcd2 & Hr2 & Hno2 & Hown2).
  destruct (eown e) eqn:Eo.
  - destruct (flush_dir_facts s2 He) as (Hc & Hok).
    { intros Hn. rewrite Hcd2 in Hn. contradiction. }
    assert (Hpe : pending (set_dir None (flush_dir execdir ok s2)) = []).
    { unfold pending. cbn [set_dir cmd]. now rewrite Hc. }
    constructor.
    + intros _. exact Hc.
    + rewrite Hpe. constructor.
    + unfold okruns. cbn [set_dir runs]. apply Hok; [exact Hr2|].
      destruct (Hown2 eq_refl) as [H|H]; rewrite H; [right; now exists e|left; constructor].
  - constructor.
    + intros Hn. rewrite Hcd2 in Hn. contradiction.
    + now apply Hno2.
    + exact Hr2.
Qed.

Theorem own_dir_alone es : execdir = true -> Forall (fun e => eparent e <> None) es ->
  Forall alone (runs (run es)).
Proof.
  intros He Hp. unfold ExecMulti.run, ExecMulti.finish.
  assert (J : jnv (fold_left step es st0)).
  { assert (G : forall s, jnv s -> jnv (fold_left step es s)).
    { induction Hp as [|e es Hpe _ IH]; intros s Js; [exact Js|]. cbn [fold_left]. apply IH. now apply step_jnv. }
    apply G. constructor; cbn; [reflexivity|constructor|constructor]. }
  set (s := fold_left step es st0) in *. clearbody s.
  destruct (flush_dir_facts s He (j_none s J)) as (_ & Hok).
  specialize (Hok (j_runs s J) (or_introl (j_pending s J))).
  unfold finished. destruct execdir; [|discriminate]. eapply Forall_impl; [|exact Hok]. intros r. apply okb_alone.
Qed.
End P.
