(* Reading the reference traversals pre/posto as statements about the set and order of entries. *)
Require Import Walk WalkPre WalkPost.
From Coq Require Import List Arith Bool Lia.
Import ListNotations.

Lemma node_ind2 (Q : node -> Prop) :
  Q Leaf -> Q Dang -> Q Bad -> (forall ch, Forall (fun x => Q (snd x)) ch -> Q (Dir ch)) -> forall n, Q n.
Proof.
  intros HL HD HB HDir. fix F 1. intros [| | |ch]; [exact HL|exact HD|exact HB|]. apply HDir.
  induction ch as [|[nm x] ch IH]; constructor; [apply F|exact IH].
Qed.

Definition noP : rpath -> nat -> bool := fun _ _ => false.
Definition ev_path (e : event) : rpath := match e with Ent rp _ _ => rp | Err rp => rp end.

(* every entry of the tree, once, in pre-order / post-order; depth = number of components below the root *)
Fixpoint nodes (rp : rpath) (n : node) {struct n} : list event :=
  match n with
  | Leaf | Dang => [Ent rp (length rp) false]
  | Bad => [Err rp]
  | Dir ch => Ent rp (length rp) true ::
              (fix go (l : list (name * node)) : list event :=
                 match l with [] => [] | (nm, x) :: l' => nodes (nm :: rp) x ++ go l' end) ch
  end.
Fixpoint nodes_post (rp : rpath) (n : node) {struct n} : list event :=
  match n with
  | Leaf | Dang => [Ent rp (length rp) false]
  | Bad => [Err rp]
  | Dir ch => (fix go (l : list (name * node)) : list event :=
                 match l with [] => [] | (nm, x) :: l' => nodes_post (nm :: rp) x ++ go l' end) ch
              ++ [Ent rp (length rp) true]
  end.
Fixpoint nforest (rp : rpath) (l : list (name * node)) : list event :=
  match l with [] => [] | (nm, x) :: l' => nodes (nm :: rp) x ++ nforest rp l' end.
Fixpoint nforest_post (rp : rpath) (l : list (name * node)) : list event :=
  match l with [] => [] | (nm, x) :: l' => nodes_post (nm :: rp) x ++ nforest_post rp l' end.
Lemma nodes_dir rp ch : nodes rp (Dir ch) = Ent rp (length rp) true :: nforest rp ch.
Proof. cbn [nodes]. f_equal. induction ch as [|[nm x] ch IH]; cbn [nforest]; [reflexivity|now rewrite IH]. Qed.
Lemma nodes_post_dir rp ch : nodes_post rp (Dir ch) = nforest_post rp ch ++ [Ent rp (length rp) true].
Proof. cbn [nodes_post]. f_equal. induction ch as [|[nm x] ch IH]; cbn [nforest_post]; [reflexivity|now rewrite IH]. Qed.

Section S.
Variable c : cfg.

(* what the depth bounds let through: entries with mindepth <= depth <= maxdepth; an unreadable
   entry is diagnosed whenever the walk reaches it (depth <= maxdepth) *)
Definition keep (e : event) : bool :=
  match e with Ent _ d _ => inr c d | Err rp => length rp <=? maxd c end.

Fixpoint pforest (P : rpath -> nat -> bool) (rp : rpath) (d : nat) (l : list (name * node)) : list event :=
  match l with [] => [] | (nm, x) :: l' => pre c P (nm :: rp) d x ++ pforest P rp d l' end.
Lemma pre_dir' P rp d ch : pre c P rp d (Dir ch) =
  (if inr c d then [Ent rp d true] else []) ++
  (if (maxd c <=? d) || (inr c d && P rp d) then [] else pforest P rp (S d) ch).
Proof.
  cbn [pre]. f_equal. destruct ((maxd c <=? d) || (inr c d && P rp d)); [reflexivity|].
  induction ch as [|[nm x] ch IH]; cbn [pforest]; [reflexivity|]. now rewrite IH.
Qed.
Fixpoint poforest (rp : rpath) (d : nat) (l : list (name * node)) : list event :=
  match l with [] => [] | (nm, x) :: l' => posto c (nm :: rp) d x ++ poforest rp d l' end.
Lemma posto_dir' rp d ch : posto c rp d (Dir ch) =
  (if maxd c <=? d then [] else poforest rp (S d) ch) ++ (if inr c d then [Ent rp d true] else []).
Proof.
  cbn [posto]. f_equal. destruct (maxd c <=? d); [reflexivity|].
  induction ch as [|[nm x] ch IH]; cbn [poforest]; [reflexivity|]. now rewrite IH.
Qed.

(* every event of a subtree lies at or below its root *)
Lemma nodes_deep : forall n rp e, In e (nodes rp n) ->
  length rp <= length (ev_path e) /\ (match e with Ent p d _ => d = length p | Err _ => True end).
Proof.
  induction n as [| | |ch IH] using node_ind2; intros rp e H.
  1-3: cbn in H; destruct H as [<-|[]]; cbn; auto.
  rewrite nodes_dir in H. destruct H as [<-|H]; [cbn; auto|].
  induction ch as [|[nm x] ch IHch]; [destruct H|]. inversion IH as [|? ? Hx Hch]; subst.
  cbn [nforest] in H. apply in_app_or in H as [H|H].
  - apply Hx in H. cbn [length] in H. destruct H. split; [lia|assumption].
  - now apply IHch.
Qed.
Lemma nodes_post_deep : forall n rp e, In e (nodes_post rp n) ->
  length rp <= length (ev_path e) /\ (match e with Ent p d _ => d = length p | Err _ => True end).
Proof.
  induction n as [| | |ch IH] using node_ind2; intros rp e H.
  1-3: cbn in H; destruct H as [<-|[]]; cbn; auto.
  rewrite nodes_post_dir in H. apply in_app_or in H as [H|[<-|[]]]; [|cbn; auto].
  induction ch as [|[nm x] ch IHch]; [destruct H|]. inversion IH as [|? ? Hx Hch]; subst.
  cbn [nforest_post] in H. apply in_app_or in H as [H|H].
  - apply Hx in H. cbn [length] in H. destruct H. split; [lia|assumption].
  - now apply IHch.
Qed.

Lemma filter_none {A} (f : A -> bool) l : (forall x, In x l -> f x = false) -> filter f l = [].
Proof.
  induction l as [|a l IH]; intros H; [reflexivity|]. cbn. rewrite (H a) by now left.
  apply IH. intros x Hx. apply H. now right.
Qed.

Lemma keep_deep e k : maxd c < k -> k <= length (ev_path e) ->
  (match e with Ent p d _ => d = length p | Err _ => True end) -> keep e = false.
Proof.
  intros Hk Hl Hd. destruct e as [p d b|p]; cbn in *.
  - subst d. unfold inr. apply andb_false_iff. right. apply Nat.leb_gt. lia.
  - apply Nat.leb_gt. lia.
Qed.

(* C02: without -prune, the pre-order walk reports exactly the in-range entries of the complete
   pre-order listing - each once, none outside the range, nothing below maxdepth *)
Theorem pre_all : forall n rp, length rp <= maxd c -> pre c noP rp (length rp) n = filter keep (nodes rp n).
Proof.
  induction n as [| | |ch IH] using node_ind2; intros rp Hrp.
  1-2: cbn; destruct (inr c (length rp)); reflexivity.
  - cbn. apply Nat.leb_le in Hrp. now rewrite Hrp.
  - rewrite pre_dir', nodes_dir. cbn [filter keep].
    assert (Hf : (if (maxd c <=? length rp) || (inr c (length rp) && noP rp (length rp)) then []
                  else pforest noP rp (S (length rp)) ch) = filter keep (nforest rp ch)).
    { unfold noP at 1. rewrite andb_false_r, orb_false_r.
      destruct (Nat.leb_spec (maxd c) (length rp)) as [Hm|Hm].
      - symmetry. apply filter_none. intros e He.
        assert (Hd : S (length rp) <= length (ev_path e) /\ match e with Ent p d _ => d = length p | Err _ => True end).
        { clear IH. induction ch as [|[nm x] ch IHch]; [destruct He|]. cbn [nforest] in He.
          apply in_app_or in He as [He|He]; [apply nodes_deep in He; cbn [length] in He; exact He|now apply IHch]. }
        destruct Hd. eapply keep_deep; eauto. lia.
      - induction ch as [|[nm x] ch IHch]; [reflexivity|]. inversion IH as [|? ? Hx Hch]; subst.
        cbn [pforest nforest]. rewrite filter_app. f_equal; [|now apply IHch].
        cbn [snd] in Hx. rewrite <- Hx by (cbn [length]; lia). reflexivity. }
    rewrite Hf. destruct (inr c (length rp)); reflexivity.
Qed.

(* the same for -depth: the in-range entries of the complete post-order listing *)
Theorem posto_all : forall n rp, length rp <= maxd c -> posto c rp (length rp) n = filter keep (nodes_post rp n).
Proof.
  induction n as [| | |ch IH] using node_ind2; intros rp Hrp.
  1-2: cbn; destruct (inr c (length rp)); reflexivity.
  - cbn. apply Nat.leb_le in Hrp. now rewrite Hrp.
  - rewrite posto_dir', nodes_post_dir, filter_app. cbn [filter keep].
    assert (Hf : (if maxd c <=? length rp then [] else poforest rp (S (length rp)) ch) = filter keep (nforest_post rp ch)).
    { destruct (Nat.leb_spec (maxd c) (length rp)) as [Hm|Hm].
      - symmetry. apply filter_none. intros e He.
        assert (Hd : S (length rp) <= length (ev_path e) /\ match e with Ent p d _ => d = length p | Err _ => True end).
        { clear IH. induction ch as [|[nm x] ch IHch]; [destruct He|]. cbn [nforest_post] in He.
          apply in_app_or in He as [He|He]; [apply nodes_post_deep in He; cbn [length] in He; exact He|now apply IHch]. }
        destruct Hd. eapply keep_deep; eauto. lia.
      - induction ch as [|[nm x] ch IHch]; [reflexivity|]. inversion IH as [|? ? Hx Hch]; subst.
        cbn [poforest nforest_post]. rewrite filter_app. f_equal; [|now apply IHch].
        cbn [snd] in Hx. rewrite <- Hx by (cbn [length]; lia). reflexivity. }
    rewrite Hf. destruct (inr c (length rp)); reflexivity.
Qed.

(* C03: -prune removes exactly the entries strictly below an in-range directory on which the
   expression pruned; everything else is reported as without -prune, in the same order *)
Variable P : rpath -> nat -> bool.
Fixpoint anc_pruned (rp : rpath) : bool :=        (* some proper ancestor is a pruned, in-range directory *)
  match rp with
  | [] => false
  | _ :: rp' => (inr c (length rp') && P rp' (length rp')) || anc_pruned rp'
  end.

Lemma anc_pruned_ext q rp : inr c (length rp) && P rp (length rp) = true -> q <> [] -> anc_pruned (q ++ rp) = true.
Proof.
  intros H. induction q as [|a q IH]; intros Hq; [congruence|]. cbn [app anc_pruned].
  destruct q as [|b q]; [cbn [app]; now rewrite H|]. rewrite IH by discriminate. apply orb_true_r.
Qed.

(* every event of pre below (nm :: rp) has a path that extends rp properly *)
Lemma pre_paths Q : forall n rp d e, In e (pre c Q rp d n) -> exists q, ev_path e = q ++ rp.
Proof.
  induction n as [| | |ch IH] using node_ind2; intros rp d e H.
  1-2: cbn in H; destruct (inr c d); [destruct H as [<-|[]]; exists []; reflexivity|destruct H].
  - cbn in H. destruct H as [<-|[]]. exists []. reflexivity.
  - rewrite pre_dir' in H. apply in_app_or in H as [H|H].
    + destruct (inr c d); [destruct H as [<-|[]]; exists []; reflexivity|destruct H].
    + destruct (_ || _); [destruct H|].
      induction ch as [|[nm x] ch IHch]; [destruct H|]. inversion IH as [|? ? Hx Hch]; subst.
      cbn [pforest] in H. apply in_app_or in H as [H|H]; [|now apply IHch].
      apply Hx in H. destruct H as [q Hq]. exists (q ++ [nm]). rewrite Hq, <- app_assoc. reflexivity.
Qed.

Theorem prune_exact : forall n rp, anc_pruned rp = false ->
  pre c P rp (length rp) n = filter (fun e => negb (anc_pruned (ev_path e))) (pre c noP rp (length rp) n).
Proof.
  induction n as [| | |ch IH] using node_ind2; intros rp Ha.
  1-2: cbn; destruct (inr c (length rp)); cbn; rewrite ?Ha; reflexivity.
  - cbn. now rewrite Ha.
  - rewrite !pre_dir', filter_app.
    assert (H1 : filter (fun e => negb (anc_pruned (ev_path e))) (if inr c (length rp) then [Ent rp (length rp) true] else [])
                 = (if inr c (length rp) then [Ent rp (length rp) true] else [])).
    { destruct (inr c (length rp)); cbn; rewrite ?Ha; reflexivity. }
    rewrite H1. f_equal. unfold noP at 1. rewrite andb_false_r, orb_false_r.
    destruct (maxd c <=? length rp); [reflexivity|]. cbn [orb].
    destruct (inr c (length rp) && P rp (length rp)) eqn:Hp.
    + symmetry. apply filter_none. intros e He. apply negb_false_iff.
      assert (Hq : exists q, q <> [] /\ ev_path e = q ++ rp).
      { clear IH. induction ch as [|[nm x] ch IHch]; [destruct He|]. cbn [pforest] in He.
        apply in_app_or in He as [He|He]; [|now apply IHch].
        apply pre_paths in He. destruct He as [q Hq]. exists (q ++ [nm]). split; [destruct q; discriminate|].
        rewrite Hq, <- app_assoc. reflexivity. }
      destruct Hq as (q & Hne & ->). now apply anc_pruned_ext.
    + induction ch as [|[nm x] ch IHch]; [reflexivity|]. inversion IH as [|? ? Hx Hch]; subst.
      cbn [pforest]. rewrite filter_app. f_equal; [|now apply IHch].
      cbn [snd] in Hx. specialize (Hx (nm :: rp)). cbn [length] in Hx. apply Hx.
      cbn [anc_pruned]. now rewrite Hp, Ha.
Qed.
End S.

