(* The position-set matcher of glob.rs (Pattern::matches) decides whole-string fnmatch. *)
Require Import GlobEngine GlobBT.
From Coq Require Import List Arith Bool Lia.
Import ListNotations.

Lemma fn_nil s : fn [] s = true <-> s = [].
Proof. destruct s; cbn; split; congruence. Qed.

(* a pattern in two parts matches iff the subject splits accordingly *)
Lemma fn_app : forall r1 r2 s, fn (r1 ++ r2) s = true <->
  exists k, k <= length s /\ fn r1 (firstn k s) = true /\ fn r2 (skipn k s) = true.
Proof.
  induction r1 as [|it r1 IH]; intros r2 s.
  - cbn [app]. split.
    + intros H. exists 0. cbn. repeat split; [lia|exact H].
    + intros (k & Hk & H1 & H2). apply fn_nil_firstn in H1; [|exact Hk]. subst k. exact H2.
  - destruct it as [f|].
    + cbn [app]. destruct s as [|c s'].
      * cbn. split; [discriminate|]. intros (k & Hk & H1 & _). destruct k; cbn in H1; discriminate.
      * cbn [fn]. rewrite andb_true_iff, IH. split.
        -- intros (Hf & k & Hk & H1 & H2). exists (S k). cbn [length firstn skipn fn]. rewrite Hf, H1. repeat split; [lia|exact H2].
        -- intros (K & HK & H1 & H2). destruct K as [|k]; [cbn in H1; discriminate|].
           cbn [length firstn skipn fn] in *. apply andb_true_iff in H1 as [Hf H1]. split; [exact Hf|]. exists k. repeat split; [lia|exact H1|exact H2].
    + cbn [app]. rewrite fn_star, go_spec. split.
      * intros (j & Hj & H). apply IH in H as (k & Hk & H1 & H2). rewrite skipn_length in Hk.
        exists (j + k). repeat split; [lia| |].
        -- rewrite fn_star, go_spec. exists j. rewrite firstn_length. split; [lia|].
           rewrite skipn_firstn_sub by lia. replace (j + k - j) with k by lia. exact H1.
        -- rewrite skipn_skipn in H2. now rewrite Nat.add_comm.
      * intros (K & HK & H1 & H2). rewrite fn_star, go_spec in H1. destruct H1 as (j & Hj & H1).
        rewrite firstn_length in Hj. assert (HjK : j <= K) by lia.
        exists j. split; [lia|]. apply IH. exists (K - j). rewrite skipn_length. repeat split; [lia| |].
        -- rewrite skipn_firstn_sub in H1 by exact HjK. exact H1.
        -- rewrite skipn_skipn. replace (K - j + j) with K by lia. exact H2.
Qed.

Lemma fn_one_star u : fn [RStar] u = true.
Proof. rewrite fn_star. apply go_spec. exists (length u). split; [lia|]. now rewrite skipn_all. Qed.
Lemma fn_one_single f u : fn [RSingle f] u = true <-> exists c, u = [c] /\ f c = true.
Proof.
  destruct u as [|c [|d u]]; cbn.
  - split; [discriminate|]. intros (c & E & _). discriminate.
  - rewrite andb_true_r. split; [intros H; exists c; auto|]. intros (c' & E & H). now injection E as ->.
  - rewrite andb_false_r. split; [discriminate|]. intros (c' & E & _). discriminate.
Qed.

Lemma existsb_map' {A B} (f : B -> bool) (g : A -> B) l : existsb f (map g l) = existsb (fun x => f (g x)) l.
Proof. induction l as [|a l IH]; cbn; [reflexivity|]. now rewrite IH. Qed.

(* ---- the two updates of the reachable set ---- *)
Lemma spread_length b l : length (spread b l) = length l.
Proof. revert b. induction l as [|r l IH]; intros b; cbn; [reflexivity|]. now rewrite IH. Qed.
Lemma spread_nth : forall l b j, j < length l ->
  nth j (spread b l) false = b || existsb (fun i => nth i l false) (seq 0 (S j)).
Proof.
  induction l as [|r l IH]; intros b j Hj; [cbn in Hj; lia|].
  destruct j as [|j]; cbn [spread nth].
  - cbn. now rewrite orb_false_r.
  - rewrite IH by (cbn in Hj; lia). change (seq 0 (S (S j))) with (0 :: seq 1 (S j)). cbn [existsb].
    rewrite <- seq_shift, existsb_map'. cbn [nth]. now rewrite orb_assoc.
Qed.

Lemma shift_length f : forall l s, length l = S (length s) -> length (shift f l s) = length s.
Proof.
  intros l s. revert l. induction s as [|c s IH]; intros l H.
  - destruct l as [|r l]; reflexivity.
  - destruct l as [|r l]; cbn in H; [lia|]. cbn [shift length]. f_equal. apply IH. lia.
Qed.
Lemma shift_nth f : forall l s j, j < length s -> j < length l ->
  nth j (shift f l s) false = nth j l false && f (nth j s 0).
Proof.
  intros l s. revert l. induction s as [|c s IH]; intros l j Hs Hl; [cbn in Hs; lia|].
  destruct l as [|r l]; [cbn in Hl; lia|]. destruct j as [|j]; cbn [shift nth]; [reflexivity|].
  apply IH; cbn in *; lia.
Qed.

Lemma firstn_succ_nth (s : list nat) j : j < length s -> firstn (S j) s = firstn j s ++ [nth j s 0].
Proof.
  revert j. induction s as [|c s IH]; intros j H; [cbn in H; lia|]. destruct j as [|j]; [reflexivity|].
  cbn [firstn nth app]. f_equal. apply IH. cbn in H. lia.
Qed.

Section S.
Variable s : list nat.
Let n := length s.

Definition Inv (r : re) (reach : list bool) : Prop :=
  length reach = S n /\ forall j, j <= n -> nth j reach false = fn r (firstn j s).

Lemma inv0 : Inv [] (reach0 s).
Proof.
  split; [unfold reach0; cbn; now rewrite repeat_length|]. intros j Hj. unfold reach0. destruct j as [|j]; [reflexivity|].
  cbn [nth]. transitivity false.
  - clear Hj. generalize (length s). intros m. revert j. induction m; intros j; destruct j; cbn; auto.
  - symmetry. apply not_true_is_false. intros H. apply fn_nil in H. unfold n in Hj.
    destruct s as [|c s']; [cbn in Hj; lia|discriminate].
Qed.

Lemma inv_star r reach : Inv r reach -> Inv (r ++ [RStar]) (spread false reach).
Proof.
  intros [Hl H]. split; [now rewrite spread_length|]. intros j Hj.
  rewrite spread_nth by lia. cbn [orb]. apply eq_true_iff_eq. rewrite existsb_exists, fn_app. split.
  - intros (i & Hi & Hr). apply in_seq in Hi. rewrite H in Hr by lia.
    exists i. rewrite firstn_length. repeat split; [unfold n in *; lia| |apply fn_one_star].
    rewrite firstn_firstn. now replace (Nat.min i j) with i by lia.
  - intros (k & Hk & H1 & _). rewrite firstn_length in Hk. rewrite firstn_firstn in H1.
    replace (Nat.min k j) with k in H1 by (unfold n in *; lia).
    exists k. split; [apply in_seq; unfold n in *; lia|]. rewrite H by (unfold n in *; lia). exact H1.
Qed.

Lemma inv_single r reach f : Inv r reach -> Inv (r ++ [RSingle f]) (false :: shift f reach s).
Proof.
  intros [Hl H]. split; [cbn [length]; now rewrite shift_length|]. intros j Hj.
  destruct j as [|j]; cbn [nth].
  - symmetry. apply not_true_is_false. intros E. apply fn_app in E as (k & Hk & _ & E).
    cbn in Hk. assert (k = 0) by lia. subst. cbn in E. discriminate.
  - assert (Hjn : j < n) by lia. rewrite shift_nth by (unfold n in *; lia). rewrite H by lia.
    apply eq_true_iff_eq. rewrite andb_true_iff, fn_app. rewrite (firstn_succ_nth s j) by exact Hjn. split.
    + intros [H1 Hf]. exists j. rewrite app_length, firstn_length. cbn [length].
      assert (Hmin : Nat.min j (length s) = j) by (unfold n in *; lia).
      repeat split; [lia| |].
      * rewrite firstn_app, firstn_firstn, firstn_length, Hmin, Nat.sub_diag. cbn [firstn].
        rewrite app_nil_r. now replace (Nat.min j j) with j by lia.
      * rewrite skipn_app, firstn_length, Hmin, Nat.sub_diag. cbn [skipn].
        rewrite skipn_all2 by (rewrite firstn_length; lia). cbn [app]. apply fn_one_single. eauto.
    + intros (k & Hk & H1 & H2). apply fn_one_single in H2 as (c & E & Hf).
      assert (Hlen : length (skipn k (firstn j s ++ [nth j s 0])) = 1) by now rewrite E.
      rewrite skipn_length, app_length, firstn_length in Hlen. cbn [length] in Hlen.
      assert (Hmin : Nat.min j (length s) = j) by (unfold n in *; lia). rewrite Hmin in Hlen.
      assert (k = j) by lia. subst k.
      rewrite skipn_app, firstn_length, Hmin, Nat.sub_diag in E. cbn [skipn] in E.
      rewrite skipn_all2 in E by (rewrite firstn_length; lia). cbn [app] in E. injection E as E. rewrite E. split; [|exact Hf].
      rewrite firstn_app, firstn_firstn, firstn_length, Hmin, Nat.sub_diag in H1. cbn [firstn] in H1.
      rewrite app_nil_r in H1. now replace (Nat.min j j) with j in H1 by lia.
Qed.

Lemma inv_fold : forall r2 r1 reach, Inv r1 reach -> Inv (r1 ++ r2) (fold_left (step_reach s) r2 reach).
Proof.
  induction r2 as [|it r2 IH]; intros r1 reach H; [now rewrite app_nil_r|].
  cbn [fold_left]. replace (r1 ++ it :: r2) with ((r1 ++ [it]) ++ r2) by now rewrite <- app_assoc.
  apply IH. destruct it as [f|]; cbn [step_reach]; [now apply inv_single|now apply inv_star].
Qed.
End S.

Theorem nfa_fnmatch r s : nfa r s = fn r s.
Proof.
  unfold nfa. destruct (inv_fold s r [] (reach0 s) (inv0 s)) as [_ H]. cbn [app] in H.
  rewrite H by lia. now rewrite firstn_all.
Qed.
