Require Import XReplace.
From Coq Require Import List Arith Bool NArith Lia.
Import ListNotations.

(* R occurs in s at offset i *)
Definition occurs_at (R s : list byte) (i : nat) : Prop := is_prefix R (skipn i s) = true.

Lemma is_prefix_app R s : is_prefix R (R ++ s) = true.
Proof. induction R as [|a R IH]; [reflexivity|]. cbn. now rewrite Nat.eqb_refl, IH. Qed.

Lemma is_prefix_split R s : is_prefix R s = true -> s = R ++ skipn (length R) s.
Proof.
  revert s. induction R as [|a R IH]; intros s H; [reflexivity|].
  destruct s as [|b s]; [discriminate|]. cbn in H. apply andb_true_iff in H as [Hab H].
  apply Nat.eqb_eq in Hab. subst b. cbn. f_equal. now apply IH.
Qed.

(* "every occurrence replaced, everything else unchanged": the declarative reading of
   leftmost, non-overlapping replacement *)
Inductive Repl (R x : list byte) : list byte -> list byte -> Prop :=
| Repl_none s : (forall i, i < length s -> ~ occurs_at R s i) -> Repl R x s s
| Repl_occ p s' t' : (forall i, i < length p -> ~ occurs_at R (p ++ R ++ s') i) ->
                     Repl R x s' t' -> Repl R x (p ++ R ++ s') (p ++ x ++ t').

Lemma Repl_cons R x a s t : is_prefix R (a :: s) = false -> Repl R x s t -> Repl R x (a :: s) (a :: t).
Proof.
  intros Hp H. inversion H as [s0 Hn|p s' t' Hn Hr]; subst.
  - apply Repl_none. intros [|i] Hi; unfold occurs_at; cbn [skipn]; [congruence|]. apply Hn. cbn in Hi. lia.
  - change (a :: p ++ R ++ s') with ((a :: p) ++ R ++ s'). change (a :: p ++ x ++ t') with ((a :: p) ++ x ++ t').
    apply Repl_occ; [|exact Hr]. intros [|i] Hi; unfold occurs_at; cbn [skipn app]; [cbn [app] in Hp; congruence|].
    apply Hn. cbn in Hi. lia.
Qed.

Theorem replace_all_spec R x : R <> [] -> forall fuel s, length s <= fuel -> Repl R x s (replace_all fuel R x s).
Proof.
  intros HR. induction fuel as [|f IH]; intros s Hl.
  - destruct s; [|cbn in Hl; lia]. cbn. apply Repl_none. intros i Hi. cbn in Hi. lia.
  - destruct s as [|a s']; [cbn; apply Repl_none; intros i Hi; cbn in Hi; lia|].
    cbn [replace_all]. destruct (is_prefix R (a :: s')) eqn:E.
    + pose proof (is_prefix_split _ _ E) as Es. rewrite Es at 1.
      apply (Repl_occ R x [] (skipn (length R) (a :: s'))).
      * intros i Hi. cbn in Hi. lia.
      * apply IH. rewrite skipn_length. destruct R; [congruence|]. cbn in *. lia.
    + apply Repl_cons; [exact E|]. apply IH. cbn in Hl. lia.
Qed.

Corollary str_replace_spec R x s : R <> [] -> Repl R x s (str_replace R x s).
Proof. intros H. apply replace_all_spec; auto. Qed.

(* arguments in which R does not occur are passed unchanged *)
Corollary str_replace_absent R x s : R <> [] -> (forall i, i < length s -> ~ occurs_at R s i) ->
  str_replace R x s = s.
Proof.
  intros HR Hn. pose proof (str_replace_spec R x s HR) as H.
  remember (str_replace R x s) as t eqn:Et. clear Et.
  inversion H as [s0 _ E1 E2|p s' t' Hp Hr E1 E2]; [congruence|].
  exfalso. apply (Hn (length p)).
  - rewrite <- E1. rewrite !app_length. destruct R; [congruence|]. cbn. lia.
  - unfold occurs_at. rewrite <- E1. rewrite skipn_app, skipn_all, Nat.sub_diag. cbn [app skipn]. apply is_prefix_app.
Qed.

(* an argument that is exactly R becomes exactly the line; R{text}R becomes line{text}line *)
Lemma str_replace_exact R x : R <> [] -> str_replace R x R = x.
Proof.
  intros HR. unfold str_replace. destruct R as [|a R]; [congruence|]. cbn [length replace_all].
  assert (Hp : is_prefix (a :: R) (a :: R) = true).
  { pose proof (is_prefix_app (a :: R) []) as H. now rewrite app_nil_r in H. }
  rewrite Hp.
  replace (skipn (S (length R)) (a :: R)) with (@nil byte) by (symmetry; apply (skipn_all (a :: R))).
  destruct (length R); cbn; now rewrite app_nil_r.
Qed.

(* nothing is appended and the program name is untouched *)
Lemma replace_argv_shape R line cmd : length (replace_argv R line cmd) = length cmd /\
  hd [] (replace_argv R line cmd) = hd [] cmd.
Proof. destruct cmd; cbn; [auto|]. now rewrite map_length. Qed.

(* the option given last determines the mode *)
Lemma normalize_last n l r i_n i_l i_r :
  (* all three given, at distinct positions *)
  n <> None -> l <> None -> r = true ->
  match i_n, i_l, i_r with
  | Some a, Some b, Some c =>
      a <> b -> a <> c -> b <> c ->
      normalize n l r i_n i_l i_r =
      if (a <? b) && (c <? b) then (None, l, false)
      else if (b <? a) && (c <? a) then (n, None, false)
      else (Some 1%N, None, true)
  | _, _, _ => True end.
Proof.
  intros Hn Hl ->. destruct i_n as [a|], i_l as [b|], i_r as [c|]; auto. intros _ _ _.
  destruct n as [n|]; [|congruence]. destruct l as [l|]; [|congruence].
  unfold normalize, olt. destruct n as [|[p|p|]]; reflexivity.
Qed.

(* -I with -n 1 is not a conflict; -I alone forces one argument per run *)
Lemma normalize_I_alone : forall i_n i_l i_r,
  normalize None None true i_n i_l i_r = (Some 1%N, None, true) /\
  normalize (Some 1%N) None true i_n i_l i_r = (Some 1%N, None, true).
Proof. intros. split; reflexivity. Qed.
