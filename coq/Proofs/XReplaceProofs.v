Require Import XReplace.
From Coq Require Import List Arith Bool NArith Lia.
Import ListNotations.

(* R occurs in s at offset i *)
Definition occurs_at (R s : list byte) (i : nat) : Prop := is_prefix R (skipn i s) = true.

Lemma is_prefix_app R s : is_prefix R (R ++ s) = true.
Proof. induction R as [|a R IH]; [reflexivity|]. cbn. now rewrite Nat.eqb_refl, IH. Qed.

Lemma is_prefix_split R s : is_prefix R s = true -> s = R ++ skipn (length R) s.
Proof.
  revert s. induction R as [|a R IH]; intros s H; [reflexivity|].
  destruct s as [|b s]; [discriminate|]. cbn in H. apply andb_true_iff in H as [Hab H].
  apply Nat.eqb_eq in Hab. subst b. cbn. f_equal. now apply IH.
Qed.

(* "every occurrence replaced, everything else unchanged": the declarative reading of
   leftmost, non-overlapping replacement *)
Inductive Repl (R x : list byte) : list byte -> list byte -> Prop :=
| Repl_none s : (forall i, i < length s -> ~ occurs_at R s i) -> Repl R x s s
| Repl_occ p s' t' : (forall i, i < length p -> ~ occurs_at R (p ++ R ++ s') i) ->
                     Repl R x s' t' -> Repl R x (p ++ R ++ s') (p ++ x ++ t').

Lemma Repl_cons R x a s t : is_prefix R (a :: s) = false -> Repl R x s t -> Repl R x (a :: s) (a :: t).
Proof.
  intros Hp H. inversion H as [s0 Hn|p s' t' Hn Hr]; subst.
  - apply Repl_none. intros [|i] Hi; unfold occurs_at; cbn [skipn]; [congruence|]. apply Hn. cbn in Hi. lia.
  - change (a :: p ++ R ++ s') with ((a :: p) ++ R ++ s'). change (a :: p ++ x ++ t') with ((a :: p) ++ x ++ t').
    apply Repl_occ; [|exact Hr]. intros [|i] Hi; unfold occurs_at; cbn [skipn app]; [cbn [app] in Hp; congruence|].
    apply Hn. cbn in Hi. lia.
Qed.

Theorem replace_all_spec R x : R <> [] -> forall fuel s, length s <= fuel -> Repl R x s (replace_all fuel R x s).
Proof.
  intros HR. induction fuel as [|f IH]; intros s Hl.
  - destruct s; [|cbn in Hl; lia]. cbn. apply Repl_none. intros i Hi. cbn in Hi. lia.
  - destruct s as [|a s']; [cbn; apply Repl_none; intros i Hi; cbn in Hi; lia|].
    cbn [replace_all]. destruct (is_prefix R (a :: s')) eqn:E.
    + pose proof (is_prefix_split _ _ E) as Es. rewrite Es at 1.
      apply (Repl_occ R x [] (skipn (length R) (a :: s'))).
      * intros i Hi. cbn in Hi. lia.
      * apply IH. rewrite skipn_length. destruct R; [congruence|]. cbn in *. lia.
    + apply Repl_cons; [exact E|]. apply IH. cbn in Hl. lia.
Qed.

Corollary str_replace_spec R x s : R <> [] -> Repl R x s (str_replace R x s).
Proof. intros H. apply replace_all_spec; auto. Qed.

(* arguments in which R does not occur are passed unchanged *)
Corollary str_replace_absent R x s : R <> [] -> (forall i, i < length s -> ~ occurs_at R s i) ->
  str_replace R x s = s.
Proof.
  intros HR Hn. pose proof (str_replace_spec R x s HR) as H.
  remember (str_replace R x s) as t eqn:Et. clear Et.
  inversion H as [s0 _ E1 E2|p s' t' Hp Hr E1 E2]; [congruence|].
  exfalso. apply (Hn (length p)).
  - rewrite <- E1. rewrite !app_length. destruct R; [congruence|]. cbn. lia.
  - unfold occurs_at. rewrite <- E1. rewrite skipn_app, skipn_all, Nat.sub_diag. cbn [app skipn]. apply is_prefix_app.
Qed.

(* an argument that is exactly R becomes exactly the line; R{text}R becomes line{text}line *)
Lemma str_replace_exact R x : R <> [] -> str_replace R x R = x.
Proof.
  intros HR. unfold str_replace. destruct R as [|a R]; [congruence|]. cbn [length replace_all].
  assert (Hp : is_prefix (a :: R) (a :: R) = true).
  { pose proof (is_prefix_app (a :: R) []) as H. now rewrite app_nil_r in H. }
  rewrite Hp.
  replace (skipn (S (length R)) (a :: R)) with (@nil byte) by (symmetry; apply (skipn_all (a :: R))).
  destruct (length R); cbn; now rewrite app_nil_r.
Qed.

(* nothing is appended and the program name is untouched *)
Lemma replace_argv_shape R line cmd : length (replace_argv R line cmd) = length cmd /\
  hd [] (replace_argv R line cmd) = hd [] cmd.
Proof. destruct cmd; cbn; [auto|]. now rewrite map_length. Qed.

(* the option given last determines the mode *)
Lemma batch_mode_snoc os o : batch_mode (os ++ [o]) = bstep (batch_mode os) o.
Proof. unfold batch_mode. now rewrite fold_left_app. Qed.

(* at most one of the three is in force *)
Definition one_mode (st : bstate) : Prop :=
  match st with
  | (None, None, _) | (Some _, None, false) | (None, Some _, false) => True
  | _ => False
  end.
Lemma bstep_one_mode st o : one_mode st -> one_mode (bstep st o).
Proof.
  destruct st as [[n l] r]. destruct o as [k|k|]; cbn [bstep]; try exact (fun _ => I).
  destruct (N.eqb k 1 && r); [exact (fun H => H)|exact (fun _ => I)].
Qed.
Lemma batch_mode_one_mode os : one_mode (batch_mode os).
Proof.
  induction os as [|o os IH] using rev_ind; [exact I|]. rewrite batch_mode_snoc. now apply bstep_one_mode.
Qed.

Lemma normalize_last os :
  (forall k, normalize (os ++ [OL k]) = (None, Some k, false)) /\
  normalize (os ++ [OI]) = (Some 1%N, None, true) /\
  (forall k, k <> 1%N -> normalize (os ++ [ON k]) = (Some k, None, false)) /\
  (exists r, normalize (os ++ [ON 1%N]) = (Some 1%N, None, r)).
Proof.
  unfold normalize. repeat split; intros; rewrite batch_mode_snoc; destruct (batch_mode os) as [[n l] r] eqn:E; cbn [bstep].
  - reflexivity.
  - reflexivity.
  - apply N.eqb_neq in H. now rewrite H.
  - cbn [N.eqb Pos.eqb andb]. destruct r; [exists true; reflexivity|exists false; reflexivity].
Qed.

(* -I with -n 1 is not a conflict, in either order; -I alone forces one argument per run *)
Lemma normalize_I_n1 os :
  normalize (os ++ [OI; ON 1%N]) = (Some 1%N, None, true) /\ normalize (os ++ [ON 1%N; OI]) = (Some 1%N, None, true) /\
  normalize (os ++ [OI]) = (Some 1%N, None, true).
Proof.
  unfold normalize, batch_mode. rewrite !fold_left_app. cbn [fold_left].
  destruct (fold_left bstep os (None, None, false)) as [[n l] r]. cbn [bstep].
  repeat split. destruct (N.eqb 1 1 && r); reflexivity.
Qed.
