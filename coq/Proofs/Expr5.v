Require Import Expr Expr3 Expr4.
From Coq Require Import List Arith Bool Lia.
Import ListNotations.

(* ---------- derivability and how derivations extend to the right ---------- *)
Definition XU ts := exists e, DUnit ts e.
Definition XA ts := exists e, DAnd ts e.
Definition XO ts := exists e, DOr ts e.
Definition XS ts := exists e, DSeq ts e.

Lemma XA_app_juxt a u : XA a -> XU u -> XA (a ++ u).
Proof.
  intros [e d] [eu du]. revert u eu du. induction d as [ts e d|ts1 e1 ts2 e2 d1 d2 IH|ts1 e1 ts2 e2 d1 d2 IH]; intros u eu du.
  - eexists. eapply DA_juxt; eauto. apply DA_one; eauto.
  - destruct (IH u eu du) as [e' d']. rewrite <- app_assoc. eexists. eapply DA_juxt; eauto.
  - destruct (IH u eu du) as [e' d']. rewrite <- app_assoc. cbn [app]. eexists. eapply DA_and; eauto.
Qed.
Lemma XA_app_and a u : XA a -> XU u -> XA (a ++ TAnd :: u).
Proof.
  intros [e d] [eu du]. revert u eu du. induction d as [ts e d|ts1 e1 ts2 e2 d1 d2 IH|ts1 e1 ts2 e2 d1 d2 IH]; intros u eu du.
  - eexists. eapply DA_and; eauto. apply DA_one; eauto.
  - destruct (IH u eu du) as [e' d']. rewrite <- app_assoc. eexists. eapply DA_juxt; eauto.
  - destruct (IH u eu du) as [e' d']. rewrite <- app_assoc. cbn [app]. eexists. eapply DA_and; eauto.
Qed.
Lemma XO_app o a : XO o -> XA a -> XO (o ++ TOr :: a).
Proof.
  intros [e d] [ea da]. revert a ea da. induction d as [ts e d|ts1 e1 ts2 e2 d1 d2 IH]; intros a ea da.
  - eexists. eapply DO_or; eauto. apply DO_one; eauto.
  - destruct (IH a ea da) as [e' d']. rewrite <- app_assoc. cbn [app]. eexists. eapply DO_or; eauto.
Qed.
Lemma XS_app s o : XS s -> XO o -> XS (s ++ TComma :: o).
Proof.
  intros [e d] [eo do_]. revert o eo do_. induction d as [ts e d|ts1 e1 ts2 e2 d1 d2 IH]; intros o eo do_.
  - eexists. eapply DS_comma; eauto. apply DS_one; eauto.
  - destruct (IH o eo do_) as [e' d']. rewrite <- app_assoc. cbn [app]. eexists. eapply DS_comma; eauto.
Qed.
Lemma XU_nots k u : XU u -> XU (repeat TNot k ++ u).
Proof. intros [e d]. induction k as [|k [e' d']]; cbn; [eexists; eauto|]. eexists. eapply DU_Not; eauto. Qed.
Lemma XA_of_XU u : XU u -> XA u. Proof. intros [e d]. eexists. apply DA_one; eauto. Qed.
Lemma XO_of_XA u : XA u -> XO u. Proof. intros [e d]. eexists. apply DO_one; eauto. Qed.
Lemma XS_of_XO u : XO u -> XS u. Proof. intros [e d]. eexists. apply DS_one; eauto. Qed.
Lemma XU_par s : XS s -> XU (TL :: s ++ [TR]). Proof. intros [e d]. eexists. apply DU_Par; eauto. Qed.

(* ---------- what has been consumed in a frame ---------- *)
Record ghost := { gS : list tok; gO : list tok; gA : list tok; gP : bool; gK : nat }.
Definition g0 := {| gS := []; gO := []; gA := []; gP := false; gK := 0 |}.
Definition pend (g : ghost) := (if gP g then [TAnd] else []) ++ repeat TNot (gK g).
Definition ftoks (g : ghost) := gS g ++ gO g ++ gA g ++ pend g.
Definition isnil {A} (l : list A) := match l with [] => true | _ => false end.
Definition expecting (g : ghost) : bool :=
  gP g || negb (gK g =? 0) || (isnil (gA g) && negb (isnil (gS g ++ gO g))).

Definition gwf (g : ghost) (s : sigma) (i : bool) : Prop :=
  (gS g = [] \/ exists x, gS g = x ++ [TComma] /\ XS x) /\
  (gO g = [] \/ exists x, gO g = x ++ [TOr] /\ XO x) /\
  ((gA g = [] /\ cur s = [] /\ gP g = false) \/ (XA (gA g) /\ cur s <> [])) /\
  i = Nat.odd (gK g).

(* a complete frame derives a sequence *)
Lemma frame_complete g s i : gwf g s i -> expecting g = false -> gA g <> [] -> XS (ftoks g) /\ pend g = [].
Proof.
  intros (HS & HO & HA & Hi) He Hne. unfold expecting in He.
  apply orb_false_iff in He as [He _]. apply orb_false_iff in He as [HP HK].
  apply negb_false_iff, Nat.eqb_eq in HK.
  assert (Hp : pend g = []) by (unfold pend; now rewrite HP, HK).
  split; [|exact Hp]. unfold ftoks. rewrite Hp, app_nil_r.
  destruct HA as [(Hn & _)|(XAa & _)]; [congruence|].
  assert (XOoa : XO (gO g ++ gA g)).
  { destruct HO as [->|(x & -> & Xx)]; [now apply XO_of_XA|]. rewrite <- app_assoc. cbn [app]. now apply XO_app. }
  destruct HS as [->|(x & -> & Xx)]; [now apply XS_of_XO|]. rewrite <- app_assoc. cbn [app]. now apply XS_app.
Qed.

(* tokens consumed so far: suspended frames (outermost last in the stack), then the current frame *)
Fixpoint consumed (gs : list ghost) (g : ghost) : list tok :=
  match gs with
  | [] => ftoks g
  | g1 :: gs' => consumed gs' g1 ++ TL :: ftoks g
  end.

Fixpoint stack_ok (stk : list (sigma * bool)) (gs : list ghost) : Prop :=
  match stk, gs with
  | [], [] => True
  | (s, i) :: stk', g :: gs' => gwf g s i /\ stack_ok stk' gs'
  | _, _ => False
  end.

Definition Inv (st : state) (gs : list ghost) (g : ghost) (rest : list tok) : Prop :=
  stack_ok (stack st) gs /\ gwf g (sg st) (inv st) /\
  (expecting g = true -> starts_unit rest) /\
  (stack st <> [] -> ftoks g = [] -> prevL st = true).

Lemma more_starts rest : more rest = true -> starts_unit rest.
Proof. destruct rest as [|[] rest]; cbn; try discriminate; auto. Qed.

Lemma odd_S k : Nat.odd (S k) = negb (Nat.odd k).
Proof. rewrite Nat.odd_succ. now rewrite <- Nat.negb_odd. Qed.

(* appending a unit (with the pending -a / ! tokens in front of it) to a frame *)
Lemma add_unit g s i u m : gwf g s i -> XU u ->
  gwf {| gS := gS g; gO := gO g; gA := gA g ++ pend g ++ u; gP := false; gK := 0 |} (push m s) false.
Proof.
  intros (HS & HO & HA & Hi) Xu. repeat split; auto. right. split; [|unfold push; cbn; apply app_ne].
  cbn [gA]. unfold pend. pose proof (XU_nots (gK g) u Xu) as Xn.
  destruct HA as [(-> & _ & ->)|(Xa & _)].
  - cbn [app]. now apply XA_of_XU.
  - destruct (gP g); cbn [app]; [now apply XA_app_and|now apply XA_app_juxt].
Qed.

Lemma ftoks_add_unit g u :
  ftoks {| gS := gS g; gO := gO g; gA := gA g ++ pend g ++ u; gP := false; gK := 0 |} = ftoks g ++ u.
Proof. unfold ftoks, pend. cbn. now rewrite app_nil_r, <- !app_assoc. Qed.

Lemma consumed_app gs g g' x : ftoks g' = ftoks g ++ x -> consumed gs g' = consumed gs g ++ x.
Proof. intros H. destruct gs; cbn; rewrite H; [reflexivity|]. now rewrite <- app_assoc. Qed.


Lemma repeat_S_snoc {A} (x : A) k : repeat x (S k) = repeat x k ++ [x].
Proof. induction k as [|k IH]; [reflexivity|]. cbn [repeat app] in *. now rewrite <- IH. Qed.

Lemma XO_join g s i : gwf g s i -> XA (gA g) -> XO (gO g ++ gA g).
Proof.
  intros (_ & HO & _) Xa. destruct HO as [->|(x & -> & Xx)]; [now apply XO_of_XA|].
  rewrite <- app_assoc. cbn [app]. now apply XO_app.
Qed.
Lemma XS_join g s i : gwf g s i -> XO (gO g ++ gA g) -> XS (gS g ++ gO g ++ gA g).
Proof.
  intros (HS & _) Xo. destruct HS as [->|(x & -> & Xx)]; [now apply XS_of_XO|].
  rewrite <- app_assoc. cbn [app]. now apply XS_app.
Qed.

(* a binary operator is only consumed when no operand is pending, and then an and-group is open *)
Lemma not_expecting g s i rest : gwf g s i -> (expecting g = true -> starts_unit rest) ->
  nonempty (cur s) = true -> ~ starts_unit rest -> gP g = false /\ gK g = 0 /\ XA (gA g).
Proof.
  intros (HS & HO & HA & Hi) Hexp Hne Hns.
  destruct (expecting g) eqn:He; [exfalso; apply Hns, Hexp; reflexivity|].
  unfold expecting in He. apply orb_false_iff in He as [He _]. apply orb_false_iff in He as [HP HK].
  apply negb_false_iff, Nat.eqb_eq in HK. repeat split; auto.
  destruct HA as [(_ & Hc & _)|(Xa & _)]; [rewrite Hc in Hne; discriminate|exact Xa].
Qed.

Theorem run_sound_gen : forall rest st gs g m, Inv st gs g rest -> run st rest = Ok m ->
  consumed gs g ++ rest = [] \/ XS (consumed gs g ++ rest).
Proof.
  induction rest as [|t rest IH]; intros st gs g m (Hstk & Hg & Hexp & HpL) Hrun.
  - (* end of input *)
    cbn in Hrun. destruct (stack st) eqn:Es; [|discriminate]. destruct gs; [|cbn in Hstk; contradiction].
    rewrite app_nil_r. cbn [consumed].
    destruct (expecting g) eqn:He; [exfalso; exact (Hexp eq_refl)|].
    destruct (gA g) eqn:Ea.
    + left. unfold expecting in He. rewrite Ea in He. cbn [isnil andb] in He.
      apply orb_false_iff in He as [He Hn]. apply orb_false_iff in He as [HP HK].
      apply negb_false_iff, Nat.eqb_eq in HK. apply negb_false_iff in Hn.
      unfold ftoks, pend. rewrite Ea, HP, HK. destruct (gS g ++ gO g) eqn:E; [|discriminate].
      apply app_eq_nil in E as [-> ->]. reflexivity.
    + right. eapply frame_complete; eauto. congruence.
  - rewrite run_cons in Hrun. destruct (step st t rest) as [st'|] eqn:Est; [|discriminate].
    destruct t; cbn [step] in Est.
    + (* primary *)
      injection Est as <-.
      set (g' := {| gS := gS g; gO := gO g; gA := gA g ++ pend g ++ [TP p]; gP := false; gK := 0 |}).
      assert (E : consumed gs g' ++ rest = consumed gs g ++ TP p :: rest).
      { rewrite (consumed_app gs g g' [TP p]) by apply ftoks_add_unit. now rewrite <- app_assoc. }
      rewrite <- E. eapply IH; [|exact Hrun].
      refine (conj _ (conj _ (conj _ _))); cbn [stack sg inv prevL].
      * exact Hstk.
      * eapply add_unit; [exact Hg|]. eexists. apply DU_P.
      * intros He. unfold expecting in He. cbn in He. destruct (gA g ++ pend g ++ [TP p]) eqn:E'; [|discriminate].
        apply app_eq_nil in E' as [_ E']. apply app_eq_nil in E' as [_ E']. discriminate.
      * intros _ Hf. exfalso. unfold g' in Hf. rewrite ftoks_add_unit in Hf. now apply app_eq_nil in Hf as [_ Hf].
    + (* ! *)
      destruct (more rest) eqn:Em; [|discriminate]. injection Est as <-.
      set (g' := {| gS := gS g; gO := gO g; gA := gA g; gP := gP g; gK := S (gK g) |}).
      assert (Ef : ftoks g' = ftoks g ++ [TNot]).
      { unfold g', ftoks, pend. cbn [gS gO gA gP gK]. rewrite repeat_S_snoc. now rewrite <- !app_assoc. }
      assert (E : consumed gs g' ++ rest = consumed gs g ++ TNot :: rest).
      { rewrite (consumed_app gs g g' [TNot]) by exact Ef. now rewrite <- app_assoc. }
      rewrite <- E. eapply IH; [|exact Hrun].
      refine (conj _ (conj _ (conj _ _))); cbn [stack sg inv prevL].
      * exact Hstk.
      * destruct Hg as (HS & HO & HA & Hi). refine (conj HS (conj HO (conj HA _))). unfold g'. cbn [gK]. now rewrite odd_S, Hi.
      * intros _. now apply more_starts.
      * intros _ Hf. rewrite Ef in Hf. now apply app_eq_nil in Hf as [_ Hf].
    + (* -a *)
      destruct (more rest) eqn:Em; [|discriminate]. destruct (nonempty (cur (sg st))) eqn:En; [|discriminate].
      injection Est as <-.
      destruct (not_expecting _ _ _ _ Hg Hexp En ltac:(cbn; tauto)) as (HP & HK & Xa).
      set (g' := {| gS := gS g; gO := gO g; gA := gA g; gP := true; gK := 0 |}).
      assert (Ef : ftoks g' = ftoks g ++ [TAnd]).
      { unfold g', ftoks, pend. cbn [gS gO gA gP gK]. rewrite HP, HK. cbn [repeat app]. now rewrite !app_nil_r, <- !app_assoc. }
      assert (E : consumed gs g' ++ rest = consumed gs g ++ TAnd :: rest).
      { rewrite (consumed_app gs g g' [TAnd]) by exact Ef. now rewrite <- app_assoc. }
      rewrite <- E. eapply IH; [|exact Hrun].
      refine (conj _ (conj _ (conj _ _))); cbn [stack sg inv prevL].
      * exact Hstk.
      * destruct Hg as (HS & HO & HA & Hi). refine (conj HS (conj HO (conj _ _))); cbn [gA gP gK].
        -- right. split; [exact Xa|]. destruct (cur (sg st)); [discriminate|discriminate].
        -- now rewrite Hi, HK.
      * intros _. now apply more_starts.
      * intros _ Hf. rewrite Ef in Hf. now apply app_eq_nil in Hf as [_ Hf].
    + (* -o *)
      destruct (more rest) eqn:Em; [|discriminate]. destruct (nonempty (cur (sg st))) eqn:En; [|discriminate].
      injection Est as <-.
      destruct (not_expecting _ _ _ _ Hg Hexp En ltac:(cbn; tauto)) as (HP & HK & Xa).
      set (g' := {| gS := gS g; gO := (gO g ++ gA g) ++ [TOr]; gA := []; gP := false; gK := 0 |}).
      assert (Ef : ftoks g' = ftoks g ++ [TOr]).
      { unfold g', ftoks, pend. cbn [gS gO gA gP gK]. rewrite HP, HK. cbn [repeat app]. now rewrite !app_nil_r, <- !app_assoc. }
      assert (E : consumed gs g' ++ rest = consumed gs g ++ TOr :: rest).
      { rewrite (consumed_app gs g g' [TOr]) by exact Ef. now rewrite <- app_assoc. }
      rewrite <- E. eapply IH; [|exact Hrun].
      refine (conj _ (conj _ (conj _ _))); cbn [stack sg inv prevL].
      * exact Hstk.
      * pose proof (XO_join _ _ _ Hg Xa) as Xo.
        destruct Hg as (HS & HO & HA & Hi). refine (conj HS (conj _ (conj _ _))); cbn [gO gA gP gK].
        -- right. exists (gO g ++ gA g). split; [reflexivity|exact Xo].
        -- left. repeat split. 
        -- now rewrite Hi, HK.
      * intros _. now apply more_starts.
      * intros _ Hf. rewrite Ef in Hf. now apply app_eq_nil in Hf as [_ Hf].
    + (* , *)
      destruct (more rest) eqn:Em; [|discriminate]. destruct (nonempty (cur (sg st))) eqn:En; [|discriminate].
      injection Est as <-.
      destruct (not_expecting _ _ _ _ Hg Hexp En ltac:(cbn; tauto)) as (HP & HK & Xa).
      set (g' := {| gS := (gS g ++ gO g ++ gA g) ++ [TComma]; gO := []; gA := []; gP := false; gK := 0 |}).
      assert (Ef : ftoks g' = ftoks g ++ [TComma]).
      { unfold g', ftoks, pend. cbn [gS gO gA gP gK]. rewrite HP, HK. cbn [repeat app]. now rewrite !app_nil_r, <- !app_assoc. }
      assert (E : consumed gs g' ++ rest = consumed gs g ++ TComma :: rest).
      { rewrite (consumed_app gs g g' [TComma]) by exact Ef. now rewrite <- app_assoc. }
      rewrite <- E. eapply IH; [|exact Hrun].
      refine (conj _ (conj _ (conj _ _))); cbn [stack sg inv prevL].
      * exact Hstk.
      * pose proof (XS_join _ _ _ Hg (XO_join _ _ _ Hg Xa)) as Xs.
        destruct Hg as (HS & HO & HA & Hi). refine (conj _ (conj _ (conj _ _))); cbn [gS gO gA gP gK].
        -- right. exists (gS g ++ gO g ++ gA g). split; [reflexivity|exact Xs].
        -- now left.
        -- left. repeat split.
        -- now rewrite Hi, HK.
      * intros _. now apply more_starts.
      * intros _ Hf. rewrite Ef in Hf. now apply app_eq_nil in Hf as [_ Hf].
    + (* ( *)
      injection Est as <-.
      assert (E : consumed (g :: gs) g0 ++ rest = consumed gs g ++ TL :: rest).
      { cbn [consumed]. change (ftoks g0) with (@nil tok). now rewrite <- app_assoc. }
      rewrite <- E. eapply IH; [|exact Hrun].
      refine (conj _ (conj _ (conj _ _))); cbn [stack sg inv prevL].
      * cbn [stack_ok]. split; assumption.
      * repeat split; cbn; auto.
      * discriminate.
      * reflexivity.
    + (* ) *)
      destruct (stack st) as [|[s0 i0] stk] eqn:Es; [discriminate|].
      destruct (prevL st) eqn:EpL; [discriminate|]. injection Est as <-.
      destruct gs as [|g1 gs']; [cbn in Hstk; contradiction|]. destruct Hstk as [Hg1 Hstk].
      assert (Hne : ftoks g <> []).
      { intros Hf. specialize (HpL ltac:(discriminate) Hf). discriminate. }
      destruct (expecting g) eqn:He; [exfalso; exact (Hexp eq_refl)|].
      assert (HA : gA g <> []).
      { intros Ea. apply Hne. unfold expecting in He. rewrite Ea in He. cbn [isnil andb] in He.
        apply orb_false_iff in He as [He Hn]. apply orb_false_iff in He as [HP HK].
        apply negb_false_iff, Nat.eqb_eq in HK. apply negb_false_iff in Hn.
        unfold ftoks, pend. rewrite Ea, HP, HK. destruct (gS g ++ gO g) eqn:E'; [|discriminate].
        apply app_eq_nil in E' as [-> ->]. reflexivity. }
      destruct (frame_complete _ _ _ Hg He HA) as [Xs _].
      set (u := TL :: ftoks g ++ [TR]).
      set (g' := {| gS := gS g1; gO := gO g1; gA := gA g1 ++ pend g1 ++ u; gP := false; gK := 0 |}).
      assert (E : consumed gs' g' ++ rest = consumed (g1 :: gs') g ++ TR :: rest).
      { rewrite (consumed_app gs' g1 g' u) by apply ftoks_add_unit. cbn [consumed]. unfold u.
        rewrite <- !app_assoc. cbn [app]. now rewrite <- app_assoc. }
      rewrite <- E. eapply IH; [|exact Hrun].
      refine (conj _ (conj _ (conj _ _))); cbn [stack sg inv prevL].
      * exact Hstk.
      * eapply add_unit; [exact Hg1|]. now apply XU_par.
      * intros He'. unfold expecting in He'. cbn in He'. destruct (gA g1 ++ pend g1 ++ u) eqn:E'; [|discriminate].
        apply app_eq_nil in E' as [_ E']. apply app_eq_nil in E' as [_ E']. discriminate.
      * intros _ Hf. exfalso. unfold g' in Hf. rewrite ftoks_add_unit in Hf. now apply app_eq_nil in Hf as [_ Hf].
Qed.

(* whatever the builder accepts is a sentence of the grammar (or the empty expression) *)
Theorem build_sound ts m : run st0 ts = Ok m -> ts = [] \/ XS ts.
Proof.
  intros H. apply (run_sound_gen ts st0 [] g0 m); [|exact H].
  refine (conj _ (conj _ (conj _ _))); cbn; auto; try discriminate; try congruence.
  repeat split; auto.
Qed.
Check build_sound.
Print Assumptions build_sound.
