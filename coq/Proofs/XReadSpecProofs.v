Require Import XRead XReadSpec XReadProofs.
From Coq Require Import List Arith Bool Lia.
Import ListNotations.

(* the default mode *)
Local Notation scan := (XRead.scan false).
Local Notation flat_next := (XRead.flat_next false).
Local Notation flat_all := (XRead.flat_all false).
Local Notation ws_read := (XRead.ws_read false).

Lemma ws_plain c : is_ws c = true -> is_quote c = false /\ (c =? 92) = false.
Proof.
  unfold is_ws, is_quote. intros H.
  repeat (apply orb_true_iff in H; destruct H as [H|H]);
    apply Nat.eqb_eq in H; subst; split; reflexivity.
Qed.

Lemma scan_skip_ws s rest : all_ws s = true ->
  scan ENone [] false false (s ++ rest) = scan ENone [] false false rest.
Proof.
  induction s as [|c s IH]; intros H; [reflexivity|].
  cbn [all_ws forallb] in H. apply andb_true_iff in H as [Hc Hs].
  cbn [app scan]. destruct (ws_plain c Hc) as [-> ->]. rewrite Hc. now apply IH.
Qed.

Lemma scan_quoted q s acc eb rest : existsb (Nat.eqb q) s = false -> existsb (Nat.eqb 10) s = false ->
  scan (EQuote q) acc true eb (s ++ q :: rest) = scan ENone (acc ++ s) true false rest.
Proof.
  revert acc eb. induction s as [|c s IH]; intros acc eb H Hn.
  - cbn [app scan]. rewrite Nat.eqb_refl, app_nil_r. reflexivity.
  - cbn [existsb] in H, Hn. apply orb_false_iff in H as [Hc Hs]. apply orb_false_iff in Hn as [Hc2 Hs2].
    cbn [app scan]. rewrite Nat.eqb_sym, Hc. rewrite Nat.eqb_sym, Hc2. rewrite IH by assumption.
    now rewrite <- app_assoc.
Qed.

Lemma scan_piece p acc ia eb rest : piece_ok p = true ->
  scan ENone acc ia eb (render_piece p ++ rest) = scan ENone (acc ++ value_piece p) true (eb_piece p) rest.
Proof.
  destruct p as [c|q s|c]; cbn [piece_ok render_piece value_piece]; intros H.
  - apply andb_true_iff in H as [H H3]. apply andb_true_iff in H as [H1 H2].
    apply negb_true_iff in H1, H2, H3. cbn [app scan]. now rewrite H2, H3, H1.
  - apply andb_true_iff in H as [H H3]. apply andb_true_iff in H as [H1 H2]. apply negb_true_iff in H2, H3.
    cbn [app scan]. rewrite H1. rewrite <- app_assoc. cbn [app]. now apply scan_quoted.
  - cbn [app scan]. assert (Hq : is_quote 92 = false) by reflexivity. rewrite Hq.
    rewrite Nat.eqb_refl. reflexivity.
Qed.

Lemma scan_word w : forall acc ia eb rest, forallb piece_ok w = true ->
  scan ENone acc ia eb (render_word w ++ rest) =
  scan ENone (acc ++ value_word w) (ia || nonempty w) (eb_word eb w) rest.
Proof.
  induction w as [|p w IH]; intros acc ia eb rest H.
  - cbn. now rewrite app_nil_r, orb_false_r.
  - cbn [forallb] in H. apply andb_true_iff in H as [Hp Hw].
    unfold render_word, value_word. cbn [map concat]. rewrite <- app_assoc.
    rewrite scan_piece by assumption. fold (render_word w). rewrite IH by assumption.
    fold (value_word w). rewrite app_assoc. cbn [nonempty]. now rewrite orb_true_r.
Qed.

Lemma nonempty_app_l {A} (a b : list A) : nonempty a = true -> nonempty (a ++ b) = true.
Proof. destruct a; [discriminate|reflexivity]. Qed.

(* one word followed by a non-empty separator run *)
Lemma flat_next_word w s rest : good_word w = true -> all_ws s = true -> nonempty s = true ->
  flat_next (render_word w ++ s ++ rest) = Ok (Some (value_word w, hard_item (w, s), tl s ++ rest)).
Proof.
  intros Hw Hs Hne. apply andb_true_iff in Hw as [Hp Hv].
  unfold flat_next. rewrite scan_word by assumption. cbn [app].
  destruct s as [|c s]; [discriminate|]. cbn [all_ws forallb] in Hs. apply andb_true_iff in Hs as [Hc _].
  cbn [app scan]. destruct (ws_plain c Hc) as [-> ->]. rewrite Hc, Hv. reflexivity.
Qed.

(* the last word, at end of input *)
Lemma flat_next_last w : good_word w = true ->
  flat_next (render_word w) = Ok (Some (value_word w, false, [])).
Proof.
  intros Hw. apply andb_true_iff in Hw as [Hp Hv].
  unfold flat_next. rewrite <- (app_nil_r (render_word w)). rewrite scan_word by assumption.
  cbn [app scan]. destruct w; [discriminate|]. cbn [nonempty]. now rewrite orb_true_r.
Qed.

Lemma flat_next_only_ws s : all_ws s = true -> flat_next s = Ok None.
Proof.
  intros H. unfold flat_next. rewrite <- (app_nil_r s). now rewrite scan_skip_ws.
Qed.

Lemma flat_next_lead s rest : all_ws s = true -> flat_next (s ++ rest) = flat_next rest.
Proof. intros H. unfold flat_next. now rewrite scan_skip_ws. Qed.

Lemma flat_all_lead fuel s rest : all_ws s = true -> flat_all fuel (s ++ rest) = flat_all fuel rest.
Proof. intros H. destruct fuel; [reflexivity|]. cbn [flat_all]. now rewrite flat_next_lead. Qed.

Lemma all_ws_tl s : all_ws s = true -> all_ws (tl s) = true.
Proof. destruct s; [reflexivity|]. cbn. intros H. now apply andb_true_iff in H as [_ H]. Qed.

(* the reader returns exactly the words of the input, unquoted, with their line-end flags *)
Theorem flat_all_items : forall l fuel, items_ok l = true -> length l < fuel ->
  flat_all fuel (render_items l) = Ok (expected l).
Proof.
  induction l as [|[w s] l IH]; intros fuel Hok Hf.
  - destruct fuel; [lia|]. reflexivity.
  - destruct fuel as [|f]; [cbn in Hf; lia|].
    destruct l as [|it l'].
    + cbn [items_ok] in Hok. apply andb_true_iff in Hok as [Hw Hs].
      unfold render_items, expected. cbn [map concat fst snd]. rewrite app_nil_r.
      destruct s as [|c s].
      * rewrite app_nil_r. cbn [flat_all]. rewrite flat_next_last by assumption.
        destruct f; [cbn in Hf; lia|]. reflexivity.
      * cbn [flat_all]. rewrite <- (app_nil_r (c :: s)) at 1.
        rewrite flat_next_word by (assumption || reflexivity).
        rewrite app_nil_r. cbn [tl].
        destruct f; [cbn in Hf; lia|]. cbn [flat_all].
        cbn [all_ws forallb] in Hs. apply andb_true_iff in Hs as [_ Hs].
        rewrite (flat_next_only_ws s) by assumption. reflexivity.
    + change (items_ok ((w, s) :: it :: l')) with
        (good_word w && all_ws s && nonempty s && items_ok (it :: l')) in Hok.
      apply andb_true_iff in Hok as [Hok Hl]. apply andb_true_iff in Hok as [Hok Hne].
      apply andb_true_iff in Hok as [Hw Hs].
      unfold render_items, expected. cbn [map concat fst snd]. rewrite <- app_assoc.
      cbn [flat_all]. rewrite flat_next_word by assumption.
      fold (render_items (it :: l')). rewrite flat_all_lead by (now apply all_ws_tl).
      rewrite IH; [reflexivity|assumption|cbn in Hf |- *; lia].
Qed.

(* leading separators yield nothing *)
Corollary flat_all_input lead l fuel : all_ws lead = true -> items_ok l = true -> length l < fuel ->
  flat_all fuel (lead ++ render_items l) = Ok (expected l).
Proof. intros Hl Hok Hf. rewrite flat_all_lead by assumption. now apply flat_all_items. Qed.

(* an unterminated quote is an error, wherever it starts *)
Lemma scan_open_quote q s acc : existsb (Nat.eqb q) s = false ->
  forall eb, scan (EQuote q) acc true eb s = Fail \/ exists acc' eb', scan (EQuote q) acc true eb s = NeedMore (EQuote q) acc' true eb'.
Proof.
  revert acc. induction s as [|c s IH]; intros acc H eb; [right; eexists _, _; reflexivity|].
  cbn [existsb] in H. apply orb_false_iff in H as [Hc Hs]. cbn [scan].
  rewrite Nat.eqb_sym, Hc. destruct (c =? 10); [left; reflexivity|]. now apply IH.
Qed.

(* a quoted string does not run over the end of its line: the newline is where the error is, whatever follows *)
Lemma scan_quote_newline q s acc rest : is_quote q = true -> existsb (Nat.eqb q) s = false ->
  forall eb, scan (EQuote q) acc true eb (s ++ 10 :: rest) = Fail.
Proof.
  intros Hq. revert acc. induction s as [|c s IH]; intros acc H eb.
  - cbn [app scan]. assert (Hne : (10 =? q) = false).
    { unfold is_quote in Hq. apply orb_true_iff in Hq as [Hq|Hq]; apply Nat.eqb_eq in Hq; subst; reflexivity. }
    rewrite Hne. reflexivity.
  - cbn [existsb] in H. apply orb_false_iff in H as [Hc Hs]. cbn [app scan].
    rewrite Nat.eqb_sym, Hc. destruct (c =? 10); [reflexivity|]. now apply IH.
Qed.

Lemma flat_next_open_quote w q s : forallb piece_ok w = true -> is_quote q = true ->
  existsb (Nat.eqb q) s = false -> flat_next (render_word w ++ q :: s) = Err.
Proof.
  intros Hw Hq Hs. unfold flat_next. rewrite scan_word by assumption.
  cbn [scan]. rewrite Hq. destruct (scan_open_quote q s (([] ++ value_word w)) Hs false) as [->|(acc' & eb' & ->)]; reflexivity.
Qed.

Lemma flat_next_quote_newline w q s rest : forallb piece_ok w = true -> is_quote q = true ->
  existsb (Nat.eqb q) s = false -> flat_next (render_word w ++ q :: s ++ 10 :: rest) = Err.
Proof.
  intros Hw Hq Hs. unfold flat_next. rewrite scan_word by assumption.
  cbn [scan]. rewrite Hq. rewrite scan_quote_newline by assumption. reflexivity.
Qed.

Theorem flat_all_unterminated : forall l fuel w q s, items_ok l = true ->
  Forall (fun it => nonempty (snd it) = true) l ->
  forallb piece_ok w = true -> is_quote q = true -> existsb (Nat.eqb q) s = false ->
  flat_all fuel (render_items l ++ render_word w ++ q :: s) = Err.
Proof.
  induction l as [|[w0 s0] l IH]; intros fuel w q s Hok Hne Hw Hq Hs.
  - destruct fuel; [reflexivity|]. cbn [render_items map concat app flat_all].
    now rewrite flat_next_open_quote.
  - inversion Hne as [|? ? Hs0 Hne']; subst. cbn [snd] in Hs0.
    destruct fuel as [|f]; [reflexivity|].
    assert (Hws : good_word w0 = true /\ all_ws s0 = true /\ items_ok l = true).
    { destruct l as [|it l'].
      - cbn [items_ok] in Hok. apply andb_true_iff in Hok as [? ?]. auto.
      - change (items_ok ((w0, s0) :: it :: l')) with
          (good_word w0 && all_ws s0 && nonempty s0 && items_ok (it :: l')) in Hok.
        apply andb_true_iff in Hok as [Hok Hl]. apply andb_true_iff in Hok as [Hok _].
        apply andb_true_iff in Hok as [? ?]. auto. }
    destruct Hws as (Hw0 & Hsw & Hl).
    unfold render_items. cbn [map concat fst snd]. rewrite <- !app_assoc.
    cbn [flat_all]. rewrite flat_next_word by assumption.
    fold (render_items l). rewrite flat_all_lead by (now apply all_ws_tl).
    now rewrite IH.
Qed.

Theorem flat_all_quote_over_newline : forall l fuel w q s rest, items_ok l = true ->
  Forall (fun it => nonempty (snd it) = true) l ->
  forallb piece_ok w = true -> is_quote q = true -> existsb (Nat.eqb q) s = false ->
  flat_all fuel (render_items l ++ render_word w ++ q :: s ++ 10 :: rest) = Err.
Proof.
  induction l as [|[w0 s0] l IH]; intros fuel w q s rest Hok Hne Hw Hq Hs.
  - destruct fuel; [reflexivity|]. cbn [render_items map concat app flat_all].
    now rewrite flat_next_quote_newline.
  - inversion Hne as [|? ? Hs0 Hne']; subst. cbn [snd] in Hs0.
    destruct fuel as [|f]; [reflexivity|].
    assert (Hws : good_word w0 = true /\ all_ws s0 = true /\ items_ok l = true).
    { destruct l as [|it l'].
      - cbn [items_ok] in Hok. apply andb_true_iff in Hok as [? ?]. auto.
      - change (items_ok ((w0, s0) :: it :: l')) with
          (good_word w0 && all_ws s0 && nonempty s0 && items_ok (it :: l')) in Hok.
        apply andb_true_iff in Hok as [Hok Hl]. apply andb_true_iff in Hok as [Hok _].
        apply andb_true_iff in Hok as [? ?]. auto. }
    destruct Hws as (Hw0 & Hsw & Hl).
    unfold render_items. cbn [map concat fst snd]. rewrite <- !app_assoc.
    cbn [flat_all]. rewrite flat_next_word by assumption.
    fold (render_items l). rewrite flat_all_lead by (now apply all_ws_tl).
    now rewrite IH.
Qed.

(* a lone backslash at the very end quotes nothing and yields no argument *)
Theorem flat_all_trailing_backslash : forall l fuel, items_ok l = true ->
  Forall (fun it => nonempty (snd it) = true) l -> length l < fuel ->
  flat_all fuel (render_items l ++ [92]) = Ok (expected l).
Proof.
  induction l as [|[w0 s0] l IH]; intros fuel Hok Hne Hf.
  - destruct fuel; [lia|]. reflexivity.
  - inversion Hne as [|? ? Hs0 Hne']; subst. cbn [snd] in Hs0.
    destruct fuel as [|f]; [cbn in Hf; lia|].
    assert (Hws : good_word w0 = true /\ all_ws s0 = true /\ items_ok l = true).
    { destruct l as [|it l'].
      - cbn [items_ok] in Hok. apply andb_true_iff in Hok as [? ?]. auto.
      - change (items_ok ((w0, s0) :: it :: l')) with
          (good_word w0 && all_ws s0 && nonempty s0 && items_ok (it :: l')) in Hok.
        apply andb_true_iff in Hok as [Hok Hl]. apply andb_true_iff in Hok as [Hok _].
        apply andb_true_iff in Hok as [? ?]. auto. }
    destruct Hws as (Hw0 & Hsw & Hl).
    unfold render_items, expected. cbn [map concat fst snd]. rewrite <- !app_assoc.
    cbn [flat_all]. rewrite flat_next_word by assumption.
    fold (render_items l). rewrite flat_all_lead by (now apply all_ws_tl).
    fold (expected l). rewrite IH; [reflexivity|assumption|assumption|cbn in Hf; lia].
Qed.

(* ---- -0 / -d: split at the delimiter only, bytes verbatim ---- *)
Lemma read_until_item d p rest : ~ In d p ->
  read_until d (p ++ d :: rest) = (p ++ [d], rest).
Proof.
  induction p as [|c p IH]; intros Hn; cbn.
  - now rewrite Nat.eqb_refl.
  - destruct (Nat.eqb_spec c d) as [->|_]; [exfalso; apply Hn; now left|].
    rewrite IH; [reflexivity|]. intros H; apply Hn; now right.
Qed.

Lemma read_until_last d p : ~ In d p -> read_until d p = (p, []).
Proof.
  induction p as [|c p IH]; intros Hn; cbn; [reflexivity|].
  destruct (Nat.eqb_spec c d) as [->|_]; [exfalso; apply Hn; now left|].
  rewrite IH; [reflexivity|]. intros H; apply Hn; now right.
Qed.

Lemma last_snoc {A} (l : list A) x y : last (l ++ [x]) y = x.
Proof. induction l as [|a l IH]; [reflexivity|]. cbn. destruct (l ++ [x]) eqn:E; [destruct l; discriminate|exact IH]. Qed.
Lemma removelast_snoc {A} (l : list A) x : removelast (l ++ [x]) = l.
Proof. induction l as [|a l IH]; [reflexivity|]. cbn. destruct (l ++ [x]) eqn:E; [destruct l; discriminate|now rewrite IH]. Qed.

Lemma split_on_acc d cur p rest : ~ In d p ->
  split_on d cur (p ++ rest) = split_on d (cur ++ p) rest.
Proof.
  revert cur. induction p as [|c p IH]; intros cur Hn; [now rewrite app_nil_r|].
  cbn [app split_on]. destruct (Nat.eqb_spec c d) as [->|_]; [exfalso; apply Hn; now left|].
  rewrite IH by (intros H; apply Hn; now right). now rewrite <- app_assoc.
Qed.

Lemma split_prefix (d : byte) (data : list byte) : exists (p : list byte) (rest : option (list byte)), ~ In d p /\
  (data = p /\ rest = None \/ exists r, data = p ++ d :: r /\ rest = Some r).
Proof.
  induction data as [|c data (p & rest & Hp & H)].
  - exists [], None. split; [intros []|now left].
  - destruct (Nat.eqb_spec c d) as [->|Hc].
    + exists [], (Some data). split; [intros []|right; eexists; split; reflexivity].
    + exists (c :: p). destruct H as [[-> ->]|(r & -> & ->)].
      * exists None. split; [intros [?|?]; [congruence|auto]|now left].
      * exists (Some r). split; [intros [?|?]; [congruence|auto]|right; eexists; split; reflexivity].
Qed.

(* the byte-delimited reader = the non-empty fields of the reference splitter: it splits at
   the delimiter only, drops empty fields, and copies every other byte unchanged *)
Theorem bd_all_fields d : forall fuel data, length data < fuel -> bd_all fuel d data = fields d data.
Proof.
  induction fuel as [|f IH]; intros data Hf; [lia|].
  destruct data as [|c0 data0]; [reflexivity|].
  destruct (split_prefix d (c0 :: data0)) as (p & rest & Hp & H).
  cbn [bd_all]. destruct H as [[E ->]|(r & E & ->)]; rewrite E.
  - rewrite read_until_last by assumption.
    assert (Hp' : p <> []) by (rewrite <- E; discriminate).
    assert (Hl : (last p (S d) =? d) = false).
    { apply Nat.eqb_neq. intros Hl. apply Hp. rewrite <- Hl.
      destruct (exists_last Hp') as (q & x & ->). rewrite last_snoc. apply in_or_app. right. now left. }
    rewrite Hl. unfold fields.
    assert (Hsp : split_on d [] p = [p]).
    { rewrite <- (app_nil_r p) at 1. rewrite split_on_acc by assumption. reflexivity. }
    rewrite Hsp. cbn [filter]. destruct p; [congruence|]. cbn [nonempty].
    destruct f; reflexivity.
  - rewrite read_until_item by assumption. rewrite last_snoc, Nat.eqb_refl, removelast_snoc.
    assert (Hr : length r < f).
    { rewrite E in Hf. rewrite app_length in Hf. cbn in Hf. lia. }
    unfold fields. rewrite split_on_acc by assumption. cbn [app split_on]. rewrite Nat.eqb_refl.
    cbn [filter]. fold (fields d r). rewrite IH by assumption.
    destruct p; reflexivity.
Qed.

Lemma render_word_len w : good_word w = true -> 1 <= length (render_word w).
Proof.
  intros H. apply andb_true_iff in H as [_ H]. destruct w as [|p w]; [discriminate|].
  unfold render_word. cbn [map concat]. rewrite app_length.
  destruct p; cbn; lia.
Qed.

Lemma items_len : forall l, items_ok l = true -> length l <= length (render_items l).
Proof.
  induction l as [|[w s] l IH]; intros H; [cbn; lia|].
  assert (Hw : good_word w = true /\ items_ok l = true).
  { destruct l as [|it l'].
    - cbn [items_ok] in H. apply andb_true_iff in H as [? ?]. auto.
    - change (items_ok ((w, s) :: it :: l')) with
        (good_word w && all_ws s && nonempty s && items_ok (it :: l')) in H.
      apply andb_true_iff in H as [H Hl]. apply andb_true_iff in H as [H _].
      apply andb_true_iff in H as [? ?]. auto. }
  destruct Hw as [Hw Hl]. unfold render_items. cbn [map concat fst snd length].
  rewrite !app_length. fold (render_items l). specialize (IH Hl).
  pose proof (render_word_len w Hw). lia.
Qed.

(* whole-stream statements, for every chunking *)
Theorem ws_read_words chunks lead l :
  all_ws lead = true -> items_ok l = true -> concat chunks = lead ++ render_items l ->
  ws_read chunks = Ok (expected l).
Proof.
  intros Hlead Hok E. unfold ws_read. rewrite chunk_independent. cbn [app]. rewrite E.
  apply flat_all_input; try assumption.
  rewrite app_length. pose proof (items_len l Hok). lia.
Qed.

Theorem ws_read_unterminated chunks l w q s :
  items_ok l = true -> Forall (fun it => nonempty (snd it) = true) l ->
  forallb piece_ok w = true -> is_quote q = true -> existsb (Nat.eqb q) s = false ->
  concat chunks = render_items l ++ render_word w ++ q :: s ->
  ws_read chunks = Err.
Proof.
  intros. unfold ws_read. rewrite chunk_independent. cbn [app].
  match goal with E : concat chunks = _ |- _ => rewrite E end.
  now apply flat_all_unterminated.
Qed.

Theorem ws_read_quote_over_newline chunks l w q s rest :
  items_ok l = true -> Forall (fun it => nonempty (snd it) = true) l ->
  forallb piece_ok w = true -> is_quote q = true -> existsb (Nat.eqb q) s = false ->
  concat chunks = render_items l ++ render_word w ++ q :: s ++ 10 :: rest ->
  ws_read chunks = Err.
Proof.
  intros. unfold ws_read. rewrite chunk_independent. cbn [app].
  match goal with E : concat chunks = _ |- _ => rewrite E end.
  now apply flat_all_quote_over_newline.
Qed.

Theorem ws_read_trailing_backslash chunks l :
  items_ok l = true -> Forall (fun it => nonempty (snd it) = true) l ->
  concat chunks = render_items l ++ [92] -> ws_read chunks = Ok (expected l).
Proof.
  intros Hok Hne E. unfold ws_read. rewrite chunk_independent. cbn [app]. rewrite E.
  apply flat_all_trailing_backslash; try assumption.
  rewrite app_length. pose proof (items_len l Hok). cbn [length]. lia.
Qed.

Theorem bd_read_fields d chunks : bd_read d chunks = fields d (concat chunks).
Proof. unfold bd_read. apply bd_all_fields. lia. Qed.

(* ---- the whole-line reader of -I, on the lines C20 speaks about: free of quotes, backslashes and leading blanks ---- *)
Definition line_char (c : byte) : bool := negb (is_quote c) && negb (c =? 92) && negb (c =? 10).
Lemma scan_line_body : forall line acc rest, forallb line_char line = true ->
  XRead.scan true ENone acc true false (line ++ 10 :: rest) = Done (acc ++ line) true rest.
Proof.
  induction line as [|c line IH]; intros acc rest H.
  - cbn [app XRead.scan]. change (is_quote 10) with false. change (10 =? 92) with false. change (is_ws 10) with true.
    cbn. now rewrite app_nil_r.
  - cbn [forallb] in H. apply andb_true_iff in H as [Hc H]. unfold line_char in Hc.
    apply andb_true_iff in Hc as [Hc H3]. apply andb_true_iff in Hc as [H1 H2]. apply negb_true_iff in H1, H2, H3.
    cbn [app XRead.scan]. rewrite H1, H2, H3. cbn [negb andb]. rewrite andb_false_r.
    rewrite IH by exact H. now rewrite <- app_assoc.
Qed.
(* a non-empty line that does not begin with a blank is one argument, the entire line: blanks inside it do not split it *)
Theorem whole_line_one_argument c line rest : is_ws c = false -> forallb line_char (c :: line) = true ->
  XRead.flat_next true (c :: line ++ 10 :: rest) = Ok (Some (c :: line, true, rest)).
Proof.
  intros Hc H. unfold XRead.flat_next. cbn [forallb] in H. apply andb_true_iff in H as [H0 H]. unfold line_char in H0.
  apply andb_true_iff in H0 as [H0 H3]. apply andb_true_iff in H0 as [H1 H2]. apply negb_true_iff in H1, H2, H3.
  cbn [XRead.scan]. rewrite H1, H2, Hc. cbn [andb app]. rewrite (scan_line_body line [c] rest H). reflexivity.
Qed.
(* an empty line is no argument *)
Theorem whole_line_empty rest : XRead.flat_next true (10 :: rest) = XRead.flat_next true rest.
Proof. reflexivity. Qed.
