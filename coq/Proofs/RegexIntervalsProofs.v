(* What posix-basic accepts of the intervals and repetitions of a pattern, grep accepts as well: the rules of posix-basic are those
   of grep and refusals on top (an interval with nothing to repeat, an interval or "*" directly behind another repetition). *)
Require Import RegexWrap RegexIntervals.
From Coq Require Import List Arith Bool Lia.
Import ListNotations.

Lemma strict_refines_len nl : forall n s q, length s <= n -> basic_ok true nl q s = true -> basic_ok false nl q s = true.
Proof.
  induction n as [|n IH]; intros s q Hn H.
  - destruct s; [reflexivity|cbn in Hn; lia].
  - destruct s as [|c s]; [reflexivity|]. cbn [length] in Hn. assert (Hl : length s <= n) by lia.
    destruct q as [st an ar|st ar|mc mr|d prev|prev]; cbn [basic_ok andb] in *.
    + destruct (c =? c_bs); [now apply IH|]. destruct (c =? c_lb); [now apply IH|].
      destruct (nl && (c =? c_nl)); [now apply IH|]. destruct (st && negb an && (c =? c_caret)); [now apply IH|].
      destruct (c =? 42); [|now apply IH]. destruct st; [now apply IH|]. destruct ar; [discriminate|now apply IH].
    + destruct ((c =? c_lp) || (c =? c_bar)); [now apply IH|].
      destruct (c =? c_lbrace).
      { destruct st; [discriminate|]. destruct ar; [discriminate|].
        apply andb_true_iff in H as [Hb H]. rewrite Hb. now apply IH. }
      destruct ((c =? c_plus) || (c =? c_qm)); now apply IH.
    + destruct (mc && (c =? c_caret)); [now apply IH|]. destruct (mr && (c =? c_rb)); [now apply IH|].
      destruct (c =? c_rb); [now apply IH|]. destruct (c =? c_lb); [|now apply IH].
      destruct s as [|d s2]; [reflexivity|]. cbn [length] in Hl.
      destruct ((d =? c_colon) || (d =? c_dot) || (d =? c_eq)); apply IH; try assumption; cbn [length]; lia.
    + destruct (prev && (c =? c_rb)); now apply IH.
    + destruct (prev && (c =? c_rbrace)); now apply IH.
Qed.
Theorem posix_basic_refines_grep nl p :
  basic_ok true nl (IT true false false) p = true -> basic_ok false nl (IT true false false) p = true.
Proof. apply (strict_refines_len nl (length p)). apply le_n. Qed.

(* ---- the bounds, in terms of the numbers written: the capped reading decides exactly "n <= m, each at most RE_DUP_MAX" ---- *)
From Coq Require Import NArith.
Local Open Scope N_scope.
Fixpoint dexact (acc : N) (ds : list nat) : N :=
  match ds with [] => acc | d :: r => dexact (acc * 10 + N.of_nat (d - 48)) r end.
Lemma dexact_ge : forall ds acc, acc <= dexact acc ds.
Proof. induction ds as [|d r IH]; intros acc; cbn [dexact]; [lia|]. specialize (IH (acc * 10 + N.of_nat (d - 48))). lia. Qed.
Lemma dval_capped : forall ds, dval 40000 ds = 40000.
Proof.
  induction ds as [|d r IH]; [reflexivity|]. cbn [dval]. cbv zeta.
  destruct (N.ltb_spec 40000 (40000 * 10 + N.of_nat (d - 48))); [exact IH|lia].
Qed.
Lemma dval_spec : forall ds acc, acc <= 40000 -> dval acc ds = N.min 40000 (dexact acc ds).
Proof.
  induction ds as [|d r IH]; intros acc Ha; cbn [dval dexact]; [lia|]. cbv zeta.
  destruct (N.ltb_spec 40000 (acc * 10 + N.of_nat (d - 48))) as [Hgt|Hle].
  - rewrite dval_capped. pose proof (dexact_ge r (acc * 10 + N.of_nat (d - 48))). lia.
  - now apply IH.
Qed.
Definition value (ds : list nat) : N := dexact 0 ds.
(* the three refusals of bounds_ok, read off the true values *)
Theorem bounds_decided low high :
  ((dval 0 high <? dval 0 low) = true <-> (value high < value low /\ value high < 40000)) /\
  ((re_dup_max <? dval 0 low) = true <-> re_dup_max < value low).
Proof.
  unfold value, re_dup_max. rewrite !dval_spec by lia. split.
  - rewrite N.ltb_lt. split; intros H; lia.
  - rewrite N.ltb_lt. split; intros H; lia.
Qed.
(* so: a reversed interval with both bounds within RE_DUP_MAX is refused, and so is every bound above it *)
Corollary reversed_or_large_refused low high : low <> [] -> high <> [] ->
  (value high < value low \/ re_dup_max < value low \/ re_dup_max < value high) <->
  ((dval 0 high <? dval 0 low) || (re_dup_max <? dval 0 low) || (re_dup_max <? dval 0 high)) = true.
Proof.
  intros _ _. unfold value, re_dup_max. rewrite !dval_spec by lia. rewrite !orb_true_iff, !N.ltb_lt. split; intros H; lia.
Qed.
