(* inside_group never lets the pattern close the group it is wrapped in: read back, its text has no ")" outside brackets,
   unescaped, at depth 0 - for every pattern.  (D21 was an instance: './a)|./b'.) *)
Require Import RegexWrap.
From Coq Require Import List Arith Bool Lia.
Import ListNotations.

Definition norb (l : list nat) : Prop := forallb (fun c => negb (c =? c_rb)) l = true.

Lemma rc_skip : forall acc d rest, norb acc -> closed_early QC d (acc ++ c_rb :: rest) = closed_early (QB false false) d rest.
Proof.
  induction acc as [|a acc IH]; intros d rest H; cbn [app closed_early].
  - now rewrite Nat.eqb_refl.
  - unfold norb in H. cbn [forallb] in H. apply andb_true_iff in H as [Ha H]. apply negb_true_iff in Ha. rewrite Ha. now apply IH.
Qed.
Lemma rc_end : forall acc d, norb acc -> closed_early QC d acc = false.
Proof.
  induction acc as [|a acc IH]; intros d H; cbn [closed_early]; [reflexivity|].
  unfold norb in H. cbn [forallb] in H. apply andb_true_iff in H as [Ha H]. apply negb_true_iff in Ha. rewrite Ha. now apply IH.
Qed.

(* reading "[" then a class text from inside a bracket expression *)
Lemma rb_class mc mr d acc rest : norb acc ->
  closed_early (QB mc mr) d (c_lb :: (c_colon :: acc ++ [c_rb]) ++ rest) = closed_early (QB false false) d rest.
Proof.
  intros H. cbn [closed_early app]. change (c_lb =? c_caret) with false. change (c_lb =? c_rb) with false.
  change (c_lb =? c_lb) with true. change (c_colon =? c_colon) with true. rewrite !andb_false_r. cbv iota.
  rewrite <- app_assoc. cbn [app]. now apply rc_skip.
Qed.
Lemma rb_class_end mc mr d acc : norb acc -> closed_early (QB mc mr) d (c_lb :: c_colon :: acc) = false.
Proof.
  intros H. cbn [closed_early]. change (c_lb =? c_caret) with false. change (c_lb =? c_rb) with false.
  change (c_lb =? c_lb) with true. change (c_colon =? c_colon) with true. rewrite !andb_false_r. cbv iota. now apply rc_end.
Qed.
Lemma rb_punct mc mr d rest : closed_early (QB mc mr) d (w_punct_list ++ rest) = closed_early (QB false false) d rest.
Proof. destruct mc, mr; reflexivity. Qed.
Lemma rb_digit mc mr d rest : closed_early (QB mc mr) d (w_digit_list ++ rest) = closed_early (QB false false) d rest.
Proof. destruct mc, mr; reflexivity. Qed.

Lemma emit_class_read mc mr d acc rest : norb acc ->
  closed_early (QB mc mr) d (emit_class ((c_colon :: acc) ++ [c_rb]) ++ rest) = closed_early (QB false false) d rest.
Proof.
  intros H. unfold emit_class. destruct (w_eqb _ w_punct_name); [apply rb_punct|]. destruct (w_eqb _ w_digit_name); [apply rb_digit|].
  cbn [app]. now apply rb_class.
Qed.

(* the states correspond; inside "[:" the "[" has not been written yet *)
Definition wf_state (q : wst) : Prop := match q with WC acc => exists a, acc = c_colon :: a /\ norb a | _ => True end.
Definition reads (q : wst) (r : rst) : Prop :=
  match q, r with
  | WT _, QT | WE, QE => True
  | WB mc mr, QB mc' mr' => mc = mc' /\ mr = mr'
  | WC _, QB _ _ => True
  | _, _ => False
  end.

Lemma bump_ref_read c d rest : is_ref c = true -> closed_early QE d (bump_ref c ++ rest) = closed_early QT d rest.
Proof.
  intros H. unfold bump_ref. destruct (c =? 57); cbn [app closed_early]; [reflexivity|reflexivity].
Qed.

(* what is written next inside a bracket expression never begins with ":" unless the input does: the reader's look-ahead
   after a "[" sees what the writer saw *)
Lemma emit_class_head cl : exists x rest, emit_class cl = x :: rest /\ (x =? c_colon) = false.
Proof.
  unfold emit_class. destruct (w_eqb cl w_punct_name); [now eexists _, _|]. destruct (w_eqb cl w_digit_name); now eexists _, _.
Qed.
Lemma wc_head : forall s acc d, exists x rest, wrap true true false (WC acc) d s = x :: rest /\ (x =? c_colon) = false.
Proof.
  induction s as [|c s IH]; intros acc d; cbn [wrap]; [now eexists _, _|].
  destruct (c =? c_rb); [|apply IH].
  destruct (emit_class_head (acc ++ [c])) as (x & rest & -> & Hx). now eexists _, _.
Qed.
Lemma wb_head c2 s2 d : (c2 =? c_colon) = false ->
  exists x rest, wrap true true false (WB false false) d (c2 :: s2) = x :: rest /\ (x =? c_colon) = false.
Proof.
  intros H. cbn [wrap andb]. destruct (c2 =? c_rb); [now eexists _, _|].
  destruct (c2 =? c_lb) eqn:E; [|now eexists _, _].
  apply Nat.eqb_eq in E. subst c2.
  destruct s2 as [|d2 s3]; [now eexists _, _|]. destruct (d2 =? c_colon); [apply wc_head|now eexists _, _].
Qed.

Lemma wrap_safe_len : forall n s q r d, length s <= n -> wf_state q -> reads q r -> closed_early r d (wrap true true false q d s) = false.
Proof.
  induction n as [|n IH]; intros s q r d Hlen Hwf Hr.
  - destruct s; [|cbn in Hlen; lia].
    destruct q as [ar| |mc mr|acc], r as [| |mc' mr'|]; cbn [reads] in Hr; try contradiction; cbn [wrap closed_early]; try reflexivity.
    destruct Hwf as (a & -> & Ha). now apply rb_class_end.
  - destruct s as [|c s].
    { destruct q as [ar| |mc mr|acc], r as [| |mc' mr'|]; cbn [reads] in Hr; try contradiction; cbn [wrap closed_early]; try reflexivity.
      destruct Hwf as (a & -> & Ha). now apply rb_class_end. }
    cbn [length] in Hlen. assert (Hs : length s <= n) by lia.
    destruct q as [ar| |mc mr|acc], r as [| |mc' mr'|]; cbn [reads] in Hr; try contradiction; cbn [wrap].
    + (* WT *)
      destruct (ar && is_digit c) eqn:Ed.
      { apply andb_true_iff in Ed as [_ Ed]. unfold is_digit in Ed. apply andb_true_iff in Ed as [E1 E2].
        apply Nat.leb_le in E1. apply Nat.leb_le in E2.
        cbn [app closed_early]. change (c_lb =? c_bs) with false. change (c_lb =? c_lb) with true. cbv iota.
        assert (Hc1 : (c =? c_caret) = false) by (apply Nat.eqb_neq; unfold c_caret; lia).
        assert (Hc2 : (c =? c_rb) = false) by (apply Nat.eqb_neq; unfold c_rb; lia).
        assert (Hc3 : (c =? c_lb) = false) by (apply Nat.eqb_neq; unfold c_lb; lia).
        rewrite Hc1, Hc2, Hc3. cbn [andb]. change (c_rb =? c_caret) with false. change (c_rb =? c_rb) with true. cbn [andb].
        now apply IH. }
      destruct (c =? c_bs) eqn:E1; [cbn [closed_early]; rewrite E1; now apply IH|].
      destruct (c =? c_lb) eqn:E2; [cbn [closed_early]; rewrite E1, E2; apply IH; [exact Hs|exact I|split; reflexivity]|].
      cbn [andb]. destruct (c =? c_lp) eqn:E3; [cbn [closed_early]; rewrite E1, E2, E3; now apply IH|].
      destruct (c =? c_rp) eqn:E4.
      { destruct d as [|d].
        - cbn [closed_early]. change (c_bs =? c_bs) with true. cbv iota. now apply IH.
        - cbn [closed_early]. rewrite E1, E2, E3, E4. now apply IH. }
      cbn [closed_early]. rewrite E1, E2, E3, E4. now apply IH.
    + (* WE *)
      destruct (is_ref c) eqn:Er; [rewrite bump_ref_read by exact Er; now apply IH|].
      cbn [closed_early]. now apply IH.
    + (* WB *)
      destruct Hr as [<- <-].
      destruct (mc && (c =? c_caret)) eqn:E1; [cbn [closed_early]; rewrite E1; apply IH; [exact Hs|exact I|split; reflexivity]|].
      destruct (mr && (c =? c_rb)) eqn:E2; [cbn [closed_early]; rewrite E1, E2; apply IH; [exact Hs|exact I|split; reflexivity]|].
      destruct (c =? c_rb) eqn:E3.
      { try rewrite E3 in E2. rewrite andb_true_r in E2. subst mr. cbn [closed_early]. rewrite E1, E3. cbn [andb]. now apply IH. }
      assert (E2' : forall b, b && (c =? c_rb) = false) by (intros b; rewrite E3; apply andb_false_r).
      destruct (c =? c_lb) eqn:E4.
      { destruct s as [|c2 s2].
        - cbn [wrap closed_early]. rewrite E1, E2', E3, E4. reflexivity.
        - cbv iota. destruct (c2 =? c_colon) eqn:E5.
          + (* the "[" is written later: the reader is still where it was *)
            apply IH; [cbn [length] in Hs; lia| |exact I]. exists []. split; [now apply Nat.eqb_eq in E5; subst|reflexivity].
          + destruct (wb_head c2 s2 d E5) as (x & rest & Ew & Hx).
            assert (Hgoal : closed_early (QB false false) d (wrap true true false (WB false false) d (c2 :: s2)) = false)
              by (apply IH; [exact Hs|exact I|split; reflexivity]).
            cbn [closed_early]. rewrite E1, E2', E3, E4. rewrite Ew in *. rewrite Hx. exact Hgoal. }
      cbn [closed_early]. rewrite E1, E2', E3, E4. apply IH; [exact Hs|exact I|split; reflexivity].
    + (* WC *)
      destruct Hwf as (a & -> & Ha).
      destruct (c =? c_rb) eqn:E1.
      * apply Nat.eqb_eq in E1. subst c. rewrite emit_class_read by exact Ha. apply IH; [exact Hs|exact I|split; reflexivity].
      * apply IH; [exact Hs| |exact I]. exists (a ++ [c]). split; [reflexivity|]. unfold norb in *. rewrite forallb_app, Ha. cbn. now rewrite E1.
Qed.

(* for every pattern: the wrapped text cannot close the wrapping group *)
Theorem inside_group_never_closes : forall p, closed_early QT 0 (inside_group true true false false false p) = false.
Proof. intros p. unfold inside_group. now apply (wrap_safe_len (length (spelled true true false false false p))). Qed.

(* emacs (no extended groups, no character classes, no newline alternation): only what follows a backslash is ever rewritten *)
Definition plain_state (q : wst) : Prop := match q with WT false => True | WB _ _ => True | _ => False end.
Lemma wrap_emacs_plain : forall s q d, forallb (fun c => negb (c =? c_bs)) s = true -> plain_state q ->
  wrap false false false q d s = s.
Proof.
  induction s as [|c s IH]; intros q d Hs Hq.
  - destruct q as [[|]| | |]; cbn in Hq; try contradiction; reflexivity.
  - cbn [forallb] in Hs. apply andb_true_iff in Hs as [Hc Hs]. apply negb_true_iff in Hc.
    destruct q as [[|]| |mc mr|]; cbn in Hq; try contradiction; cbn [wrap andb].
    + rewrite Hc. destruct (c =? c_lb); rewrite IH; auto; exact I.
    + destruct (mc && (c =? c_caret)); [rewrite IH; auto; exact I|].
      destruct (mr && (c =? c_rb)); [rewrite IH; auto; exact I|].
      destruct (c =? c_rb); [rewrite IH; auto; exact I|].
      destruct (c =? c_lb); rewrite IH; auto; exact I.
Qed.
(* a pattern free of rewritable collating symbols goes through spell_collating as it is *)
Fixpoint collfree (s : list nat) : bool :=
  match s with
  | [] => true
  | c :: s' => negb ((c =? c_lb) && match coll s' with Some _ => true | None => false end) && collfree s'
  end.
Lemma collp_collfree cls : forall s q, collfree s = true -> collp cls q s = s.
Proof.
  induction s as [|c s IH]; intros q Hf; [destruct q; reflexivity|].
  cbn [collfree] in Hf. apply andb_true_iff in Hf as [Hl Hf]. apply negb_true_iff in Hl.
  destruct q as [| |mc mr|]; cbn [collp].
  - destruct (c =? c_bs); [now rewrite IH|]. destruct (c =? c_lb); now rewrite IH.
  - now rewrite IH.
  - destruct (mc && (c =? c_caret)); [now rewrite IH|]. destruct (mr && (c =? c_rb)); [now rewrite IH|].
    destruct (c =? c_rb); [now rewrite IH|]. destruct (c =? c_lb) eqn:El; [|now rewrite IH].
    cbn [andb] in Hl. cbv zeta.
    assert (Hother : match s with
                     | d :: _ => if cls && (d =? c_colon) then c :: collp cls CC s else c :: collp cls (CB false false) s
                     | [] => [c] end = c :: s).
    { destruct s as [|d s2]; [reflexivity|]. destruct (cls && (d =? c_colon)); now rewrite IH. }
    unfold coll in Hl. destruct s as [|d0 [|x0 [|e0 [|r0 s3]]]]; try exact Hother.
    destruct (coll_at d0 x0 e0 r0); [discriminate|exact Hother].
  - destruct (c =? c_rb); now rewrite IH.
Qed.

Theorem emacs_text_unchanged p : forallb (fun c => negb (c =? c_bs)) p = true -> collfree p = true ->
  inside_group false false false false false p = p.
Proof.
  intros H Hf. unfold inside_group, spelled, spell. cbn [orb]. rewrite collp_collfree by exact Hf. now apply wrap_emacs_plain.
Qed.

(* ---- the spelling of the basic syntaxes' operators: a pattern without a backslash is not touched (every operator it rewrites
   is written with one) ---- *)
Definition pre_plain (q : pst) : Prop := match q with PE _ => False | _ => True end.
Lemma pre_no_backslash_len gb pq nl : forall n s q, length s <= n -> forallb (fun c => negb (c =? c_bs)) s = true -> pre_plain q ->
  pre gb pq nl q s = s.
Proof.
  induction n as [|n IH]; intros s q Hn Hs Hq.
  - destruct s; [|cbn in Hn; lia]. destruct q; cbn in Hq; try contradiction; reflexivity.
  - destruct s as [|c s]; [destruct q; cbn in Hq; try contradiction; reflexivity|].
    cbn [length] in Hn. assert (Hl : length s <= n) by lia.
    cbn [forallb] in Hs. apply andb_true_iff in Hs as [Hc Hs]. apply negb_true_iff in Hc.
    destruct q as [st an|st|mc mr|k prev|prev]; cbn in Hq; try contradiction; cbn [pre].
    + rewrite Hc. destruct (c =? c_lb); [rewrite IH; auto; exact I|].
      destruct (nl && (c =? c_nl)); [rewrite IH; auto; exact I|].
      destruct (st && negb an && (c =? c_caret)); rewrite IH; auto; exact I.
    + destruct (mc && (c =? c_caret)); [rewrite IH; auto; exact I|].
      destruct (mr && (c =? c_rb)); [rewrite IH; auto; exact I|].
      destruct (c =? c_rb); [rewrite IH; auto; exact I|].
      destruct (c =? c_lb); [|rewrite IH; auto; exact I].
      destruct s as [|k s2]; [reflexivity|].
      destruct ((k =? c_colon) || (k =? c_dot) || (k =? c_eq)).
      * cbn [forallb] in Hs. apply andb_true_iff in Hs as [Hk Hs2]. cbn [length] in Hl.
        rewrite IH; [reflexivity|lia|exact Hs2|exact I].
      * rewrite IH; auto; exact I.
    + destruct (prev && (c =? c_rb)); rewrite IH; auto; exact I.
    + destruct (prev && (c =? c_rbrace)); rewrite IH; auto; exact I.
Qed.
Theorem spell_no_backslash gb pq nl p : forallb (fun c => negb (c =? c_bs)) p = true -> spell gb pq nl p = p.
Proof. intros H. unfold spell. destruct (gb || pq); [|reflexivity]. now apply (pre_no_backslash_len gb pq nl (length p)). Qed.

(* The spelled text is a fixed point of the spelling: read again by the same rules it holds no brace with nothing to repeat
   (grep) and no "\+" / "\?" operator (posix-basic) - what was rewritten is read as what it was rewritten to, and the reading
   goes on in the same state. *)
Lemma pre_pb_head gb pq nl mc mr c s : exists t, pre gb pq nl (PB mc mr) (c :: s) = c :: t.
Proof.
  cbn [pre]. destruct (mc && (c =? c_caret)); [now eexists|]. destruct (mr && (c =? c_rb)); [now eexists|].
  destruct (c =? c_rb); [now eexists|]. destruct (c =? c_lb); [|now eexists].
  destruct s as [|d s2]; [now eexists|]. destruct ((d =? c_colon) || (d =? c_dot) || (d =? c_eq)); now eexists.
Qed.
Lemma pre_idem_len gb pq nl : forall n s q, length s <= n -> pre_plain q ->
  pre gb pq nl q (pre gb pq nl q s) = pre gb pq nl q s.
Proof.
  induction n as [|n IH]; intros s q Hn Hq.
  - destruct s; [|cbn in Hn; lia]. destruct q; cbn in Hq; try contradiction; reflexivity.
  - destruct s as [|c s]; [destruct q; cbn in Hq; try contradiction; reflexivity|].
    cbn [length] in Hn. assert (Hl : length s <= n) by lia.
    destruct q as [st an|st|mc mr|k prev|prev]; cbn in Hq; try contradiction.
    + (* outside *)
      cbn [pre]. destruct (c =? c_bs) eqn:Eb.
      * apply Nat.eqb_eq in Eb. subst c.
        destruct s as [|c2 s2]; [reflexivity|]. cbn [length] in Hl. assert (Hl2 : length s2 <= n) by lia.
        cbn [pre]. destruct ((c2 =? c_lp) || (c2 =? c_bar)) eqn:E1.
        { cbn [pre]. change (c_bs =? c_bs) with true. cbv iota. cbn [pre]. rewrite E1. now rewrite IH. }
        destruct (c2 =? c_lbrace) eqn:E2.
        { apply Nat.eqb_eq in E2. subst c2. destruct st.
          - destruct gb; cbn [app pre].
            + change (c_lbrace =? c_bs) with false. change (c_lbrace =? c_lb) with false. change (c_lbrace =? c_nl) with false.
              change (c_lbrace =? c_caret) with false. rewrite !andb_false_r. now rewrite IH.
            + change (c_bs =? c_bs) with true. cbv iota. cbn [pre]. change (c_lbrace =? c_lp) with false.
              change (c_lbrace =? c_bar) with false. change (c_lbrace =? c_lbrace) with true. cbn [orb]. cbv iota.
              cbn [app]. now rewrite IH.
          - (* an interval: its lower bound is written if it is missing; read again, it is there *)
            assert (Hstep : forall t, pre gb pq nl (PT false an) (c_bs :: c_lbrace :: t) = c_bs :: c_lbrace :: open_bound t ++ pre gb pq nl (PI false) t).
            { intros t. cbn [pre]. change (c_bs =? c_bs) with true. cbv iota. cbn [pre]. change (c_lbrace =? c_lp) with false.
              change (c_lbrace =? c_bar) with false. change (c_lbrace =? c_lbrace) with true. cbn [orb]. cbv iota. reflexivity. }
            cbv iota. rewrite Hstep. do 2 f_equal.
            destruct s2 as [|x s3]; [reflexivity|].
            assert (Hi : pre gb pq nl (PI false) (pre gb pq nl (PI false) (x :: s3)) = pre gb pq nl (PI false) (x :: s3))
              by (apply IH; [exact Hl2|exact I]).
            assert (Hh : exists t, pre gb pq nl (PI false) (x :: s3) = x :: t) by (cbn [pre andb]; now eexists).
            destruct Hh as (t & Et). rewrite Et in *.
            assert (Hpi : forall u, pre gb pq nl (PI false) (48 :: u) = 48 :: pre gb pq nl (PI false) u)
              by (intros u; cbn [pre andb]; change (48 =? c_bs) with false; reflexivity).
            unfold open_bound at 3. unfold open_bound at 2. destruct (x =? 44) eqn:Ex.
            + cbn [app]. unfold open_bound. change (48 =? 44) with false. cbv iota. cbn [app]. rewrite Hpi. rewrite ?Ex. cbn [app]. now rewrite Hi.
            + cbn [app]. unfold open_bound. rewrite ?Ex. cbn [app]. exact Hi. }
        destruct (pq && negb st && (c2 =? c_plus)) eqn:E3.
        { apply andb_true_iff in E3 as [E3 _]. apply andb_true_iff in E3 as [_ E3]. apply negb_true_iff in E3. subst st.
          cbn [app pre]. change (c_bs =? c_bs) with true. cbv iota. cbn [pre orb andb]. cbn [pre]. now rewrite IH. }
        destruct (pq && negb st && (c2 =? c_qm)) eqn:E4.
        { apply andb_true_iff in E4 as [E4 _]. apply andb_true_iff in E4 as [_ E4]. apply negb_true_iff in E4. subst st.
          cbn [app pre]. change (c_bs =? c_bs) with true. cbv iota. cbn [pre orb andb]. cbn [pre]. now rewrite IH. }
        cbn [pre]. change (c_bs =? c_bs) with true. cbv iota. cbn [pre]. rewrite E1, E2, E3, E4. now rewrite IH.
      * destruct (c =? c_lb) eqn:E1; [cbn [pre]; rewrite Eb, E1; now rewrite IH|].
        destruct (nl && (c =? c_nl)) eqn:E2; [cbn [pre]; rewrite Eb, E1, E2; now rewrite IH|].
        destruct (st && negb an && (c =? c_caret)) eqn:E3; cbn [pre]; rewrite Eb, E1, E2, E3; now rewrite IH.
    + (* bracket expression *)
      cbn [pre]. destruct (mc && (c =? c_caret)) eqn:E1; [cbn [pre]; rewrite E1; now rewrite IH|].
      destruct (mr && (c =? c_rb)) eqn:E2; [cbn [pre]; rewrite E1, E2; now rewrite IH|].
      destruct (c =? c_rb) eqn:E3.
      { rewrite andb_true_r in E2. subst mr. cbn [pre]. rewrite E1, E3. cbn [andb]. now rewrite IH. }
      assert (E2' : forall b, b && (c =? c_rb) = false) by (intros b; rewrite E3; apply andb_false_r).
      destruct (c =? c_lb) eqn:E4; [|cbn [pre]; rewrite E1, E2', E3, E4; now rewrite IH].
      destruct s as [|d s2]; [cbn [pre]; rewrite E1, E2', E3, E4; reflexivity|].
      cbn [length] in Hl. assert (Hl2 : length s2 <= n) by lia.
      destruct ((d =? c_colon) || (d =? c_dot) || (d =? c_eq)) eqn:E5.
      * cbn [pre]. rewrite E1, E2', E3, E4, E5. now rewrite IH.
      * destruct (pre_pb_head gb pq nl false false d s2) as (t & Et).
        assert (Hi : pre gb pq nl (PB false false) (pre gb pq nl (PB false false) (d :: s2)) = pre gb pq nl (PB false false) (d :: s2))
          by (apply IH; [exact Hl|exact I]).
        assert (Hstep : forall u, pre gb pq nl (PB mc mr) (c :: d :: u) = c :: pre gb pq nl (PB false false) (d :: u))
          by (intros u; cbn [pre]; rewrite E1, E2', E3, E4, E5; reflexivity).
        rewrite Et in *. rewrite Hstep. now rewrite Hi.
    + cbn [pre]. destruct (prev && (c =? c_rb)) eqn:E1; cbn [pre]; rewrite E1; now rewrite IH.
    + cbn [pre]. destruct (prev && (c =? c_rbrace)) eqn:E1; cbn [pre]; rewrite E1; now rewrite IH.
Qed.
Theorem spell_idempotent gb pq nl p : spell gb pq nl (spell gb pq nl p) = spell gb pq nl p.
Proof. unfold spell. destruct (gb || pq); [|reflexivity]. now apply (pre_idem_len gb pq nl (length p)). Qed.

(* posix-extended: only a "{" is ever followed by something new (the lower bound of an interval that has none) *)
Lemma xopen_no_brace_len : forall n s q, length s <= n -> forallb (fun c => negb (c =? c_lbrace)) s = true -> xopen q s = s.
Proof.
  induction n as [|n IH]; intros s q Hn Hs.
  - destruct s; [destruct q; reflexivity|cbn in Hn; lia].
  - destruct s as [|c s]; [destruct q; reflexivity|]. cbn [length] in Hn. assert (Hl : length s <= n) by lia.
    cbn [forallb] in Hs. apply andb_true_iff in Hs as [Hc Hs]. apply negb_true_iff in Hc.
    destruct q as [| |mc mr|d prev]; cbn [xopen].
    + destruct (c =? c_bs); [now rewrite IH|]. destruct (c =? c_lb); [now rewrite IH|]. rewrite Hc. now rewrite IH.
    + now rewrite IH.
    + destruct (mc && (c =? c_caret)); [now rewrite IH|]. destruct (mr && (c =? c_rb)); [now rewrite IH|].
      destruct (c =? c_rb); [now rewrite IH|]. destruct (c =? c_lb); [|now rewrite IH].
      destruct s as [|d s2]; [reflexivity|]. cbn [length] in Hl. cbn [forallb] in Hs. apply andb_true_iff in Hs as [Hd Hs2].
      destruct ((d =? c_colon) || (d =? c_dot) || (d =? c_eq)).
      * rewrite IH; [reflexivity|lia|exact Hs2].
      * rewrite IH; [reflexivity|cbn [length]; lia|cbn [forallb]; now rewrite Hd, Hs2].
    + destruct (prev && (c =? c_rb)); now rewrite IH.
Qed.
Theorem xopen_no_brace p : forallb (fun c => negb (c =? c_lbrace)) p = true -> xopen XT p = p.
Proof. apply (xopen_no_brace_len (length p)). apply le_n. Qed.
