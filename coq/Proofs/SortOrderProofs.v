Require Import SortOrder.
From Coq Require Import List Arith Bool Lia Sorting.Sorted Sorting.Permutation.
Import ListNotations.

Definition ble (a b : bname) : Prop := bytes_leb a b = true.

Lemma ble_refl a : ble a a.
Proof. unfold ble. induction a as [|x a IH]; cbn [bytes_leb]; [reflexivity|]. rewrite Nat.ltb_irrefl. exact IH. Qed.
Lemma ble_total a b : ble a b \/ ble b a.
Proof.
  unfold ble. revert b. induction a as [|x a IH]; intros [|y b]; cbn [bytes_leb]; auto.
  destruct (Nat.ltb_spec x y), (Nat.ltb_spec y x); auto; try lia.
Qed.
Lemma ble_antisym a b : ble a b -> ble b a -> a = b.
Proof.
  unfold ble. revert b. induction a as [|x a IH]; intros [|y b]; cbn [bytes_leb]; try congruence.
  destruct (Nat.ltb_spec x y), (Nat.ltb_spec y x); try congruence; try lia.
  intros H1 H2. assert (x = y) by lia. subst. f_equal. now apply IH.
Qed.
Lemma ble_trans a b c : ble a b -> ble b c -> ble a c.
Proof.
  unfold ble. revert b c. induction a as [|x a IH]; intros [|y b] [|z c]; cbn [bytes_leb]; try congruence.
  destruct (Nat.ltb_spec x y) as [Hxy|Hxy]; [|destruct (Nat.ltb_spec y x) as [Hyx|Hyx]; [congruence|]].
  - intros _. destruct (Nat.ltb_spec y z); [|destruct (Nat.ltb_spec z y); [congruence|]];
      intros _; destruct (Nat.ltb_spec x z); try reflexivity; lia.
  - assert (x = y) by lia. subst y. destruct (Nat.ltb_spec x z); [reflexivity|].
    destruct (Nat.ltb_spec z x); [congruence|]. apply IH.
Qed.
(* the order is the one of the first differing byte, a proper prefix coming first *)
Lemma ble_prefix a t : ble a (a ++ t).
Proof. unfold ble. induction a as [|x a IH]; cbn [bytes_leb app]; [reflexivity|]. now rewrite Nat.ltb_irrefl. Qed.
Lemma ble_first_diff p x y s t : x < y -> ble (p ++ x :: s) (p ++ y :: t) /\ ~ ble (p ++ y :: t) (p ++ x :: s).
Proof.
  intros H. unfold ble. induction p as [|c p IH]; cbn [bytes_leb app].
  - destruct (Nat.ltb_spec x y), (Nat.ltb_spec y x); try lia; try (split; [reflexivity|congruence]).
  - rewrite Nat.ltb_irrefl. exact IH.
Qed.

Section S.
Context {A : Type}.
Definition ordered (l : list (bname * A)) : Prop := StronglySorted (fun e f => ble (fst e) (fst f)) l.

Lemma insert_perm (e : bname * A) l : Permutation (e :: l) (insert_name e l).
Proof.
  induction l as [|f l IH]; cbn; [reflexivity|].
  destruct (bytes_leb (fst f) (fst e)); [|reflexivity].
  rewrite perm_swap. now apply perm_skip.
Qed.
Theorem sort_perm (l : list (bname * A)) : Permutation l (sort_names l).
Proof. induction l as [|e l IH]; cbn; [constructor|]. rewrite <- insert_perm. now apply perm_skip. Qed.

Lemma insert_ordered (e : bname * A) l : ordered l -> ordered (insert_name e l).
Proof.
  unfold ordered. induction l as [|f l IH]; cbn; intros H.
  - repeat constructor.
  - inversion H as [|? ? Hl Hf]; subst. destruct (bytes_leb (fst f) (fst e)) eqn:E.
    + constructor; [now apply IH|].
      rewrite Forall_forall. intros g Hg. apply Permutation_in with (l' := e :: l) in Hg; [|symmetry; apply insert_perm].
      destruct Hg as [<-|Hg]; [exact E|]. rewrite Forall_forall in Hf. now apply Hf.
    + assert (Hef : ble (fst e) (fst f)) by (destruct (ble_total (fst e) (fst f)) as [T|T]; [exact T|unfold ble in T; congruence]).
      constructor; [exact H|]. constructor; [exact Hef|].
      rewrite Forall_forall in Hf |- *. intros g Hg. eapply ble_trans; [exact Hef|now apply Hf].
Qed.
Theorem sort_ordered (l : list (bname * A)) : ordered (sort_names l).
Proof. induction l as [|e l IH]; cbn; [constructor|now apply insert_ordered]. Qed.

(* an ordered list with distinct names is determined by its members: the order read from the directory does not matter *)
Lemma ordered_unique (l1 l2 : list (bname * A)) :
  ordered l1 -> ordered l2 -> NoDup (map fst l1) -> Permutation l1 l2 -> l1 = l2.
Proof.
  unfold ordered. revert l2. induction l1 as [|e l1 IH]; intros l2 H1 H2 Hn Hp.
  - apply Permutation_nil in Hp. now subst.
  - destruct l2 as [|f l2]; [symmetry in Hp; now apply Permutation_nil in Hp|].
    inversion H1 as [|? ? Hl1 Hf1]; subst. inversion H2 as [|? ? Hl2 Hf2]; subst.
    inversion Hn as [|? ? Hni Hn']; subst.
    assert (Eef : e = f).
    { assert (I1 : In e (f :: l2)) by (eapply Permutation_in; [exact Hp|now left]).
      assert (I2 : In f (e :: l1)) by (eapply Permutation_in; [symmetry; exact Hp|now left]).
      destruct I1 as [->|I1]; [reflexivity|]. destruct I2 as [->|I2]; [reflexivity|].
      rewrite Forall_forall in Hf1, Hf2.
      pose proof (ble_antisym _ _ (Hf1 _ I2) (Hf2 _ I1)) as En.
      exfalso. apply Hni. rewrite En. now apply in_map. }
    subst f. f_equal. apply IH; try assumption. now apply Permutation_cons_inv in Hp.
Qed.
Theorem sort_deterministic (l1 l2 : list (bname * A)) :
  NoDup (map fst l1) -> Permutation l1 l2 -> sort_names l1 = sort_names l2.
Proof.
  intros Hn Hp. apply ordered_unique; try apply sort_ordered.
  - eapply Permutation_NoDup; [|exact Hn]. apply Permutation_map. apply sort_perm.
  - rewrite <- (sort_perm l1), <- (sort_perm l2). exact Hp.
Qed.
End S.
