(* find -print0 | xargs -0: what is printed is read back exactly *)
Require Import XRead XReadSpec XReadProofs XReadSpecProofs.
From Coq Require Import List Arith Bool Lia.
Import ListNotations.

Definition good (d : nat) (p : list nat) : Prop := p <> [] /\ ~ In d p.

Lemma split_join d : forall ps, Forall (good d) ps ->
  split_on d [] (concat (map (fun p => p ++ [d]) ps)) = ps ++ [[]].
Proof.
  induction ps as [|p ps IH]; intros H; [reflexivity|]. inversion H as [|? ? [Hne Hn] Hs]; subst.
  cbn [map concat]. rewrite <- app_assoc. rewrite split_on_acc by assumption. cbn [app split_on]. rewrite Nat.eqb_refl.
  cbn [app]. now rewrite IH.
Qed.

Lemma filter_good d ps : Forall (good d) ps -> filter nonempty ps = ps.
Proof.
  induction ps as [|p ps IH]; intros H; [reflexivity|]. inversion H as [|? ? [Hne _] Hs]; subst.
  destruct p; [congruence|]. cbn. now rewrite IH.
Qed.

(* every path written with its terminator comes back as exactly one argument, unchanged, in order,
   whatever the chunking of the pipe *)
Theorem print_read_roundtrip d ps chunks : Forall (good d) ps ->
  concat chunks = concat (map (fun p => p ++ [d]) ps) -> bd_read d chunks = ps.
Proof.
  intros H E. rewrite bd_read_fields. unfold fields, byte in *. rewrite E.
  rewrite split_join by assumption.
  rewrite filter_app. cbn [filter nonempty]. rewrite app_nil_r. now apply (filter_good d).
Qed.
