(* C12, parser half: for every well-formed structured glob, glob_to_regex writes the expected regex
   text and Oniguruma's reading of that text (parse_bre) is the glob's meaning. *)
Require Import GlobEngine GlobBT GlobNFA Glob GlobSpec.
From Coq Require Import List Arith Bool Lia.
Import ListNotations.

(* ---- class names ---- *)
Lemma class_names_ok : forall k, k < 14 ->
  class_of (class_name k) class_names = Some k /\
  forallb (fun c => negb (c =? ch_colon) && negb (c =? ch_rb)) (class_name k) = true.
Proof.
  assert (H : forallb (fun k => match class_of (class_name k) class_names with Some k' => k' =? k | None => false end &&
                               forallb (fun c => negb (c =? ch_colon) && negb (c =? ch_rb)) (class_name k)) (seq 0 14) = true)
    by (vm_compute; reflexivity).
  intros k Hk. rewrite forallb_forall in H. specialize (H k). rewrite in_seq in H.
  assert (Hin : 0 <= k < 0 + 14) by lia. apply H in Hin. apply andb_true_iff in Hin as [H1 H2].
  split; [|exact H2].
  destruct (class_of _ _) as [k'|]; [|discriminate]. apply Nat.eqb_eq in H1. now subst.
Qed.

Lemma neqb_false a b : negb (a =? b) = true -> (a =? b) = false.
Proof. now destruct (a =? b). Qed.

Lemma plain_facts c : plain_in_bracket c = true ->
  (c =? ch_rb) = false /\ (c =? ch_lb) = false /\ (c =? ch_minus) = false /\ (c =? ch_bs) = false.
Proof.
  unfold plain_in_bracket. intros H. repeat (apply andb_true_iff in H as [H ?]). repeat split; now apply neqb_false.
Qed.

(* ---- the scanner (extract_bracket_expr's loop) on a well-formed body ---- *)
Lemma scan_plain f c s1 expr : (c =? ch_rb) = false -> (c =? ch_lb) = false ->
  scan_bracket (S f) (c :: s1) expr = scan_bracket f s1 (expr ++ [c]).
Proof. intros H1 H2. cbn [scan_bracket]. now rewrite H1, H2. Qed.

Lemma skipn_app_len {A} (a b : list A) : skipn (length a) (a ++ b) = b.
Proof. induction a; cbn; auto. Qed.
Lemma firstn_app_len {A} (a b : list A) : firstn (length a) (a ++ b) = a.
Proof. induction a; cbn; [reflexivity|]. now f_equal. Qed.

Lemma take_class_cons a b t acc :
  take_class (a :: b :: t) acc = if (a =? ch_colon) && (b =? ch_rb) then Some (acc, t) else take_class (b :: t) (acc ++ [a]).
Proof. reflexivity. Qed.

Lemma take_class_name : forall name acc tail, forallb (fun c => negb (c =? ch_colon) && negb (c =? ch_rb)) name = true ->
  take_class (name ++ ch_colon :: ch_rb :: tail) acc = Some (acc ++ name, tail).
Proof.
  induction name as [|a name IH]; intros acc tail H.
  - cbn [app take_class]. change ((ch_colon =? ch_colon) && (ch_rb =? ch_rb)) with true. cbv iota. now rewrite app_nil_r.
  - cbn [forallb] in H. apply andb_true_iff in H as [Ha Hn]. apply andb_true_iff in Ha as [Ha1 _].
    assert (E : exists b t', name ++ ch_colon :: ch_rb :: tail = b :: t') by (destruct name; cbn; eauto).
    destruct E as (b & t' & E). cbn [app]. rewrite E. rewrite take_class_cons. rewrite (neqb_false _ _ Ha1). cbn [andb].
    rewrite <- E. rewrite IH by assumption. now rewrite <- app_assoc.
Qed.

Lemma scan_class f k tail expr : k < 12 -> k <> 7 -> k <> 1 ->
  scan_bracket (S f) (show_bitem (BClass k) ++ tail) expr = scan_bracket f tail (expr ++ show_bitem (BClass k)).
Proof.
  intros Hk Hk7 Hk1. assert (Hk14 : k < 14) by lia. destruct (class_names_ok k Hk14) as (Hc & Hn).
  apply Nat.eqb_neq in Hk7. apply Nat.eqb_neq in Hk1.
  cbn [show_bitem]. set (name := class_name k) in *.
  change (([ch_lb; ch_colon] ++ name ++ [ch_colon; ch_rb]) ++ tail) with (ch_lb :: ch_colon :: (name ++ [ch_colon; ch_rb]) ++ tail).
  rewrite <- app_assoc. change ([ch_colon; ch_rb] ++ tail) with (ch_colon :: ch_rb :: tail). cbn [scan_bracket].
  change (ch_lb =? ch_rb) with false. change (ch_lb =? ch_lb) with true. cbv iota.
  change (ch_colon =? ch_colon) with true. cbv iota.
  rewrite take_class_name by exact Hn. cbn [app]. rewrite Hc.
  assert (H12 : (12 <=? k) = false) by (apply Nat.leb_gt; exact Hk). rewrite H12, Hk7, Hk1.
  f_equal. rewrite <- !app_assoc. reflexivity.
Qed.

Lemma show_bitem_len b : 1 <= length (show_bitem b).
Proof. destruct b; cbn; lia. Qed.

Lemma scan_body : forall items fuel expr rest, forallb wf_bitem items = true ->
  length (show_body items ++ ch_rb :: rest) < fuel ->
  scan_bracket fuel (show_body items ++ ch_rb :: rest) expr = Some (expr ++ show_body items ++ [ch_rb], rest).
Proof.
  induction items as [|b items IH]; intros fuel expr rest Hwf Hf.
  - cbn [show_body map concat app] in *. destruct fuel; [cbn in Hf; lia|]. cbn [scan_bracket]. now rewrite Nat.eqb_refl.
  - cbn [forallb] in Hwf. apply andb_true_iff in Hwf as [Hb Hwf].
    unfold show_body in *. cbn [map concat] in *. rewrite <- !app_assoc in *. rewrite app_length in Hf.
    destruct b as [c|lo hi|k]; cbn [wf_bitem] in Hb.
    + destruct (plain_facts c Hb) as (H1 & H2 & _). cbn [show_bitem app length] in *.
      destruct fuel; [lia|]. rewrite scan_plain by assumption. rewrite IH by (try assumption; lia).
      now rewrite <- app_assoc.
    + apply andb_true_iff in Hb as [Hb _]. apply andb_true_iff in Hb as [Hlo Hhi].
      destruct (plain_facts lo Hlo) as (L1 & L2 & _). destruct (plain_facts hi Hhi) as (H1 & H2 & _).
      cbn [show_bitem app length] in *.
      destruct fuel; [lia|]. rewrite scan_plain by assumption.
      destruct fuel; [lia|]. rewrite scan_plain by reflexivity.
      destruct fuel; [lia|]. rewrite scan_plain by assumption.
      rewrite IH by (try assumption; lia). now rewrite <- !app_assoc.
    + apply andb_true_iff in Hb as [Hb Hb1]. apply andb_true_iff in Hb as [Hb Hb7]. apply Nat.ltb_lt in Hb.
      apply negb_true_iff, Nat.eqb_neq in Hb7. apply negb_true_iff, Nat.eqb_neq in Hb1.
      destruct fuel; [lia|]. rewrite scan_class by assumption.
      pose proof (show_bitem_len (BClass k)). rewrite IH by (try assumption; lia). now rewrite <- !app_assoc.
Qed.

(* the optional "-" that ends the list *)
Definition mtext (mi : bool) : list nat := if mi then [ch_minus] else [].
Definition mnitem (mi : bool) : list bitem := if mi then [BChar ch_minus] else [].
Definition rtext (rb : bool) : list nat := if rb then [ch_rb] else [].
Definition rbitem (rb : bool) : list bitem := if rb then [BChar ch_rb] else [].

Lemma scan_body_sfx : forall items mi fuel expr rest, forallb wf_bitem items = true ->
  length (show_body items ++ mtext mi ++ ch_rb :: rest) < fuel ->
  scan_bracket fuel (show_body items ++ mtext mi ++ ch_rb :: rest) expr = Some (expr ++ show_body items ++ mtext mi ++ [ch_rb], rest).
Proof.
  induction items as [|b items IH]; intros mi fuel expr rest Hwf Hf.
  - cbn [show_body map concat app] in *. destruct mi; cbn [mtext app length] in *.
    + destruct fuel; [lia|]. rewrite scan_plain by reflexivity. destruct fuel; [lia|]. cbn [scan_bracket]. rewrite Nat.eqb_refl.
      now rewrite <- app_assoc.
    + destruct fuel; [lia|]. cbn [scan_bracket]. now rewrite Nat.eqb_refl.
  - cbn [forallb] in Hwf. apply andb_true_iff in Hwf as [Hb Hwf].
    unfold show_body in *. cbn [map concat] in *. rewrite <- !app_assoc in *. rewrite app_length in Hf.
    destruct b as [c|lo hi|k]; cbn [wf_bitem] in Hb.
    + destruct (plain_facts c Hb) as (H1 & H2 & _). cbn [show_bitem app length] in *.
      destruct fuel; [lia|]. rewrite scan_plain by assumption. rewrite IH by (try assumption; lia).
      now rewrite <- app_assoc.
    + apply andb_true_iff in Hb as [Hb _]. apply andb_true_iff in Hb as [Hlo Hhi].
      destruct (plain_facts lo Hlo) as (L1 & L2 & _). destruct (plain_facts hi Hhi) as (H1 & H2 & _).
      cbn [show_bitem app length] in *.
      destruct fuel; [lia|]. rewrite scan_plain by assumption.
      destruct fuel; [lia|]. rewrite scan_plain by reflexivity.
      destruct fuel; [lia|]. rewrite scan_plain by assumption.
      rewrite IH by (try assumption; lia). now rewrite <- !app_assoc.
    + apply andb_true_iff in Hb as [Hb Hb1]. apply andb_true_iff in Hb as [Hb Hb7]. apply Nat.ltb_lt in Hb.
      apply negb_true_iff, Nat.eqb_neq in Hb7. apply negb_true_iff, Nat.eqb_neq in Hb1.
      destruct fuel; [lia|]. rewrite scan_class by assumption.
      pose proof (show_bitem_len (BClass k)). rewrite IH by (try assumption; lia). now rewrite <- !app_assoc.
Qed.

(* ---- Oniguruma's reading of the same body ---- *)
(* what follows an item never makes it the start of a range: it does not begin with "-", or that "-" is the last member *)
Definition ok_tail (tail : list nat) : Prop :=
  match tail with m :: n :: _ => (m =? ch_minus) = false \/ (n =? ch_rb) = true | _ => True end.

Lemma item_head b : wf_bitem b = true ->
  exists c t, show_bitem b = c :: t /\ (c =? ch_rb) = false /\ (c =? ch_minus) = false.
Proof.
  destruct b as [c|lo hi|k]; cbn [wf_bitem show_bitem]; intros H.
  - destruct (plain_facts c H) as (H1 & _ & H3 & _). eauto.
  - apply andb_true_iff in H as [H _]. apply andb_true_iff in H as [H _]. destruct (plain_facts lo H) as (H1 & _ & H3 & _). eauto.
  - exists ch_lb. eexists. split; [reflexivity|]. split; reflexivity.
Qed.

Lemma mtail_ok mi rest : ok_tail (mtext mi ++ ch_rb :: rest).
Proof. destruct mi; cbn; [now right|]. destruct rest; [exact Logic.I|now left]. Qed.

Lemma body_ok_tail items mi rest : forallb wf_bitem items = true -> ok_tail (show_body items ++ mtext mi ++ ch_rb :: rest).
Proof.
  destruct items as [|b items]; intros H; [apply mtail_ok|]. cbn [forallb] in H. apply andb_true_iff in H as [Hb _].
  destruct (item_head b Hb) as (c & t & E & _ & Hm). unfold show_body. cbn [map concat]. rewrite E. cbn [app ok_tail].
  match goal with |- match ?l with _ => _ end => destruct l end; [exact Logic.I|now left].
Qed.

Lemma after_item {X} tail (a b : X) : ok_tail tail ->
  match tail with m :: n :: _ => if (m =? ch_minus) && negb (n =? ch_rb) then a else b | _ => b end = b.
Proof.
  destruct tail as [|m [|n t]]; cbn; intros H; [reflexivity|reflexivity|]. destruct H as [H|H]; rewrite H; [reflexivity|].
  now rewrite andb_false_r.
Qed.

Lemma cc_step b f first acc tail : wf_bitem b = true -> ok_tail tail ->
  cc_items (S f) (show_bitem b ++ tail) first acc = cc_items f tail false (acc ++ [b]).
Proof.
  intros Hb Ht. destruct b as [c|lo hi|k]; cbn [wf_bitem] in Hb.
  - destruct (plain_facts c Hb) as (H1 & H2 & _). cbn [show_bitem app cc_items]. rewrite H1, H2. cbn [andb].
    destruct tail as [|m [|hi s2]]; try reflexivity. cbn in Ht. destruct Ht as [H|H]; rewrite H; [reflexivity|].
    now rewrite andb_false_r.
  - apply andb_true_iff in Hb as [Hb Hle]. apply andb_true_iff in Hb as [Hlo Hhi].
    destruct (plain_facts lo Hlo) as (L1 & L2 & _). destruct (plain_facts hi Hhi) as (H1 & H2 & _).
    cbn [show_bitem app cc_items]. rewrite L1, L2. cbn [andb].
    change (ch_minus =? ch_minus) with true. rewrite H1, H2. cbn [andb negb].
    apply Nat.leb_le in Hle. assert (Hlt : (hi <? lo) = false) by (apply Nat.ltb_ge; exact Hle). rewrite Hlt.
    apply after_item. exact Ht.
  - apply andb_true_iff in Hb as [Hb _]. apply andb_true_iff in Hb as [Hb _]. apply Nat.ltb_lt in Hb.
    assert (Hb14 : k < 14) by lia. destruct (class_names_ok k Hb14) as (Hc & Hn).
    cbn [show_bitem]. set (name := class_name k) in *.
    change (([ch_lb; ch_colon] ++ name ++ [ch_colon; ch_rb]) ++ tail) with (ch_lb :: ch_colon :: (name ++ [ch_colon; ch_rb]) ++ tail).
    rewrite <- app_assoc. change ([ch_colon; ch_rb] ++ tail) with (ch_colon :: ch_rb :: tail).
    cbn [cc_items tl]. change (ch_lb =? ch_rb) with false. change (ch_lb =? ch_lb) with true. change (ch_colon =? ch_colon) with true.
    cbn [andb]. rewrite take_class_name by exact Hn. cbn [app]. rewrite Hc. apply after_item. exact Ht.
Qed.

(* a "]" that stands first is a member *)
Lemma cc_first_rb f acc tail : ok_tail tail ->
  cc_items (S f) (ch_rb :: tail) true acc = cc_items f tail false (acc ++ [BChar ch_rb]).
Proof.
  intros Ht. cbn [cc_items]. rewrite Nat.eqb_refl. cbn [negb andb]. change (ch_rb =? ch_lb) with false. cbn [andb].
  destruct tail as [|m [|hi s2]]; try reflexivity. cbn in Ht. destruct Ht as [H|H]; rewrite H; [reflexivity|].
  now rewrite andb_false_r.
Qed.
(* the end of the list: an optional "-" and the closing "]" *)
Lemma cc_end mi f first acc rest : length (mnitem mi) < f ->
  cc_items f (mtext mi ++ ch_rb :: rest) (first && mi) acc = CCOk false (acc ++ mnitem mi) rest.
Proof.
  destruct mi; cbn [mtext mnitem app length]; intros Hf.
  - destruct f as [|[|f]]; try lia.
    rewrite andb_true_r. cbn [cc_items]. change (ch_minus =? ch_rb) with false. change (ch_minus =? ch_lb) with false. cbn [andb].
    destruct rest as [|n rest']; cbn [cc_items]; rewrite ?Nat.eqb_refl; cbn [negb andb]; try reflexivity;
      change (ch_rb =? ch_minus) with false; cbn [andb]; rewrite ?Nat.eqb_refl; reflexivity.
  - destruct f; [lia|]. rewrite andb_false_r. cbn [cc_items]. rewrite Nat.eqb_refl. cbn. now rewrite app_nil_r.
Qed.

Lemma cc_body_sfx : forall items mi f acc rest, forallb wf_bitem items = true -> length items + length (mnitem mi) < f ->
  cc_items f (show_body items ++ mtext mi ++ ch_rb :: rest) false acc = CCOk false (acc ++ items ++ mnitem mi) rest.
Proof.
  induction items as [|b items IH]; intros mi f acc rest Hwf Hf.
  - cbn [show_body map concat app length] in *.
    pose proof (cc_end mi f false acc rest Hf) as H. cbn [andb] in H. exact H.
  - destruct f; [cbn in Hf; lia|]. cbn [forallb] in Hwf. apply andb_true_iff in Hwf as [Hb Hwf].
    unfold show_body. cbn [map concat]. rewrite <- app_assoc. fold (show_body items).
    rewrite cc_step by (try assumption; now apply body_ok_tail).
    rewrite IH by (try assumption; cbn in Hf; lia). now rewrite <- !app_assoc.
Qed.

Lemma body_len items : length items <= length (show_body items).
Proof.
  induction items as [|b items IH]; [cbn; lia|]. unfold show_body in *. cbn [map concat length]. rewrite app_length.
  pose proof (show_bitem_len b). lia.
Qed.

(* the shape of a well-formed member list *)
Lemma rev_cons_eq {A} (l : list A) x r : rev l = x :: r -> l = rev r ++ [x].
Proof. intros H. rewrite <- (rev_involutive l), H. reflexivity. Qed.
Lemma wf_bracket_shape neg items : wf_item (GBr neg items) = true ->
  exists rb mid mi, items = rbitem rb ++ mid ++ mnitem mi /\ forallb wf_bitem mid = true /\ items <> [].
Proof.
  cbn [wf_item]. intros H. apply andb_true_iff in H as [Hwf Hfirst].
  assert (Hne : items <> []) by (destruct items; [discriminate|discriminate]).
  assert (S1 : exists rb i1, items = rbitem rb ++ i1 /\ snd (strip_first_rb items) = i1).
  { unfold strip_first_rb. destruct items as [|[c|lo hi|k] r]; try (exists false; eexists; split; reflexivity).
    destruct (Nat.eqb_spec c ch_rb) as [->|_]; [exists true|exists false]; eexists; split; reflexivity. }
  destruct S1 as (rb & i1 & E1 & Es1). rewrite Es1 in Hwf.
  assert (S2 : exists mi mid, i1 = mid ++ mnitem mi /\ snd (strip_last_minus i1) = mid).
  { unfold strip_last_minus. destruct (rev i1) as [|[c|lo hi|k] r] eqn:Er;
      try (exists false, i1; split; [cbn; now rewrite app_nil_r|reflexivity]).
    destruct (Nat.eqb_spec c ch_minus) as [->|_].
    - exists true, (rev r). split; [now apply rev_cons_eq|reflexivity].
    - exists false, i1. split; [cbn; now rewrite app_nil_r|reflexivity]. }
  destruct S2 as (mi & mid & E2 & Es2). rewrite Es2 in Hwf.
  exists rb, mid, mi. rewrite E2 in E1. repeat split; assumption.
Qed.

Lemma show_body_app a b : show_body (a ++ b) = show_body a ++ show_body b.
Proof. unfold show_body. now rewrite map_app, concat_app. Qed.
Lemma show_ritem rb : show_body (rbitem rb) = rtext rb.
Proof. destruct rb; reflexivity. Qed.
Lemma show_mitem mi : show_body (mnitem mi) = mtext mi.
Proof. destruct mi; reflexivity. Qed.

(* the whole bracket, as Oniguruma reads it after "[" *)
Lemma cc_list rb mid mi rest acc f : forallb wf_bitem mid = true -> rbitem rb ++ mid ++ mnitem mi <> [] ->
  length (rbitem rb ++ mid ++ mnitem mi) < f ->
  cc_items f (rtext rb ++ show_body mid ++ mtext mi ++ ch_rb :: rest) true acc
  = CCOk false (acc ++ rbitem rb ++ mid ++ mnitem mi) rest.
Proof.
  intros Hwf Hne Hf. rewrite !app_length in Hf. destruct rb; cbn [rtext rbitem app length] in *.
  - destruct f; [lia|]. rewrite cc_first_rb by (now apply body_ok_tail). rewrite cc_body_sfx by (try assumption; lia).
    now rewrite <- !app_assoc.
  - destruct mid as [|b mid].
    + cbn [show_body map concat app length] in *. pose proof (cc_end mi f true acc rest Hf) as H.
      destruct mi; cbn [andb] in H; [exact H|]. exfalso. now apply Hne.
    + cbn [forallb] in Hwf. apply andb_true_iff in Hwf as [Hb Hwf]. destruct f; [cbn in Hf; lia|].
      unfold show_body. cbn [map concat length]. rewrite <- app_assoc. fold (show_body mid).
      rewrite cc_step by (try assumption; now apply body_ok_tail).
      rewrite cc_body_sfx by (try assumption; cbn in Hf; lia). now rewrite <- !app_assoc.
Qed.

Lemma show_shape rb mid mi : show_body (rbitem rb ++ mid ++ mnitem mi) = rtext rb ++ show_body mid ++ mtext mi.
Proof. now rewrite !show_body_app, show_ritem, show_mitem. Qed.

(* the first character of a well-formed member list, when it does not begin with "]" *)
Lemma shape_head mid mi rest : forallb wf_bitem mid = true -> mid ++ mnitem mi <> [] ->
  exists c t, show_body mid ++ mtext mi ++ ch_rb :: rest = c :: t /\ (c =? ch_rb) = false /\
              first_char (mid ++ mnitem mi) = Some c.
Proof.
  intros Hwf Hne. destruct mid as [|b mid].
  - destruct mi; [|now contradiction Hne]. exists ch_minus. eexists. repeat split; reflexivity.
  - cbn [forallb] in Hwf. apply andb_true_iff in Hwf as [Hb _].
    destruct (item_head b Hb) as (c & t & E & Hrb & _). exists c. eexists.
    unfold show_body. cbn [map concat app first_char]. rewrite E. cbn [app hd_error]. split; [reflexivity|]. split; [exact Hrb|reflexivity].
Qed.

Lemma text_len rb mid mi : length (rbitem rb ++ mid ++ mnitem mi) <= length (rtext rb ++ show_body mid ++ mtext mi).
Proof. rewrite !app_length. pose proof (body_len mid). destruct rb, mi; cbn; lia. Qed.

Lemma cc_parse_bracket neg items rest : wf_item (GBr neg items) = true ->
  cc_parse ((if neg then [ch_caret] else []) ++ show_body items ++ ch_rb :: rest) = CCOk neg items rest.
Proof.
  intros H. destruct (wf_bracket_shape neg items H) as (rb & mid & mi & E & Hwf & Hne).
  cbn [wf_item] in H. apply andb_true_iff in H as [_ Hfirst]. subst items.
  rewrite show_shape, <- ?app_assoc. pose proof (text_len rb mid mi) as Hlen. rewrite !app_length in Hlen.
  set (T := rtext rb ++ show_body mid ++ mtext mi ++ ch_rb :: rest).
  assert (HT : length (rbitem rb ++ mid ++ mnitem mi) < length T).
  { subst T. rewrite !app_length. cbn [length]. rewrite ?app_length in *. lia. }
  destruct neg.
  - cbn [app]. unfold cc_parse. change (ch_caret =? ch_caret) with true. cbv iota.
    subst T. rewrite cc_list; [reflexivity|exact Hwf|exact Hne|lia].
  - cbn [app orb] in Hfirst |- *.
    (* the first character is not "^" *)
    assert (Hc : exists c t, T = c :: t /\ (c =? ch_caret) = false).
    { subst T. destruct rb; cbn [rtext rbitem app] in *.
      - exists ch_rb. eexists. split; reflexivity.
      - destruct (shape_head mid mi rest Hwf Hne) as (c & t & Ec & _ & Hfc). rewrite Hfc in Hfirst.
        apply andb_true_iff in Hfirst as [_ Hcar]. exists c, t. split; [exact Ec|now apply neqb_false]. }
    destruct Hc as (c & t & Ec & Hcar). unfold cc_parse. rewrite Ec, Hcar. rewrite <- Ec.
    subst T. rewrite cc_list; [reflexivity|exact Hwf|exact Hne|lia].
Qed.

(* ---- extract_bracket_expr on a well-formed bracket ---- *)
(* after the optional negation: an optional "]" that is a member, then the scanner *)
Definition after_neg (e0 s0 : list nat) : br_res :=
  let '(e1, s1) := match s0 with c :: s' => if c =? ch_rb then (e0 ++ [ch_rb], s') else (e0, s0) | [] => (e0, s0) end in
  match scan_bracket (S (length s1)) s1 e1 with
  | None => BrNone
  | Some (expr, rest) =>
      match cc_parse (tl expr) with
      | CCOk _ _ [] => BrOk expr rest
      | CCOk _ _ _ => BrUnsupported
      | CCErr => BrNone
      | CCUnsupported => BrUnsupported
      end
  end.
Lemma extract_bracket_neg c s : ((c =? ch_bang) || (c =? ch_caret)) = true -> extract_bracket (c :: s) = after_neg [ch_lb; ch_caret] s.
Proof. intros H. unfold extract_bracket, after_neg. now rewrite H. Qed.
Lemma extract_bracket_pos c s : ((c =? ch_bang) || (c =? ch_caret)) = false -> extract_bracket (c :: s) = after_neg [ch_lb] (c :: s).
Proof. intros H. unfold extract_bracket, after_neg. now rewrite H. Qed.

Lemma after_neg_ok e0 rb mid mi rest neg' its : forallb wf_bitem mid = true -> rbitem rb ++ mid ++ mnitem mi <> [] ->
  cc_parse (tl (e0 ++ rtext rb ++ show_body mid ++ mtext mi ++ [ch_rb])) = CCOk neg' its [] ->
  after_neg e0 (rtext rb ++ show_body mid ++ mtext mi ++ ch_rb :: rest)
  = BrOk (e0 ++ rtext rb ++ show_body mid ++ mtext mi ++ [ch_rb]) rest.
Proof.
  intros Hwf Hne Hcc.
  assert (Hscan : forall e, scan_bracket (S (length (show_body mid ++ mtext mi ++ ch_rb :: rest))) (show_body mid ++ mtext mi ++ ch_rb :: rest) e
                            = Some (e ++ show_body mid ++ mtext mi ++ [ch_rb], rest)).
  { intros e. apply scan_body_sfx; [exact Hwf|apply Nat.lt_succ_diag_r]. }
  unfold after_neg. destruct rb; cbn [rtext rbitem app] in *.
  - rewrite Nat.eqb_refl. rewrite Hscan. rewrite <- ?app_assoc. cbn [app]. rewrite <- ?app_assoc in Hcc. cbn [app] in Hcc. now rewrite Hcc.
  - destruct (shape_head mid mi rest Hwf Hne) as (c & t & Ec & Hrb & _).
    rewrite Ec at 1. rewrite Hrb. rewrite Hscan. now rewrite Hcc.
Qed.

Lemma extract_bracket_ok neg items rest : wf_item (GBr neg items) = true ->
  extract_bracket ((if neg then [ch_bang] else []) ++ show_body items ++ ch_rb :: rest)
  = BrOk (tr_item (GBr neg items)) rest.
Proof.
  intros Hwf0. pose proof (cc_parse_bracket neg items [] Hwf0) as Hcc.
  destruct (wf_bracket_shape neg items Hwf0) as (rb & mid & mi & E & Hwf & Hne).
  cbn [wf_item] in Hwf0. apply andb_true_iff in Hwf0 as [_ Hfirst]. subst items.
  cbn [tr_item]. rewrite show_shape in *. rewrite <- ?app_assoc in *.
  destruct neg; cbn [app] in *.
  - rewrite extract_bracket_neg by reflexivity.
    rewrite (after_neg_ok [ch_lb; ch_caret] rb mid mi rest true (rbitem rb ++ mid ++ mnitem mi)); [reflexivity|exact Hwf|exact Hne|exact Hcc].
  - assert (Hc : exists c t, rtext rb ++ show_body mid ++ mtext mi ++ ch_rb :: rest = c :: t /\ ((c =? ch_bang) || (c =? ch_caret)) = false).
    { destruct rb; cbn [rtext rbitem app] in *.
      - exists ch_rb. eexists. split; reflexivity.
      - destruct (shape_head mid mi rest Hwf Hne) as (c & t & Ec & _ & Hfc). rewrite Hfc in Hfirst.
        apply andb_true_iff in Hfirst as [Hb Hcar]. exists c, t. split; [exact Ec|].
        now rewrite (neqb_false _ _ Hb), (neqb_false _ _ Hcar). }
    destruct Hc as (c & t & Ec & Hbc). rewrite Ec. rewrite extract_bracket_pos by exact Hbc. rewrite <- Ec.
    rewrite (after_neg_ok [ch_lb] rb mid mi rest false (rbitem rb ++ mid ++ mnitem mi)); [reflexivity|exact Hwf|exact Hne|exact Hcc].
Qed.

(* ---- glob_to_regex writes the expected text ---- *)
Lemma show_item_len x : 1 <= length (show_item x).
Proof. destruct x; cbn [show_item length app]; lia. Qed.

Theorem glob_to_regex_prefix : forall g fuel p acc, forallb wf_item g = true ->
  glob_to_regex (length g + fuel) (show g ++ p) acc = glob_to_regex fuel p (acc ++ tr g).
Proof.
  induction g as [|x g IH]; intros fuel p acc Hwf.
  - cbn. now rewrite app_nil_r.
  - cbn [forallb] in Hwf. apply andb_true_iff in Hwf as [Hx Hwf].
    unfold show, tr in *. cbn [map concat length plus] in *. fold (show g) in *. fold (tr g) in *.
    rewrite <- !app_assoc.
    destruct x as [c|c| | |neg items].
    + cbn [wf_item] in Hx. repeat (apply andb_true_iff in Hx as [Hx ?]).
      cbn [show_item app tr_item glob_to_regex length] in *.
      rewrite (neqb_false c ch_q), (neqb_false c ch_star), (neqb_false c ch_bs), (neqb_false c ch_lb) by assumption.
      rewrite IH by assumption. now rewrite app_assoc.
    + cbn [show_item app tr_item glob_to_regex length] in *.
      change (ch_bs =? ch_q) with false. change (ch_bs =? ch_star) with false. change (ch_bs =? ch_bs) with true. cbv iota.
      rewrite IH by assumption. now rewrite app_assoc.
    + cbn [show_item app tr_item glob_to_regex length] in *. change (ch_q =? ch_q) with true. cbv iota.
      rewrite IH by assumption. now rewrite <- app_assoc.
    + cbn [show_item app tr_item glob_to_regex length] in *.
      change (ch_star =? ch_q) with false. change (ch_star =? ch_star) with true. cbv iota.
      rewrite IH by assumption. now rewrite <- app_assoc.
    + cbn [show_item] in *. rewrite <- !app_assoc in *.
      change ([ch_lb] ++ (if neg then [ch_bang] else []) ++ show_body items ++ [ch_rb] ++ show g ++ p)
        with (ch_lb :: (if neg then [ch_bang] else []) ++ show_body items ++ ch_rb :: (show g ++ p)) in *.
      cbn [glob_to_regex].
      change (ch_lb =? ch_q) with false. change (ch_lb =? ch_star) with false. change (ch_lb =? ch_bs) with false.
      change (ch_lb =? ch_lb) with true. cbv iota.
      rewrite extract_bracket_ok by exact Hx.
      assert (Hl : (length (show g ++ p) <? length ((if neg then [ch_bang] else []) ++ show_body items ++ ch_rb :: (show g ++ p))) = true).
      { apply Nat.ltb_lt. rewrite !app_length. cbn [length]. rewrite !app_length. lia. }
      rewrite Hl. rewrite IH by assumption. now rewrite app_assoc.
Qed.

Lemma items_le_show g : length g <= length (show g).
Proof.
  induction g as [|x g IH]; [cbn; lia|]. unfold show in *. cbn [map concat length]. rewrite app_length.
  pose proof (show_item_len x). lia.
Qed.

Theorem glob_to_regex_text g : forallb wf_item g = true ->
  glob_to_regex (S (length (show g))) (show g) [] = GText (tr g).
Proof.
  intros Hwf. pose proof (items_le_show g) as Hl.
  replace (S (length (show g))) with (length g + S (length (show g) - length g)) by lia.
  rewrite <- (app_nil_r (show g)) at 2. rewrite glob_to_regex_prefix by assumption. reflexivity.
Qed.

(* ---- Oniguruma reads the text back as the glob's meaning ---- *)
Lemma push_literal_parse f ci c t : (match t with d :: _ => (d =? ch_star) = false | [] => True end) ->
  parse_bre (S f) ci (push_literal c ++ t) = option_map (cons (RSingle (ci_eq ci c))) (parse_bre f ci t).
Proof.
  intros _. unfold push_literal. destruct (needs_escape c) eqn:E.
  - cbn [app parse_bre]. change (ch_bs =? ch_bs) with true. reflexivity.
  - unfold needs_escape in E. repeat (apply orb_false_iff in E as [E ?]).
    cbn [app parse_bre]. replace (c =? ch_bs) with false by auto. replace (c =? ch_dot) with false by auto.
    replace (c =? ch_lb) with false by auto. reflexivity.
Qed.

Lemma tr_item_head x : wf_item x = true -> exists d t, tr_item x = d :: t /\ (d =? ch_star) = false.
Proof.
  intros _. destruct x as [c|c| | |neg items]; cbn [tr_item].
  1,2: unfold push_literal; destruct (needs_escape c) eqn:E; [exists ch_bs; eexists; split; reflexivity|];
       exists c; eexists; split; [reflexivity|]; unfold needs_escape in E; repeat (apply orb_false_iff in E as [E ?]); assumption.
  - exists ch_dot. eexists. split; reflexivity.
  - exists ch_dot. eexists. split; reflexivity.
  - exists ch_lb. eexists. split; reflexivity.
Qed.

Lemma tr_no_star g : forallb wf_item g = true -> match tr g with d :: _ => (d =? ch_star) = false | [] => True end.
Proof.
  destruct g as [|x g]; intros H; [exact Logic.I|]. cbn [forallb] in H. apply andb_true_iff in H as [Hx _].
  destruct (tr_item_head x Hx) as (d & t & E & Hd). unfold tr. cbn [map concat]. rewrite E. exact Hd.
Qed.

Definition no_star (t : list nat) : Prop := match t with d :: _ => (d =? ch_star) = false | [] => True end.

Theorem parse_bre_prefix : forall g ci fuel t, forallb wf_item g = true -> no_star t ->
  parse_bre (length g + S fuel) ci (tr g ++ t) = option_map (app (sem ci g)) (parse_bre (S fuel) ci t).
Proof.
  induction g as [|x g IH]; intros ci fuel t Hwf Ht.
  - cbn [length plus tr map concat app sem]. now destruct (parse_bre (S fuel) ci t).
  - cbn [forallb] in Hwf. apply andb_true_iff in Hwf as [Hx Hwf].
    assert (Hns : no_star (tr g ++ t)).
    { pose proof (tr_no_star g Hwf) as H. destruct (tr g); [exact Ht|exact H]. }
    assert (Hmap : forall (r : ritem) o, option_map (cons r) (option_map (app (sem ci g)) o) = option_map (app (r :: sem ci g)) o)
      by (intros r [o|]; reflexivity).
    unfold tr, sem in *. cbn [map concat length plus] in *. fold (tr g) in *. fold (sem ci g) in *.
    rewrite <- !app_assoc.
    destruct x as [c|c| | |neg items]; cbn [tr_item sem_item] in *.
    + rewrite push_literal_parse by exact Hns. rewrite IH by assumption. apply Hmap.
    + rewrite push_literal_parse by exact Hns. rewrite IH by assumption. apply Hmap.
    + cbn [app parse_bre] in *. change (ch_dot =? ch_bs) with false. change (ch_dot =? ch_dot) with true. cbv iota.
      destruct (tr g ++ t) as [|d t2] eqn:Et.
      * destruct g as [|y g']; [|exfalso; cbn [forallb] in Hwf; apply andb_true_iff in Hwf as [Hy _];
          destruct (tr_item_head y Hy) as (d & t0 & E & _); unfold tr in Et; cbn [map concat] in Et; rewrite E in Et; discriminate].
        cbn in Et. subst t. reflexivity.
      * cbn in Hns. rewrite Hns. rewrite <- Et. rewrite IH by assumption. apply Hmap.
    + cbn [app parse_bre] in *. change (ch_dot =? ch_bs) with false. change (ch_dot =? ch_dot) with true.
      change (ch_star =? ch_star) with true. cbv iota. rewrite IH by assumption. apply Hmap.
    + rewrite <- !app_assoc.
      change ([ch_lb] ++ (if neg then [ch_caret] else []) ++ show_body items ++ [ch_rb] ++ tr g ++ t)
        with (ch_lb :: ((if neg then [ch_caret] else []) ++ show_body items ++ [ch_rb] ++ tr g ++ t)).
      change ([ch_rb] ++ tr g ++ t) with (ch_rb :: (tr g ++ t)).
      cbn [parse_bre]. change (ch_lb =? ch_bs) with false. change (ch_lb =? ch_dot) with false. change (ch_lb =? ch_lb) with true. cbv iota.
      rewrite cc_parse_bracket by exact Hx. rewrite IH by assumption. apply Hmap.
Qed.

Lemma items_le_tr g : forallb wf_item g = true -> length g <= length (tr g).
Proof.
  induction g as [|x g IH]; intros H; [cbn; lia|]. cbn [forallb] in H. apply andb_true_iff in H as [Hx H].
  unfold tr in *. cbn [map concat length]. rewrite app_length.
  destruct (tr_item_head x Hx) as (d & t & E & _). rewrite E. cbn [length]. specialize (IH H). lia.
Qed.

Theorem parse_bre_meaning g ci : forallb wf_item g = true ->
  parse_bre (S (length (tr g))) ci (tr g) = Some (sem ci g).
Proof.
  intros Hwf. pose proof (items_le_tr g Hwf) as Hl.
  replace (S (length (tr g))) with (length g + S (length (tr g) - length g)) by lia.
  rewrite <- (app_nil_r (tr g)) at 2. rewrite parse_bre_prefix by (try assumption; exact Logic.I).
  cbn. now rewrite app_nil_r.
Qed.

(* ---- the pipeline: -name / -path / -lname on a well-formed glob is fnmatch of its meaning ---- *)
Theorem glob_match_is_fnmatch g ci s : forallb wf_item g = true ->
  glob_match ci (show g) s = if fn (sem ci g) s then 1 else 0.
Proof.
  intros Hwf. unfold glob_match. rewrite glob_to_regex_text by assumption.
  rewrite parse_bre_meaning by assumption. now rewrite nfa_fnmatch.
Qed.

(* a pattern ending in an unescaped backslash matches nothing *)
Theorem trailing_backslash_never g ci s : forallb wf_item g = true -> glob_match ci (show g ++ [ch_bs]) s = 0.
Proof.
  intros Hwf. unfold glob_match. pose proof (items_le_show g) as Hl.
  replace (S (length (show g ++ [ch_bs]))) with (length g + S (S (length (show g) - length g))) by (rewrite app_length; cbn [length]; lia).
  rewrite glob_to_regex_prefix by assumption. reflexivity.
Qed.

(* a final "[" that opens nothing stands for itself *)
Theorem lone_bracket_literal g ci s : forallb wf_item g = true ->
  glob_match ci (show g ++ [ch_lb]) s = if fn (sem ci g ++ [RSingle (ci_eq ci ch_lb)]) s then 1 else 0.
Proof.
  intros Hwf. unfold glob_match. pose proof (items_le_show g) as Hl. pose proof (items_le_tr g Hwf) as Hl2.
  replace (S (length (show g ++ [ch_lb]))) with (length g + S (S (length (show g) - length g))) by (rewrite app_length; cbn [length]; lia).
  rewrite glob_to_regex_prefix by assumption. cbn [app]. 
  change (glob_to_regex (S (S (length (show g) - length g))) [ch_lb] (tr g)) with (GText (tr g ++ [ch_bs; ch_lb])). cbv iota.
  replace (S (length (tr g ++ [ch_bs; ch_lb]))) with (length g + S (S (S (length (tr g) - length g)))) by (rewrite app_length; cbn [length]; lia).
  rewrite parse_bre_prefix by (try assumption; reflexivity).
  change (parse_bre (S (S (S (length (tr g) - length g)))) ci [ch_bs; ch_lb]) with (Some [RSingle (ci_eq ci ch_lb)]).
  cbn [option_map]. now rewrite nfa_fnmatch.
Qed.
